(* Schema sets (internal/db/schema_id.go: getSchemaSets, mapSchemaSetIDs, circlesBack).
   Schema names are numbers (the harness numbers them in sorted-name order, so that numeric order = the order of
   slices.Sort on the names).  A relation entry is [Some target] or [None] for the blank ("") the coded
   copy(new, old[:i-1]) leaves behind when entry i > 0 is removed. *)
From Coq Require Import List Arith Bool Lia.
Import ListNotations.

Definition rel := option nat.
Definition smap := list (nat * list rel).

Fixpoint get (M : smap) (s : nat) : option (list rel) :=
  match M with [] => None | (k, v) :: r => if Nat.eqb k s then Some v else get r s end.
Fixpoint set (M : smap) (s : nat) (v : list rel) : smap :=
  match M with [] => [(s, v)] | (k, v') :: r => if Nat.eqb k s then (k, v) :: r else (k, v') :: set r s v end.
Fixpoint del (M : smap) (s : nat) : smap :=
  match M with [] => [] | (k, v') :: r => if Nat.eqb k s then del r s else (k, v') :: del r s end.

(* ---- the stripping loop ---- *)
Definition removable (M : smap) (e : rel) : bool :=
  match e with None => true | Some t => match get M t with None => true | Some _ => false end end.

Fixpoint first_rem (M : smap) (l : list rel) : option nat :=
  match l with [] => None | e :: r => if removable M e then Some 0 else option_map S (first_rem M r) end.

(* old := relations; relations = make(len-1); if i > 0 { copy(relations, old[:i-1]) }; copy(relations[i:], old[i+1:]) *)
Definition slip (l : list rel) (i : nat) : list rel :=
  (match i with 0 => [] | S j => firstn j l ++ [None] end) ++ skipn (S i) l.

(* one iteration of the inner "for _, schema := range schemasWithRelations" body *)
Definition visit (M : smap) (s : nat) : smap :=
  match get M s with
  | None => M
  | Some l =>
      match first_rem M l with
      | Some i => match slip l i with [] => del M s | l' => set M s l' end
      | None => match l with [] => del M s | _ => M end
      end
  end.

(* the loop ends when a whole pass changed nothing *)
Definition stable (M : smap) : Prop := forall s l, get M s = Some l -> l <> [] /\ first_rem M l = None.

(* executable canonical schedule: passes over the keys in order until nothing changes *)
Definition keys (M : smap) : list nat := map fst M.
Fixpoint smap_eqb (A B : smap) : bool :=
  match A, B with
  | [], [] => true
  | (k, v) :: a, (k', v') :: b =>
      Nat.eqb k k' && Nat.eqb (length v) (length v') &&
      forallb (fun p => match p with (Some x, Some y) => Nat.eqb x y | (None, None) => true | _ => false end) (combine v v') &&
      smap_eqb a b
  | _, _ => false
  end.
Fixpoint strip (fuel : nat) (M : smap) : smap :=
  match fuel with
  | 0 => M
  | S f => let M' := fold_left visit (keys M) M in if smap_eqb M' M then M else strip f M'
  end.

(* ---- circle detection on the stripped map ---- *)
Definition rels (M : smap) (s : nat) : list nat :=
  match get M s with Some l => flat_map (fun e => match e with Some t => [t] | None => [] end) l | None => [] end.
Definition memb (x : nat) (l : list nat) : bool := existsb (Nat.eqb x) l.

(* circlesBack; returns (found, processed set) *)
Fixpoint circles (fuel : nat) (M : smap) (orig cur : nat) (seen : list nat) {struct fuel} : bool * list nat :=
  match fuel with
  | 0 => (false, seen)
  | S f =>
      if memb cur seen then (false, seen)
      else if Nat.eqb cur orig then (true, seen)
      else
        fold_left (fun (acc : bool * list nat) r => if fst acc then acc else circles f M orig r (snd acc))
                  (rels M cur) (false, cur :: seen)
  end.

Definition lookup (ids : list (nat * nat)) (s : nat) : option nat :=
  match find (fun p => Nat.eqb (fst p) s) ids with Some p => Some (snd p) | None => None end.
Definition assign (ids : list (nat * nat)) (s id : nat) : list (nat * nat) := (s, id) :: ids.

Record mst := { m_i : nat; m_ids : list (nat * nat); m_hit : list nat }.

Fixpoint map_ids (fuel : nat) (M : smap) (s : nat) (st : mst) {struct fuel} : mst :=
  match fuel with
  | 0 => st
  | S f =>
      if memb s (m_hit st) then st
      else
        fold_left
          (fun st r =>
             let cb := fst (circles (S (length M)) M s r []) in
             let '(i, ids, cid) :=
               if cb then
                 match lookup (m_ids st) r with
                 | Some id => (m_i st, m_ids st, id)
                 | None => match lookup (m_ids st) s with
                           | Some id => (m_i st, assign (m_ids st) s id, id)
                           | None => (S (m_i st), assign (m_ids st) s (S (m_i st)), S (m_i st))
                           end
                 end
               else (S (m_i st), m_ids st, S (m_i st)) in
             map_ids f M r {| m_i := i; m_ids := assign ids r cid; m_hit := m_hit st |})
          (rels M s) {| m_i := m_i st; m_ids := m_ids st; m_hit := s :: m_hit st |}
  end.

(* input: every new schema with its NamedKind relation targets in field order *)
Definition init_map (schemas : list (nat * list nat)) : smap :=
  flat_map (fun p => match snd p with [] => [] | l => [(fst p, map Some l)] end) schemas.

Fixpoint insert_nat (x : nat) (l : list nat) : list nat :=
  match l with [] => [x] | y :: r => if Nat.leb x y then x :: l else y :: insert_nat x r end.
Definition sort_nat (l : list nat) : list nat := fold_right insert_nat [] l.

(* set label per schema, in input order (labels are only compared for equality) *)
Definition set_labels (schemas : list (nat * list nat)) : list (nat * nat) :=
  let M0 := init_map schemas in
  let M := strip (S (length (concat (map snd M0)) + length M0)) M0 in
  let st := fold_left (fun st s => map_ids (S (length M)) M s st) (sort_nat (keys M)) {| m_i := 0; m_ids := []; m_hit := [] |} in
  snd (fold_left (fun (acc : nat * list (nat * nat)) p =>
                    match lookup (m_ids st) (fst p) with
                    | Some id => (fst acc, snd acc ++ [(fst p, id)])
                    | None => (S (fst acc), snd acc ++ [(fst p, S (fst acc))])
                    end) schemas (m_i st, [])).

(* the grouping: for each schema the sorted list of schemas carrying the same label *)
Definition groups (schemas : list (nat * list nat)) : list (nat * list nat) :=
  let lab := set_labels schemas in
  map (fun p => (fst p, sort_nat (map fst (filter (fun q => Nat.eqb (snd q) (snd p)) lab)))) lab.
