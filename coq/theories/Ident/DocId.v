(* Document identifiers (client/document.go: Document.Bytes, GenerateDocID).
   The document is a Go map field name -> value; Bytes() drops the nil-valued fields and marshals the map with the
   canonical CBOR options (keys sorted length-first, then bytewise); the id is uuid5(cid(bytes ++ schema root)).
   cid / uuid5 / the value encoder are abstract functions (Section variables): the id is a function of the canonical
   entry sequence, which is what the theorems are about. *)
From Coq Require Import List ZArith Arith Bool Lia Permutation.
Import ListNotations.

Definition key := list Z.                         (* field name bytes *)

Fixpoint lex_le (a b : list Z) : bool :=
  match a, b with
  | [], _ => true
  | _ :: _, [] => false
  | x :: a', y :: b' => if Z.ltb x y then true else if Z.ltb y x then false else lex_le a' b'
  end.

(* RFC 7049 canonical ("length first") key order, as configured by client.CborEncodingOptions *)
Definition key_le (a b : key) : bool :=
  if Nat.ltb (length a) (length b) then true
  else if Nat.ltb (length b) (length a) then false else lex_le a b.

Section Doc.
  Variable V : Type.                               (* normal values *)
  Variable is_nil : V -> bool.

  Definition entry := (key * V)%type.

  Fixpoint insert (e : entry) (l : list entry) : list entry :=
    match l with
    | [] => [e]
    | x :: r => if key_le (fst e) (fst x) then e :: l else x :: insert e r
    end.
  Fixpoint isort (l : list entry) : list entry :=
    match l with [] => [] | e :: r => insert e (isort r) end.

  (* what is hashed: the canonical sequence of the non-nil entries *)
  Definition canon (fields : list entry) : list entry := isort (filter (fun e => negb (is_nil (snd e))) fields).

  Variable B : Type.
  Variable hash_entries : list entry -> list Z -> B.   (* cbor-encode the sequence, append the root, cid, uuid5 *)
  Definition docid (root : list Z) (fields : list entry) : B := hash_entries (canon fields) root.
End Doc.

Arguments insert {V}. Arguments isort {V}. Arguments canon {V}. Arguments docid {V} is_nil {B}.

(* executable check used by the correspondence run: the key order observed in the real CBOR bytes *)
Definition canon_keys (ks : list key) : list key := map fst (isort (map (fun k => (k, tt)) ks)).
