(* The stripping loop of getSchemaSets ranges over a Go map, whose iteration order is random.  Theorem: whatever the
   order of visits, once the loop stops (a pass without change) the map is the same. *)
From Coq Require Import List Arith Bool Lia.
From Verif Require Import SchemaSets.
Import ListNotations.

Lemma get_set_same M s v : get (set M s v) s = Some v.
Proof. induction M as [|[k w] M IH]; cbn [set get]; [now rewrite Nat.eqb_refl|].
  destruct (Nat.eqb k s) eqn:E; cbn [get]; rewrite E; auto. Qed.
Lemma get_set_other M s v s' : s' <> s -> get (set M s v) s' = get M s'.
Proof. intros Hne. induction M as [|[k w] M IH]; cbn [set get].
  - destruct (Nat.eqb s s') eqn:E; auto. apply Nat.eqb_eq in E. congruence.
  - destruct (Nat.eqb k s) eqn:E; cbn [get]; destruct (Nat.eqb k s') eqn:E'; auto.
    apply Nat.eqb_eq in E, E'. congruence. Qed.
Lemma get_del_same M s : get (del M s) s = None.
Proof. induction M as [|[k w] M IH]; cbn [del get]; auto. destruct (Nat.eqb k s) eqn:E; cbn [get]; rewrite ?E; auto. Qed.
Lemma get_del_other M s s' : s' <> s -> get (del M s) s' = get M s'.
Proof. intros Hne. induction M as [|[k w] M IH]; cbn [del get]; auto.
  destruct (Nat.eqb k s) eqn:E; cbn [get]; destruct (Nat.eqb k s') eqn:E'; auto.
  apply Nat.eqb_eq in E, E'. congruence. Qed.

Lemma visit_other M s s' : s' <> s -> get (visit M s) s' = get M s'.
Proof.
  intros Hne. unfold visit. destruct (get M s) as [l|]; auto.
  destruct (first_rem M l) as [i|].
  - destruct (slip l i); [now apply get_del_other | now apply get_set_other].
  - destruct l; auto. now apply get_del_other.
Qed.

(* first_rem as a decomposition *)
Lemma first_rem_some M l i : first_rem M l = Some i ->
  exists a x b, l = a ++ x :: b /\ length a = i /\ removable M x = true /\ Forall (fun e => removable M e = false) a.
Proof.
  revert i. induction l as [|e l IH]; intros i H; cbn [first_rem] in H; [discriminate|].
  destruct (removable M e) eqn:E.
  - inversion H; subst. exists [], e, l. auto.
  - destruct (first_rem M l) as [j|]; [|discriminate]. inversion H; subst.
    destruct (IH j eq_refl) as [a [x [b [H1 [H2 [H3 H4]]]]]]. exists (e :: a), x, b. subst. cbn. auto.
Qed.
Lemma first_rem_none M l : first_rem M l = None <-> Forall (fun e => removable M e = false) l.
Proof.
  induction l as [|e l IH]; cbn [first_rem]; [split; auto|].
  destruct (removable M e) eqn:E.
  - split; [discriminate|]. intros H. inversion H; congruence.
  - destruct (first_rem M l) as [j|]; cbn [option_map].
    + split; [discriminate|]. intros H. inversion H as [|? ? _ H3]; subst. apply IH in H3. discriminate.
    + split; auto. intros _. constructor; auto. apply IH; auto.
Qed.
Lemma first_rem_app_l M a x b : Forall (fun e => removable M e = false) a -> removable M x = true ->
  first_rem M (a ++ x :: b) = Some (length a).
Proof.
  induction a as [|e a IH]; intros Ha Hx; cbn [app first_rem length]; [now rewrite Hx|].
  inversion Ha as [|? ? He Ha']; subst. rewrite He, IH; auto.
Qed.

Lemma slip_app (a : list rel) x b :
  slip (a ++ x :: b) (length a) = match a with [] => b | _ => removelast a ++ None :: b end.
Proof.
  unfold slip.
  assert (Hs : skipn (S (length a)) (a ++ x :: b) = b).
  { replace (S (length a)) with (length (a ++ [x])) by (rewrite app_length; cbn; lia).
    replace (a ++ x :: b) with ((a ++ [x]) ++ b) by (now rewrite <- app_assoc).
    rewrite skipn_app, skipn_all, Nat.sub_diag. auto. }
  rewrite Hs. destruct a as [|e a]; auto.
  cbn [length]. rewrite firstn_app.
  replace (length a - length (e :: a)) with 0 by (cbn; lia). cbn [firstn]. rewrite app_nil_r.
  rewrite (removelast_firstn_len (e :: a)). cbn [length pred]. now rewrite <- app_assoc.
Qed.

(* ---- lower bound ---- *)
Definition above (M T : smap) : Prop := forall s lt, get T s = Some lt -> exists pre, get M s = Some (pre ++ lt).

Lemma above_refl M : above M M.
Proof. intros s lt H. exists []. auto. Qed.

Lemma stable_not_removable M T s lt : above M T -> stable T -> get T s = Some lt ->
  Forall (fun e => removable M e = false) lt.
Proof.
  intros Hab Hst Ht. destruct (Hst s lt Ht) as [_ Hn]. apply first_rem_none in Hn.
  eapply Forall_impl; [|exact Hn]. intros e He. unfold removable in *.
  destruct e as [t|]; [|discriminate]. destruct (get T t) as [l'|] eqn:E; [|discriminate].
  destruct (Hab t l' E) as [pre Hp]. now rewrite Hp.
Qed.

Lemma above_visit M T s : above M T -> stable T -> above (visit M s) T.
Proof.
  intros Hab Hst s' lt Ht. destruct (Nat.eq_dec s' s) as [->|Hne].
  2:{ rewrite visit_other by auto. now apply Hab. }
  destruct (Hab s lt Ht) as [pre Hm]. pose proof (stable_not_removable M T s lt Hab Hst Ht) as Hnr.
  destruct (Hst s lt Ht) as [Hne _].
  unfold visit. rewrite Hm. destruct (first_rem M (pre ++ lt)) as [i|] eqn:Ef.
  - destruct (first_rem_some _ _ _ Ef) as [a [x [b [H1 [H2 [H3 H4]]]]]].
    (* the removable entry lies in pre *)
    assert (Hsplit : exists c, pre = a ++ x :: c /\ b = c ++ lt).
    { clear - H1 H3 H4 Hnr. revert pre H1. induction a as [|e a IH]; intros pre H1.
      - destruct pre as [|p pre]; cbn [app] in H1.
        + subst lt. inversion Hnr; congruence.
        + inversion H1; subst. exists pre. auto.
      - inversion H4 as [|? ? He Ha']; subst. destruct pre as [|p pre]; cbn [app] in H1.
        + exfalso. subst lt. (* x occurs in lt but is removable *)
          rewrite Forall_forall in Hnr. specialize (Hnr x). rewrite Hnr in H3; [discriminate|].
          right. apply in_or_app. right. left. auto.
        + inversion H1 as [[Hp Hrest]]; subst. destruct (IH Ha' pre Hrest) as [c [Hc1 Hc2]]. exists c. subst. auto. }
    destruct Hsplit as [c [Hc1 Hc2]]. subst i. rewrite H1, slip_app.
    destruct a as [|e a].
    + subst b. destruct (c ++ lt) eqn:Ecl.
      * destruct c; cbn in Ecl; [congruence|discriminate].
      * rewrite get_set_same. exists c. now rewrite Ecl.
    + remember (removelast (e :: a)) as ra. destruct (ra ++ None :: b) eqn:El.
      * destruct ra; discriminate.
      * rewrite get_set_same. exists (ra ++ None :: c). rewrite <- El. subst b. now rewrite <- app_assoc.
  - destruct (pre ++ lt) eqn:El.
    + destruct pre; cbn in El; [congruence|discriminate].
    + rewrite Hm. exists pre. now rewrite El.
Qed.

Lemma above_run M T vs : above M T -> stable T -> above (fold_left visit vs M) T.
Proof. revert M. induction vs as [|s vs IH]; intros M Ha Hs; cbn [fold_left]; auto. apply IH; auto. now apply above_visit. Qed.

(* ---- every reachable list is (garbage ending in a blank) ++ a suffix of the original ---- *)
Definition shape (l0 lm : list rel) : Prop :=
  exists g k, lm = g ++ skipn k l0 /\ (g = [] \/ exists g', g = g' ++ [None]).
Definition inv (M0 M : smap) : Prop := forall s lm, get M s = Some lm -> exists l0, get M0 s = Some l0 /\ shape l0 lm.

Lemma skipn_S_skipn {A} k (l : list A) x r : skipn k l = x :: r -> skipn (S k) l = r.
Proof. revert l. induction k as [|k IH]; intros l H; cbn [skipn] in *; [now subst|]. destruct l; [discriminate|]. now apply IH. Qed.

Lemma shape_slip M l0 lm a x b : shape l0 lm -> lm = a ++ x :: b ->
  Forall (fun e => removable M e = false) a -> removable M x = true ->
  shape l0 (slip lm (length a)).
Proof.
  intros [g [k [Hlm Hg]]] Hdec Ha Hx. subst lm. rewrite Hdec, slip_app.
  destruct Hg as [->|[g' ->]].
  - (* no garbage: the removed entry is inside the suffix *)
    cbn [app] in Hdec.
    assert (Hb : skipn (k + S (length a)) l0 = b).
    { clear - Hdec. revert k l0 Hdec. induction a as [|e a IH]; intros k l0 Hdec; cbn [app length] in *.
      - rewrite Nat.add_1_r. eapply skipn_S_skipn; eauto.
      - replace (k + S (S (length a))) with (S k + S (length a)) by lia. apply IH.
        eapply skipn_S_skipn; eauto. }
    destruct a as [|e a].
    + exists [], (k + 1). cbn [app length] in *. rewrite <- Hb. split; auto.
    + exists (removelast (e :: a) ++ [None]), (k + S (length (e :: a))). rewrite Hb, <- app_assoc. split; auto.
      right. eexists; eauto.
  - (* garbage ends in a blank, which is removable: the removed entry is inside the garbage *)
    rewrite <- app_assoc in Hdec. cbn [app] in Hdec.
    assert (Hsplit : (exists c, g' = a ++ x :: c /\ b = c ++ None :: skipn k l0) \/ (g' = a /\ x = None /\ b = skipn k l0)).
    { clear - Hdec Ha. revert g' Hdec. induction a as [|e a IH]; intros g' Hdec; cbn [app] in Hdec.
      - destruct g' as [|p g']; cbn [app] in Hdec; inversion Hdec; subst; [right; auto|left; exists g'; auto].
      - inversion Ha as [|? ? He Ha']; subst. destruct g' as [|p g']; cbn [app] in Hdec; inversion Hdec as [[Hp Hrest]]; subst.
        + cbn in He. discriminate.
        + destruct (IH Ha' g' Hrest) as [[c [Hc1 Hc2]]|[Hc1 [Hc2 Hc3]]]; [left; exists c; subst; auto|right; subst; auto]. }
    destruct Hsplit as [[c [Hc1 Hc2]]|[Hc1 [Hc2 Hc3]]].
    + subst b. destruct a as [|e a].
      * exists (c ++ [None]), k. rewrite <- app_assoc. split; auto. right; eexists; eauto.
      * exists ((removelast (e :: a) ++ None :: c) ++ [None]), k. split; [|right; eexists; eauto].
        rewrite <- !app_assoc. cbn [app]. auto.
    + subst b. destruct a as [|e a].
      * exists [], k. auto.
      * exists (removelast (e :: a) ++ [None]), k. rewrite <- app_assoc. split; auto. right; eexists; eauto.
Qed.

Lemma inv_visit M0 M s : inv M0 M -> inv M0 (visit M s).
Proof.
  intros Hi s' lm Hg. destruct (Nat.eq_dec s' s) as [->|Hne].
  2:{ rewrite visit_other in Hg by auto. now apply Hi. }
  unfold visit in Hg. destruct (get M s) as [l|] eqn:El; [|rewrite El in Hg; discriminate].
  destruct (Hi s l El) as [l0 [H0 Hsh]].
  destruct (first_rem M l) as [i|] eqn:Ef.
  - destruct (first_rem_some _ _ _ Ef) as [a [x [b [H1 [H2 [H3 H4]]]]]].
    destruct (slip l i) eqn:Es.
    + rewrite get_del_same in Hg. discriminate.
    + rewrite get_set_same in Hg. inversion Hg; subst lm. exists l0. split; auto.
      rewrite <- Es, <- H2. eapply shape_slip; eauto.
  - destruct l.
    + rewrite get_del_same in Hg. discriminate.
    + rewrite El in Hg. inversion Hg; subst. exists l0. auto.
Qed.

Lemma inv_run M0 vs : forall M, inv M0 M -> inv M0 (fold_left visit vs M).
Proof. induction vs as [|s vs IH]; intros M H; cbn [fold_left]; auto. apply IH. now apply inv_visit. Qed.

Lemma inv_refl M : inv M M.
Proof. intros s lm H. exists lm. split; auto. exists [], 0. auto. Qed.

(* a stable reachable state lies below the initial one *)
Lemma stable_below M0 T : inv M0 T -> stable T -> above M0 T.
Proof.
  intros Hi Hst s lt Ht. destruct (Hi s lt Ht) as [l0 [H0 [g [k [Hlt Hg]]]]].
  destruct (Hst s lt Ht) as [_ Hn]. apply first_rem_none in Hn.
  destruct Hg as [->|[g' ->]].
  - exists (firstn k l0). cbn [app] in Hlt. now rewrite Hlt, firstn_skipn.
  - exfalso. subst lt. rewrite Forall_forall in Hn. specialize (Hn None). cbn in Hn.
    assert (true = false); [|discriminate]. apply Hn. apply in_or_app. left. apply in_or_app. right. left. auto.
Qed.

Lemma above_antisym T1 T2 : above T1 T2 -> above T2 T1 -> forall s, get T1 s = get T2 s.
Proof.
  intros H12 H21 s. destruct (get T1 s) as [l1|] eqn:E1, (get T2 s) as [l2|] eqn:E2; auto.
  - destruct (H21 s l1 E1) as [p Hp]. destruct (H12 s l2 E2) as [q Hq].
    rewrite E2 in Hp. rewrite E1 in Hq. inversion Hp; inversion Hq; subst.
    assert (length (q ++ p ++ l1) = length l1) by congruence.
    rewrite !app_length in *. destruct p; [|cbn in *; lia]. destruct q; [|cbn in *; lia]. auto.
  - destruct (H21 s l1 E1) as [p Hp]. congruence.
  - destruct (H12 s l2 E2) as [p Hp]. congruence.
Qed.

(* Any two executions of the loop (any visiting orders) that both stopped hold the same map. *)
Theorem strip_confluent : forall M0 vs1 vs2,
  stable (fold_left visit vs1 M0) -> stable (fold_left visit vs2 M0) ->
  forall s, get (fold_left visit vs1 M0) s = get (fold_left visit vs2 M0) s.
Proof.
  intros M0 vs1 vs2 H1 H2. apply above_antisym.
  - apply above_run; auto. apply stable_below; auto. apply inv_run, inv_refl.
  - apply above_run; auto. apply stable_below; auto. apply inv_run, inv_refl.
Qed.

(* the loop makes progress: every visit that changes the map removes an entry, so it stops *)
Definition size (M : smap) : nat := fold_right (fun p n => S (length (snd p)) + n) 0 M.
