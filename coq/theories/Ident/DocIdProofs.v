From Coq Require Import List ZArith Arith Bool Lia Permutation.
From Verif Require Import DocId.
Import ListNotations.

Lemma lex_le_total a : forall b, lex_le a b = true \/ lex_le b a = true.
Proof.
  induction a as [|x a IH]; intros [|y b]; cbn [lex_le]; auto.
  destruct (Z.ltb_spec x y), (Z.ltb_spec y x); auto; lia.
Qed.

Lemma lex_le_antisym a : forall b, lex_le a b = true -> lex_le b a = true -> a = b.
Proof.
  induction a as [|x a IH]; intros [|y b]; cbn [lex_le]; auto; try discriminate.
  destruct (Z.ltb_spec x y), (Z.ltb_spec y x); try discriminate; try lia.
  intros H1 H2. assert (x = y) by lia. subst. f_equal. auto.
Qed.

Lemma key_le_total a b : key_le a b = true \/ key_le b a = true.
Proof.
  unfold key_le. destruct (Nat.ltb_spec (length a) (length b)), (Nat.ltb_spec (length b) (length a)); auto; try lia.
  apply lex_le_total.
Qed.

Lemma key_le_antisym a b : key_le a b = true -> key_le b a = true -> a = b.
Proof.
  unfold key_le. destruct (Nat.ltb_spec (length a) (length b)), (Nat.ltb_spec (length b) (length a));
    try discriminate; try lia. apply lex_le_antisym.
Qed.

Lemma lex_le_trans a : forall b c, lex_le a b = true -> lex_le b c = true -> lex_le a c = true.
Proof.
  induction a as [|x a IH]; intros [|y b] [|z c]; cbn [lex_le]; auto; try discriminate.
  destruct (Z.ltb_spec x y), (Z.ltb_spec y x), (Z.ltb_spec y z), (Z.ltb_spec z y), (Z.ltb_spec x z), (Z.ltb_spec z x);
    try discriminate; try lia; auto. intros; eapply IH; eauto.
Qed.

Lemma key_le_trans a b c : key_le a b = true -> key_le b c = true -> key_le a c = true.
Proof.
  unfold key_le.
  destruct (Nat.ltb_spec (length a) (length b)), (Nat.ltb_spec (length b) (length a)),
           (Nat.ltb_spec (length b) (length c)), (Nat.ltb_spec (length c) (length b)),
           (Nat.ltb_spec (length a) (length c)), (Nat.ltb_spec (length c) (length a));
    try discriminate; try lia; auto. apply lex_le_trans.
Qed.

Section Proofs.
  Variable V : Type.
  Notation entry := (key * V)%type.

  Lemma insert_comm (x y : entry) l : fst x <> fst y -> insert x (insert y l) = insert y (insert x l).
  Proof.
    intros Hne. induction l as [|z l IH]; cbn [insert].
    - destruct (key_le (fst x) (fst y)) eqn:E1, (key_le (fst y) (fst x)) eqn:E2; auto.
      + exfalso. apply Hne. now apply key_le_antisym.
      + destruct (key_le_total (fst x) (fst y)); congruence.
    - destruct (key_le (fst y) (fst z)) eqn:Eyz, (key_le (fst x) (fst z)) eqn:Exz; cbn [insert].
      + destruct (key_le (fst x) (fst y)) eqn:E1, (key_le (fst y) (fst x)) eqn:E2; rewrite ?Eyz, ?Exz; auto.
        * exfalso. apply Hne. now apply key_le_antisym.
        * destruct (key_le_total (fst x) (fst y)); congruence.
      + destruct (key_le (fst x) (fst y)) eqn:E1.
        * rewrite (key_le_trans _ _ _ E1 Eyz) in Exz. discriminate.
        * now rewrite Exz, Eyz.
      + destruct (key_le (fst y) (fst x)) eqn:E2.
        * rewrite (key_le_trans _ _ _ E2 Exz) in Eyz. discriminate.
        * now rewrite Exz, Eyz.
      + rewrite Exz, Eyz. f_equal. apply IH.
  Qed.

  Lemma isort_perm (l1 l2 : list entry) : Permutation l1 l2 -> NoDup (map fst l1) -> isort l1 = isort l2.
  Proof.
    induction 1 as [|x l l' Hp IH|x y l|l l' l'' Hp1 IH1 Hp2 IH2]; intros Hnd; cbn [isort map] in *; auto.
    - inversion Hnd; subst. f_equal; auto.
    - apply insert_comm. inversion Hnd as [|? ? Hn _]; subst. intros E. apply Hn. left. auto.
    - rewrite IH1 by auto. apply IH2. eapply Permutation_NoDup; [|exact Hnd]. now apply Permutation_map.
  Qed.

  Variable is_nil : V -> bool.

  Lemma filter_perm {A} (f : A -> bool) l1 l2 : Permutation l1 l2 -> Permutation (filter f l1) (filter f l2).
  Proof.
    induction 1; cbn [filter]; auto.
    - destruct (f x); auto.
    - destruct (f x), (f y); auto. constructor.
    - etransitivity; eauto.
  Qed.

  Lemma nodup_filter_keys (f : entry -> bool) l : NoDup (map fst l) -> NoDup (map fst (filter f l)).
  Proof.
    induction l as [|e l IH]; cbn [map filter]; auto. intros H. inversion H as [|? ? Hn Hd]; subst.
    destruct (f e); cbn [map]; auto. constructor; auto. intros Hin. apply Hn.
    apply in_map_iff in Hin. destruct Hin as [z [Hz Hi]]. apply filter_In in Hi. destruct Hi as [Hi _].
    apply in_map_iff. exists z; auto.
  Qed.

  (* the canonical sequence does not depend on the order in which the fields were given ... *)
  Theorem canon_permutation (l1 l2 : list entry) :
    Permutation l1 l2 -> NoDup (map fst l1) -> canon is_nil l1 = canon is_nil l2.
  Proof.
    intros Hp Hnd. unfold canon. apply isort_perm; [now apply filter_perm | now apply nodup_filter_keys].
  Qed.

  (* ... nor on whether a nil-valued field is present or omitted *)
  Theorem canon_nil_omitted (l1 l2 : list entry) k v :
    is_nil v = true -> canon is_nil (l1 ++ (k, v) :: l2) = canon is_nil (l1 ++ l2).
  Proof.
    intros Hn. unfold canon. rewrite !filter_app. cbn [filter snd]. now rewrite Hn.
  Qed.

  Variable B : Type.
  Variable hash_entries : list entry -> list Z -> B.

  Theorem docid_permutation root (l1 l2 : list entry) :
    Permutation l1 l2 -> NoDup (map fst l1) -> docid is_nil hash_entries root l1 = docid is_nil hash_entries root l2.
  Proof. intros. unfold docid. f_equal. now apply canon_permutation. Qed.

  Theorem docid_nil_omitted root (l1 l2 : list entry) k v :
    is_nil v = true -> docid is_nil hash_entries root (l1 ++ (k, v) :: l2) = docid is_nil hash_entries root (l1 ++ l2).
  Proof. intros. unfold docid. f_equal. now apply canon_nil_omitted. Qed.
End Proofs.
