(* C02 - every update is applied exactly once; nothing lost, nothing doubled.
   For every well-formed universe and every reachable replica state (any operation sequence, any redelivery). *)
From Coq Require Import List ZArith.
From Verif Require Import GoSem Bytes Model Sweep Order Conv Exact.
Import ListNotations.

(* a counter equals the sum of the increments linked by the merged commits, and no commit is merged twice *)
Theorem C02_counter_exact : forall u ops f, wfb u = true ->
  get_ctr f (v_ctrs (r_vs (reach u ops))) = sum_ctr u f (blocks_of u (r_merged (reach u ops))) /\
  NoDup (r_merged (reach u ops)).
Proof. exact counter_exact. Qed.
Print Assumptions C02_counter_exact.

(* a register holds a merged write that no other merged write of that field beats in (height, bytes);
   since heights strictly increase along parent links it is not an ancestor of another merged write *)
Theorem C02_register_latest : forall u ops f, wfb u = true ->
  let r := get_reg f (v_regs (r_vs (reach u ops))) in
  (forall c w, In c (blocks_of u (r_merged (reach u ops))) -> reg_of u f c = Some w -> rle w r) /\
  (r = (O, cbor_nil) \/ exists c, In c (blocks_of u (r_merged (reach u ops))) /\ reg_of u f c = Some r).
Proof. exact register_latest. Qed.
Print Assumptions C02_register_latest.

(* deleted exactly when a merged commit deleted; never resurrected *)
Theorem C02_deleted_iff : forall u ops, wfb u = true ->
  v_marker (r_vs (reach u ops)) = Some true <->
  existsb (is_delete u) (blocks_of u (r_merged (reach u ops))) = true.
Proof. exact delete_iff. Qed.
Print Assumptions C02_deleted_iff.

Theorem C02_delete_sticky : forall u ops more, wfb u = true ->
  v_marker (r_vs (reach u ops)) = Some true -> v_marker (r_vs (reach u (ops ++ more))) = Some true.
Proof. exact delete_sticky. Qed.
Print Assumptions C02_delete_sticky.

(* merging a commit makes all of its ancestors merged as well *)
Theorem C02_ancestors_visible : forall u ops c b, wfb u = true ->
  Sweep.Anc (parents u) c b -> In b (r_merged (reach u (ops ++ [ODeliver c]))).
Proof. exact deliver_brings_ancestors. Qed.
Print Assumptions C02_ancestors_visible.

(* non-vacuity: counter increments 1,+2,+4 on a branching history with redelivery of a merged ancestor *)
Definition ex_u2 : universe :=
  [ mkB (-1) 1 [] [1] (DStatus false); mkB 3 1 [] [] (DCtr 1);
    mkB (-1) 2 [0] [3] (DStatus false); mkB 3 2 [1] [] (DCtr 2);
    mkB (-1) 2 [0] [5] (DStatus false); mkB 3 2 [1] [] (DCtr 4) ]%nat.
Example C02_nonvacuous :
  wfb ex_u2 = true /\
  get_ctr 3 (v_ctrs (r_vs (reach ex_u2 [ODeliver 2; ODeliver 4; ODeliver 0; ODeliver 2; ODeliver 4]%nat))) = 7%Z.
Proof. vm_compute. split; reflexivity. Qed.
