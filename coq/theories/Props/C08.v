(* C08 - query results follow the documented filter, order, limit and aggregate semantics.
   The semantics (Query/Sem.v) is validated against the real planner on every generated request. *)
From Coq Require Import List ZArith Permutation Sorted.
From Verif Require Import Bytes Sem SemProofs.
Import ListNotations.

(* the filter keeps exactly the matching documents *)
Theorem C08_filter_exact : forall (I : Type) g (docs : list (I * doc)) x,
  In x (sel g docs) <-> In x docs /\ eval_filter g (snd x) = true.
Proof. intros I. exact (@filter_exact I). Qed.
Print Assumptions C08_filter_exact.

(* metamorphic laws: a filter and its negation partition the collection; _and is intersection; _or is union *)
Theorem C08_filter_partition : forall (I : Type) g (docs : list (I * doc)),
  Permutation (sel g docs ++ sel (FNot g) docs) docs /\
  (forall x, In x (sel g docs) -> In x (sel (FNot g) docs) -> False) /\
  (length (sel g docs) + length (sel (FNot g) docs) = length docs)%nat.
Proof. intros I. exact (@filter_partition I). Qed.
Print Assumptions C08_filter_partition.

Theorem C08_and_or : forall (I : Type) l (docs : list (I * doc)) x,
  (In x (sel (FAnd l) docs) <-> In x docs /\ forall g, In g l -> In x (sel g docs)) /\
  (In x (sel (FOr l) docs) <-> exists g, In g l /\ In x (sel g docs)).
Proof. intros I l docs x. split; [apply filter_and_intersection | apply filter_or_union]. Qed.
Print Assumptions C08_and_or.

(* documented ordering: sorted by the first key, ties broken by each following key, a permutation of the input;
   for documents typed by a schema (every field holds null or a value of the field's kind) *)
Theorem C08_order_lexicographic : forall (I : Type) ty ks (l : list (I * doc)),
  Forall (fun x => wt ty (snd x)) l ->
  StronglySorted (fun a b => lex_cmp ks (snd a) (snd b) <> Gt) (order_doc ks l) /\ Permutation (order_doc ks l) l.
Proof. intros I. exact (@order_doc_sorted I). Qed.
Print Assumptions C08_order_lexicographic.

(* the pinned comparator consults only the first key (finding F7): the faithful model differs from the documented one *)
Example C08_order_coded_refuted :
  let docs := [(0%nat, [VInt 1; VInt 2]); (1%nat, [VInt 1; VInt 1])] in
  map fst (order_doc [(0%nat, false); (1%nat, false)] docs) = [1%nat; 0%nat] /\
  map fst (order_coded [(0%nat, false); (1%nat, false)] docs) = [0%nat; 1%nat].
Proof. exact order_coded_refuted. Qed.

(* limit / offset cut a slice; a limit yields a prefix of the unlimited result *)
Theorem C08_slice : forall (A : Type) (o l : nat) (xs : list A),
  slice o l xs = match l with O => skipn o xs | _ => firstn l (skipn o xs) end /\
  exists rest, xs = slice 0 l xs ++ rest.
Proof. intros A o l xs. split; [reflexivity | apply limit_is_prefix]. Qed.
Print Assumptions C08_slice.

(* aggregates equal the arithmetic over the listed values *)
Theorem C08_aggregates : forall (I : Type) g f (docs : list (I * doc)),
  agg_count g docs = Z.of_nat (length (sel g docs)) /\
  agg_sum g f docs = fold_right Z.add 0%Z (nums_of g f docs) /\
  match agg_min g f docs, agg_max g f docs with
  | Some mn, Some mx => In mn (nums_of g f docs) /\ In mx (nums_of g f docs) /\ forall z, In z (nums_of g f docs) -> (mn <= z <= mx)%Z
  | None, None => nums_of g f docs = []
  | _, _ => False
  end.
Proof. intros I g f docs. split; [reflexivity | split; [reflexivity | apply min_max_spec]]. Qed.
Print Assumptions C08_aggregates.
