(* C01 - replicas that have seen the same commits show the same documents.
   Statements are over the operational replica model (Crdt/Model.v: level-sweep merge walk, LWW registers,
   counters, delete marker, document-level heads), for every well-formed block universe [u] and every
   sequence of local writes and deliveries - any order, interleaving, duplication. *)
From Coq Require Import List ZArith.
From Verif Require Import GoSem Bytes Model Sweep Order Conv Exact.
Import ListNotations.

(* Two replicas reached by ANY two operation sequences that have merged the same set of commits show the
   same value state (marker, every register, every counter) and the same head set. *)
Theorem C01_convergence : forall u ops1 ops2, wfb u = true ->
  (forall b, In b (r_merged (reach u ops1)) <-> In b (r_merged (reach u ops2))) ->
  vs_eq (r_vs (reach u ops1)) (r_vs (reach u ops2)) /\
  (forall b, In b (r_heads (reach u ops1)) <-> In b (r_heads (reach u ops2))).
Proof. exact convergence. Qed.
Print Assumptions C01_convergence.

(* Delivering a commit merges exactly its not yet merged ancestors: afterwards the merged set is the old
   one plus all ancestors of the commit, whatever was merged before and however often it is redelivered. *)
Theorem C01_deliver_exact : forall u,
  (forall b p, In p (parents u b) -> (height u p < height u b)%nat) -> (forall b, (1 <= height u b)%nat) ->
  forall s c, RInv u s ->
  RInv u (deliver u s c) /\
  (forall b, In b (r_merged (deliver u s c)) <-> (In b (r_merged s) \/ Sweep.Anc (parents u) c b)).
Proof. exact deliver_inv. Qed.
Print Assumptions C01_deliver_exact.

(* The order in which field deltas are applied is irrelevant (registers: lexicographic maximum of
   (height, bytes); counters: sums; delete marker: disjunction). *)
Theorem C01_order_irrelevant : forall u l1 l2 a, Permutation.Permutation l1 l2 ->
  vs_eq (fold_left (apply_block u) l1 a) (fold_left (apply_block u) l2 a).
Proof. exact blocks_perm. Qed.
Print Assumptions C01_order_irrelevant.

(* non-vacuity: a diamond below the frontier, heads at different heights, redelivery.
   blocks: 0 genesis; 1,2 children of 0; 3 child of 1 and 2; 4 child of 1 (longer branch) *)
Definition ex_u : universe :=
  [ mkB (-1) 1 [] [] (DStatus false); mkB (-1) 2 [0] [] (DStatus false); mkB (-1) 2 [0] [] (DStatus false);
    mkB (-1) 3 [1; 2] [] (DStatus false); mkB (-1) 3 [1] [] (DStatus false) ]%nat.
Example C01_nonvacuous :
  wfb ex_u = true /\
  r_merged (reach ex_u [ODeliver 4; ODeliver 3; ODeliver 1; ODeliver 3]%nat) = [0; 1; 4; 2; 3]%nat /\
  r_heads (reach ex_u [ODeliver 4; ODeliver 3; ODeliver 1; ODeliver 3]%nat) = [3; 4]%nat /\
  r_merged (reach ex_u [ODeliver 0; ODeliver 3; ODeliver 4]%nat) = [0; 1; 2; 3; 4]%nat.
Proof. vm_compute. repeat split. Qed.
