(* C20 - update events: every subscriber receives, in order and exactly once, the events published while it was
   subscribed, and only for changes that were committed. *)
From Coq Require Import List ZArith Arith Bool.
From Verif Require Import Txn EventBus EventBusProofs DbEvents.
Import ListNotations.

(* for every command sequence (subscribe / unsubscribe / publish in any interleaving, any number of subscribers and
   names) every subscriber holds exactly what it is due: the messages of its names published between its subscribe
   and its unsubscribe, once each, in publish order *)
Theorem C20_bus_delivery : forall cs i, received i (EventBus.run cs) = due_from i cs.
Proof. exact bus_delivery. Qed.
Print Assumptions C20_bus_delivery.

Theorem C20_in_publish_order : forall cs i, subseq (received i (EventBus.run cs)) (published cs).
Proof. exact delivery_in_publish_order. Qed.
Print Assumptions C20_in_publish_order.

Theorem C20_exactly_the_subscribed_names : forall pre i names cs,
  has_id i (EventBus.run pre) = false -> no_unsub i cs = true ->
  received i (EventBus.run (pre ++ CSub i names :: cs)) = filter (fun m => wants names (fst m)) (published cs).
Proof. exact exactly_the_subscribed_names. Qed.
Print Assumptions C20_exactly_the_subscribed_names.

(* database level: over every history of API calls with every fault schedule, what is announced is exactly the events
   of the committed calls in completion order, and that is what a subscriber of the update name receives *)
Theorem C20_only_committed : forall cs s, announced (snd (exec cs s)) = committed_events (snd (exec cs s)).
Proof. exact only_committed_announced. Qed.
Print Assumptions C20_only_committed.

Theorem C20_subscriber_sees_committed_in_order : forall cs s i names, wants names 1 = true ->
  received i (EventBus.run (CSub i names :: pubs (announced (snd (exec cs s))))) =
  map (fun e => (1, Z.to_nat e)) (committed_events (snd (exec cs s))).
Proof. exact subscriber_sees_committed_in_order. Qed.
Print Assumptions C20_subscriber_sees_committed_in_order.

(* non-vacuity: two subscribers, wildcard and named, an unsubscribe in the middle *)
Example C20_example :
  let cs := [CSub 0 [1]; CPub 1 10; CSub 1 [0]; CPub 2 11; CPub 1 12; CUnsub 0; CPub 1 13] in
  received 0 (EventBus.run cs) = [(1, 10); (1, 12)] /\ received 1 (EventBus.run cs) = [(2, 11); (1, 12); (1, 13)].
Proof. vm_compute. auto. Qed.
