(* C17 - index key encoding preserves value order and loses nothing.
   Property theorems only: statement, [exact] of the lemma that proves it, Print Assumptions.
   G_* are the functions GENERATED from internal/encoding/*.go by tools/gosyn on every run. *)
From Coq Require Import List ZArith.
From Verif Require Import GoSem GenEnc Bytes Varint VarintDec Float BytesEsc BytesEscProofs Composite.
Import ListNotations.
Open Scope Z_scope.

(* byte order of two keys whose next component is an int64 = order of the integers; equal
   integers defer to the rest of the key (this is what makes composite keys work) *)
Theorem C17_int_order_asc : forall a b r s, i64_range a -> i64_range b ->
  bcmp (G_EncodeVarintAscending [] a ++ r) (G_EncodeVarintAscending [] b ++ s)
  = match a ?= b with Eq => bcmp r s | c => c end.
Proof. exact G_varint_asc_order. Qed.
Print Assumptions C17_int_order_asc.

Theorem C17_int_order_desc : forall a b r s, i64_range a -> i64_range b ->
  bcmp (G_EncodeVarintDescending [] a ++ r) (G_EncodeVarintDescending [] b ++ s)
  = match b ?= a with Eq => bcmp r s | c => c end.
Proof. exact G_varint_desc_order. Qed.
Print Assumptions C17_int_order_desc.

Theorem C17_uint_order_asc : forall a b r s, u64_range a -> u64_range b ->
  bcmp (G_EncodeUvarintAscending [] a ++ r) (G_EncodeUvarintAscending [] b ++ s)
  = match a ?= b with Eq => bcmp r s | c => c end.
Proof. exact G_uvarint_asc_order. Qed.
Print Assumptions C17_uint_order_asc.

Theorem C17_uint_order_desc : forall a b r s, u64_range a -> u64_range b ->
  bcmp (G_EncodeUvarintDescending [] a ++ r) (G_EncodeUvarintDescending [] b ++ s)
  = match b ?= a with Eq => bcmp r s | c => c end.
Proof. exact G_uvarint_desc_order. Qed.
Print Assumptions C17_uint_order_desc.

Theorem C17_int_roundtrip_asc : forall v rest, i64_range v ->
  dec_va (G_EncodeVarintAscending [] v ++ rest) = Some (rest, v).
Proof. exact G_varint_asc_roundtrip. Qed.
Print Assumptions C17_int_roundtrip_asc.

Theorem C17_int_roundtrip_desc : forall v rest, i64_range v ->
  dec_vd (G_EncodeVarintDescending [] v ++ rest) = Some (rest, v).
Proof. exact G_varint_desc_roundtrip. Qed.
Print Assumptions C17_int_roundtrip_desc.

Theorem C17_uint_roundtrip_asc : forall v rest, u64_range v ->
  dec_uva (G_EncodeUvarintAscending [] v ++ rest) = Some (rest, v).
Proof. exact G_uvarint_asc_roundtrip. Qed.
Print Assumptions C17_uint_roundtrip_asc.

Theorem C17_uint_roundtrip_desc : forall v rest, u64_range v ->
  dec_uvd (G_EncodeUvarintDescending [] v ++ rest) = Some (rest, v).
Proof. exact G_uvarint_desc_roundtrip. Qed.
Print Assumptions C17_uint_roundtrip_desc.

(* float64 on IEEE bit patterns: NaN first, then numeric order with -0 = +0; reversed when descending *)
Theorem C17_float64_order_asc : forall a b r s, f64_range a -> f64_range b ->
  bcmp (G_EncodeFloat64Ascending [] a ++ r) (G_EncodeFloat64Ascending [] b ++ s)
  = match f64_okey a ?= f64_okey b with Eq => bcmp r s | c => c end.
Proof. exact G_float64_asc_order. Qed.
Print Assumptions C17_float64_order_asc.

Theorem C17_float64_order_desc : forall a b r s, f64_range a -> f64_range b ->
  bcmp (G_EncodeFloat64Descending [] a ++ r) (G_EncodeFloat64Descending [] b ++ s)
  = match f64_okey_d a ?= f64_okey_d b with Eq => bcmp r s | c => c end.
Proof. exact G_float64_desc_order. Qed.
Print Assumptions C17_float64_order_desc.

(* strings / blobs (escaped byte strings): the encodings compare like the byte strings themselves, the descending
   encoding reverses the order; the escape constants are taken from the generated file *)
Theorem C17_bytes_order_asc : forall a b, bytes a -> bytes b -> bcmp (enc_bytes_a a) (enc_bytes_a b) = bcmp a b.
Proof. exact enc_bytes_a_order. Qed.
Print Assumptions C17_bytes_order_asc.

Theorem C17_bytes_order_desc : forall a b, bytes a -> bytes b -> a <> b ->
  bcmp (enc_bytes_d a) (enc_bytes_d b) = CompOpp (bcmp a b).
Proof. exact enc_bytes_d_order. Qed.
Print Assumptions C17_bytes_order_desc.

(* no encoding of a byte string is a proper prefix of another one (needed for composite keys: the next field starts
   where the string ends) *)
Theorem C17_bytes_prefix_free : forall a b p, bytes a -> bytes b -> body_t a = body_t b ++ p -> a = b.
Proof. exact body_prefix_free. Qed.
Print Assumptions C17_bytes_prefix_free.

(* composite keys "/" f1 "/" f2 ... over integer and string components (ascending): byte order of the keys is the
   lexicographic order of the tuples, for tuples of any length; the bytes after the key (document id) break ties *)
Theorem C17_composite_key_order : forall a b r s, same_shape a b -> Forall kdom a -> Forall kdom b ->
  bcmp (key_of a ++ r) (key_of b ++ s) = match lexcmp a b with Eq => bcmp r s | c => c end.
Proof. exact composite_key_order. Qed.
Print Assumptions C17_composite_key_order.

(* date-times: byte order = order on (seconds, nanoseconds); booleans: false < true *)
Theorem C17_time_order : forall s1 n1 s2 n2 r t,
  i64_range s1 -> i64_range n1 -> i64_range s2 -> i64_range n2 ->
  bcmp (G_encodeTime [] s1 n1 ++ r) (G_encodeTime [] s2 n2 ++ t)
  = match time_cmp (s1, n1) (s2, n2) with Eq => bcmp r t | c => c end.
Proof. exact encodeTime_order. Qed.
Print Assumptions C17_time_order.

Theorem C17_bool_order : forall a b r s,
  bcmp (G_EncodeBoolAscending [] a ++ r) (G_EncodeBoolAscending [] b ++ s)
  = match Bool.compare a b with Eq => bcmp r s | c => c end.
Proof. exact bool_order. Qed.
Print Assumptions C17_bool_order.

(* non-vacuity: the premises hold for extreme values and the statements compute on them *)
Example C17_nonvacuous :
  i64_range (-9223372036854775808) /\ i64_range 9223372036854775807 /\
  bcmp (G_EncodeVarintAscending [] (-9223372036854775808)) (G_EncodeVarintAscending [] (-256)) = Lt /\
  dec_va (G_EncodeVarintAscending [] (-256) ++ [47]) = Some ([47], -256) /\
  bcmp (G_EncodeFloat64Ascending [] 9223372036854775808) (G_EncodeFloat64Ascending [] 0) = Eq.
Proof. unfold i64_range. repeat split; try reflexivity; vm_compute; congruence. Qed.
