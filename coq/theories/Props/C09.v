(* C09 - relations read the same from both sides. *)
From Coq Require Import List ZArith.
From Coq Require Import Permutation.
From Verif Require Import Bytes Sem Index Join JoinAgg.
Import ListNotations.

Theorem C09_membership : forall ls p c, In c (children ls p) <-> In (c, Some p) ls.
Proof. exact membership. Qed.
Print Assumptions C09_membership.

Theorem C09_direction_independent : forall ps ls p c,
  In (p, c) (pairs_from_parent ps ls) <-> (In p ps /\ In (p, c) (pairs_from_child ls)).
Proof. exact direction_independent. Qed.
Print Assumptions C09_direction_independent.

(* filters that reach through the relation: both directions are views of the same pair set *)
Theorem C09_filter_through_relation : forall P Q ps ls,
  (forall p, In p (parents_with P ps ls) <-> In p ps /\ exists c, In (p, c) (pairs_from_child ls) /\ P c = true) /\
  (forall c, In c (children_with Q ls) <-> exists p, In (c, Some p) ls /\ Q p = true).
Proof. intros P Q ps ls. split; [intros p; apply parents_with_spec | intros c; apply children_with_spec]. Qed.
Print Assumptions C09_filter_through_relation.

(* ordering through the relation: the sorted listing keeps every child (those without a parent included, first
   ascending and last descending), and any plan whose listing is complete and ordered - from whichever side it starts,
   with or without an index - shows the same sequence of sort keys *)
Theorem C09_order_through_relation : forall desc key ls,
  Permutation (order_children desc key ls) ls /\ ordered desc key (order_children desc key ls) /\
  (forall l, Permutation l ls -> ordered desc key l -> map (ck key) l = map (ck key) (order_children desc key ls)).
Proof.
  intros desc key ls. split; [apply order_children_complete|]. split; [apply order_children_ordered|].
  intros l. apply any_plan_agrees_with_sort.
Qed.
Print Assumptions C09_order_through_relation.

(* aggregates through the relation: the parent side aggregates over exactly the children the child side selects by
   "parent = p"; summed over the parents they give the aggregate over the children linked to one of them *)
Theorem C09_aggregates_through_relation : forall w ps ls,
  (forall (agg : list nat -> Z) p, agg (children ls p) = agg (children_with (fun q => Nat.eqb q p) ls)) /\
  (NoDup ps -> total (fun p => wsum w (children ls p)) ps = wsum w (map fst (filter (linked_in ps) ls))).
Proof.
  intros w ps ls. split; [intros agg p; apply aggregates_direction_independent | apply totals_agree].
Qed.
Print Assumptions C09_aggregates_through_relation.

(* local writes never leave a one-to-one link held by two documents *)
Theorem C09_one_to_one_unique : forall ops, one_to_one_ok (fold_left (fun s o => fst (ustep s o)) ops []).
Proof. exact one_to_one_unique. Qed.
Print Assumptions C09_one_to_one_unique.

Example C09_nonvacuous :
  let ls := [(0, Some 1); (1, None); (2, Some 1); (3, Some 0)]%nat in
  children ls 1 = [0; 2]%nat /\ pairs_from_child ls = [(1, 0); (1, 2); (0, 3)]%nat /\
  pairs_from_parent [0; 1]%nat ls = [(0, 3); (1, 0); (1, 2)]%nat.
Proof. vm_compute. repeat split. Qed.
