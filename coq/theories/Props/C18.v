(* C18 - export followed by import reproduces the data (identifier level: ids are content hashes, modelled as terms). *)
From Coq Require Import List ZArith Arith Bool.
From Verif Require Import Backup BackupProofs.
From Verif Require Defaults.
Import ListNotations.

(* the document import creates from an exported entry has the announced id, the source's collection and current
   values, and as many foreign keys *)
Theorem C18_import_matches_announced : forall fuel d i e,
  export_doc fuel d i = Some e ->
  let '(id, c, v, fks) := import_entry e in
  id = e_new e /\ newid fuel d i = Some id /\
  (exists x, nth_error d i = Some x /\ c = d_col x /\ v = d_vals x /\ length fks = length (d_fks x)).
Proof. exact import_matches_announced. Qed.
Print Assumptions C18_import_matches_announced.

(* every relation of the source holds between the images: the k-th foreign key written for document i is the id
   announced for (and given by import to) the document it referenced, for reference chains of any depth *)
Theorem C18_relations_follow_mapping : forall f d i x c v fks k j,
  nth_error d i = Some x -> newid (S f) d i = Some (Hid c v fks) ->
  nth_error (d_fks x) k = Some (Some j) ->
  exists t, nth_error fks k = Some (Some t) /\ newid f d j = Some t.
Proof. exact relations_follow_mapping. Qed.
Print Assumptions C18_relations_follow_mapping.

(* exporting the imported database announces no further change: a second export / import is the identity on ids *)
Theorem C18_reexport_stable : forall fuel d d',
  same_content d d' ->
  (forall i y, nth_error d' i = Some y -> newid fuel d i = Some (d_id y)) ->
  consistent fuel d'.
Proof. exact reexport_stable. Qed.
Print Assumptions C18_reexport_stable.

(* the pinned export rewrites foreign keys one level deep only; on a chain c -> b -> a with a updated it writes into c
   an id that b will not have after import (recorded finding) *)
Lemma C18_one_level_refuted :
  let a := {| d_col := 0; d_id := Hid 0 [1%Z] []; d_vals := [2%Z]; d_fks := [] |} in
  let b := {| d_col := 0; d_id := Hid 0 [10%Z] [Some (Hid 0 [1%Z] [])]; d_vals := [10%Z]; d_fks := [Some 0] |} in
  let c := {| d_col := 0; d_id := Hid 0 [20%Z] [Some (d_id b)]; d_vals := [20%Z]; d_fks := [Some 1] |} in
  let d := [a; b; c] in
  exists tb tc1 fk, newid 5 d 1 = Some tb /\ newid_one_level d 2 = Some tc1 /\ tc1 = Hid 0 [20%Z] [Some fk] /\ fk <> tb.
Proof. exact one_level_refuted. Qed.

(* values: nulls and default values. Creating from an input applies a field's default only where the input does not
   mention the field; the export writes an explicit null for a null field that has a default, so the import re-creates
   the stored document exactly (an export that leaves nulls out turns them into the default: pinned_export_refuted,
   finding F56) *)
Theorem C18_nulls_and_defaults_roundtrip : forall sch doc, length doc = length sch ->
  Defaults.create sch (Defaults.export_fixed sch doc) = doc.
Proof. exact Defaults.export_import_roundtrip. Qed.
Print Assumptions C18_nulls_and_defaults_roundtrip.
