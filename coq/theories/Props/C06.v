(* C06 - explicit transactions are isolated: snapshot reads, no lost updates.
   Over the MVCC model of Kv/Mvcc.v (validated against the real node on every generated schedule, including every
   commit outcome), for every interleaving of any number of transactions. *)
From Coq Require Import List ZArith.
From Verif Require Import Mvcc MvccProofs.
From Verif Require SideStore.
Import ListNotations.

(* Between its begin and its commit, everything a transaction sees depends only on its own operations: two
   interleavings that agree on its own operations give it the same state, whatever the others do or commit. *)
Theorem C06_snapshot_isolation : forall t s ops1 ops2, quiet t ops1 -> quiet t ops2 ->
  filter (mine t) ops1 = filter (mine t) ops2 ->
  gettx (run s ops1) t = gettx (run s ops2) t.
Proof. exact snapshot_isolation. Qed.
Print Assumptions C06_snapshot_isolation.

(* a read returns the transaction's view: own writes over the committed state as of its begin *)
Theorem C06_snapshot_reads : forall t s ops d r, quiet t ops ->
  let s' := run (step s (TBegin t)) ops in
  snd (mstep s' (TRead t d r)) = PVal (tview (gettx s' t) d) /\ t_snap (gettx s' t) = m_cur s.
Proof. intros t s ops d r Hq. split; [reflexivity | apply snapshot_is_begin_state; exact Hq]. Qed.
Print Assumptions C06_snapshot_reads.

(* a listing of the collection inside a transaction shows exactly the documents that exist in its view (its own
   uncommitted creates included, documents committed by others since its begin excluded), changes nothing, and depends
   on the transaction's own operations only *)
Theorem C06_listing_is_view : forall s t obs,
  snd (mstep s (TList t obs)) = PList (view_docs (gettx s t)) /\
  (forall d, In d (view_docs (gettx s t)) <-> is_some (tview (gettx s t) d) = true) /\
  fst (mstep s (TList t obs)) = s.
Proof. exact list_is_view. Qed.
Print Assumptions C06_listing_is_view.

Theorem C06_listing_isolated : forall t s ops1 ops2 obs, quiet t ops1 -> quiet t ops2 ->
  filter (mine t) ops1 = filter (mine t) ops2 ->
  snd (mstep (run s ops1) (TList t obs)) = snd (mstep (run s ops2) (TList t obs)).
Proof. exact listing_isolated. Qed.
Print Assumptions C06_listing_isolated.

(* the committed state (what every other transaction's new snapshot and every non-transactional call sees)
   changes only at a successful commit, and then by the whole write set at once *)
Theorem C06_atomic_visibility : forall s o,
  m_cur (step s o) = m_cur s \/
  (exists t ok, o = TCommit t ok /\ snd (mstep s o) = POk true /\ m_cur (step s o) = t_writes (gettx s t) ++ m_cur s).
Proof. exact visibility_step. Qed.
Print Assumptions C06_atomic_visibility.

(* of two overlapping transactions that both wrote document d at most one commits *)
Theorem C06_no_lost_update : forall s t1 t2 d ok1 ops ok2,
  ver_inv s -> t1 <> t2 ->
  In d (map fst (t_writes (gettx s t1))) -> In d (map fst (t_writes (gettx s t2))) ->
  t_start (gettx s t2) <= m_clock s ->
  snd (mstep s (TCommit t1 ok1)) = POk true ->
  quiet t2 ops ->
  snd (mstep (run (step s (TCommit t1 ok1)) ops) (TCommit t2 ok2)) = POk false.
Proof. exact no_lost_update. Qed.
Print Assumptions C06_no_lost_update.

(* a discarded transaction leaves no trace and can never commit *)
Theorem C06_discard_no_trace : forall s t ops ok, quiet t ops ->
  m_cur (step s (TDiscard t)) = m_cur s /\
  snd (mstep (run (step s (TDiscard t)) ops) (TCommit t ok)) = POk false.
Proof. intros s t ops ok Hq. split; [reflexivity | apply discarded_never_commits; exact Hq]. Qed.
Print Assumptions C06_discard_no_trace.

(* non-vacuity: T0 and T1 both update document 0, T0 commits, T1's commit is refused and the value is T0's *)
Example C06_nonvacuous :
  let s := mrun [(0, Some 5%Z)] [TBegin 0; TBegin 1; TWrite 0 0 10 true; TWrite 1 0 20 true; TCommit 0 true] in
  snd (mstep s (TCommit 1 true)) = POk false /\ dget 0 (m_cur s) = Some 10%Z /\
  snd (mstep s (TRead 1 0 None)) = PVal (Some 20%Z).
Proof. vm_compute. repeat split. Qed.

(* "a discarded transaction leaves no trace" fails for a store that is written outside the transaction: the pinned
   create registers the document with the access-control engine at once, so after a discard the same document can
   never be created again (finding F62, witness in the transaction engine); deferring the registration to the commit
   restores the statement *)
Theorem C06_eager_side_store_refuted : forall w d, SideStore.mem d (SideStore.registered w) = false ->
  let '(w1, t1, ok1) := SideStore.create true w SideStore.empty d in
  ok1 = true /\ SideStore.mem d (SideStore.docs (SideStore.discard w1 t1)) = SideStore.mem d (SideStore.docs w) /\
  SideStore.discard w1 t1 <> w /\ snd (SideStore.create true (SideStore.discard w1 t1) SideStore.empty d) = false.
Proof. exact SideStore.eager_registration_refuted. Qed.
Print Assumptions C06_eager_side_store_refuted.

Theorem C06_deferred_side_store_no_trace : forall w d, SideStore.mem d (SideStore.registered w) = false ->
  let '(w1, t1, ok1) := SideStore.create false w SideStore.empty d in
  ok1 = true /\ SideStore.discard w1 t1 = w /\ snd (SideStore.create false (SideStore.discard w1 t1) SideStore.empty d) = true.
Proof. exact SideStore.deferred_registration_discard_no_trace. Qed.
Print Assumptions C06_deferred_side_store_no_trace.
