(* C13 - document, schema and collection identifiers are pure functions of content. *)
From Coq Require Import List ZArith Arith Bool Permutation.
From Verif Require Import DocId DocIdProofs SchemaSets StripProofs.
Import ListNotations.

(* the document id is a function (hash_entries, abstract) of the canonical entry sequence and the schema root; that
   sequence does not depend on the order in which the fields were supplied ... *)
Theorem C13_docid_permutation : forall (V : Type) (is_nil : V -> bool) (B : Type) (hash_entries : list (key * V) -> list Z -> B)
  root (l1 l2 : list (key * V)),
  Permutation l1 l2 -> NoDup (map fst l1) -> docid is_nil hash_entries root l1 = docid is_nil hash_entries root l2.
Proof. exact docid_permutation. Qed.
Print Assumptions C13_docid_permutation.

(* ... nor on whether a nil field is spelt out or omitted *)
Theorem C13_docid_nil_omitted : forall (V : Type) (is_nil : V -> bool) (B : Type) (hash_entries : list (key * V) -> list Z -> B)
  root (l1 l2 : list (key * V)) k v,
  is_nil v = true -> docid is_nil hash_entries root (l1 ++ (k, v) :: l2) = docid is_nil hash_entries root (l1 ++ l2).
Proof. exact docid_nil_omitted. Qed.
Print Assumptions C13_docid_nil_omitted.

(* schema sets: the stripping loop of getSchemaSets ranges over a Go map; for every initial map and any two visiting
   orders, if both executions stopped (a pass without change) they hold the same map - including the effect of the
   coded copy(relations, old[:i-1]), which blanks the entry before the removed one *)
Theorem C13_strip_order_free : forall M0 vs1 vs2,
  stable (fold_left visit vs1 M0) -> stable (fold_left visit vs2 M0) ->
  forall s, get (fold_left visit vs1 M0) s = get (fold_left visit vs2 M0) s.
Proof. exact strip_confluent. Qed.
Print Assumptions C13_strip_order_free.

(* non-vacuity: a map on which the visiting order matters for the intermediate states; both orders stop and agree *)
Example C13_strip_example :
  let M0 := [(0, [Some 1; Some 5]); (1, [Some 0; Some 2]); (2, [Some 3]); (3, [Some 2])] in
  let a := fold_left visit [0; 0; 1; 2; 3; 0; 1] M0 in
  let b := fold_left visit [3; 2; 1; 0; 1; 0; 0; 1] M0 in
  (forall s, s < 6 -> get a s = get b s) /\ get a 2 = Some [Some 3] /\ get a 0 = None.
Proof.
  cbv zeta. split; [|vm_compute; auto].
  intros s Hs. do 6 (destruct s as [|s]; [vm_compute; reflexivity|]). exfalso. apply (Nat.nlt_0_r s). do 6 apply Nat.succ_lt_mono in Hs. exact Hs.
Qed.
