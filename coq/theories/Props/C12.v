(* C12 - commit signatures authenticate content and author; forged commits are not merged. *)
From Coq Require Import List Arith Bool.
From Verif Require Import Sign SignProofs.
From Verif Require PushLog.
Import ListNotations.

Theorem C12_signed_verifies : forall ktype st k body l,
  verify_with_key (with_sig st l (sign_block ktype k body)) {| b_body := body; b_sig := Some l |} k = Some true /\
  verify_self ktype (with_sig st l (sign_block ktype k body)) {| b_body := body; b_sig := Some l |} = Some true.
Proof. exact signed_verifies. Qed.
Print Assumptions C12_signed_verifies.

Theorem C12_wrong_key_fails : forall ktype st k k' body l, k' <> k ->
  verify_with_key (with_sig st l (sign_block ktype k body)) {| b_body := body; b_sig := Some l |} k' = Some false.
Proof. exact wrong_key_fails. Qed.
Print Assumptions C12_wrong_key_fails.

Theorem C12_tamper_detected : forall ktype st k body body' l pk, body' <> body ->
  verify_with_key (with_sig st l (sign_block ktype k body)) {| b_body := body'; b_sig := Some l |} pk = Some false /\
  verify_self ktype (with_sig st l (sign_block ktype k body)) {| b_body := body'; b_sig := Some l |} = Some false.
Proof. exact tamper_detected. Qed.
Print Assumptions C12_tamper_detected.

Theorem C12_signature_block_tamper_detected : forall ktype st body l (sb : sigblock),
  (fst (s_value sb) <> s_identity sb \/ snd (s_value sb) <> body \/ s_type sb <> ktype (s_identity sb)) ->
  verify_self ktype (with_sig st l sb) {| b_body := body; b_sig := Some l |} = Some false.
Proof. exact signature_block_tamper_detected. Qed.
Print Assumptions C12_signature_block_tamper_detected.

Theorem C12_forged_not_merged : forall ktype (D : Type) merge st (s : rstate D) c b,
  verify_self ktype st b = Some false ->
  let '(s', ok) := receive ktype D merge st s c b in
  ok = false /\ r_docs s' = r_docs s /\ r_heads s' = r_heads s /\
  (forall c', c' <> c -> In c' (map fst (r_blocks s')) <-> In c' (map fst (r_blocks s))).
Proof. exact forged_not_merged. Qed.
Print Assumptions C12_forged_not_merged.

(* the push-log handler: with the identifier named by a request checked against the block it carries, the block handed
   to the merge is the one that was verified - whatever refused blocks the store holds; the pinned handler (no check)
   hands a refused block to the merge when a request names it and carries any verifiable block *)
Theorem C12_pushlog_merges_the_verified_block : forall ktype (cid_of : block -> nat) (D : Type) st (s : rstate D) named b,
  match PushLog.handle ktype cid_of D true st s named b with
  | Some (c, hb) => c = cid_of b /\ hb = Some b /\ verify_self ktype st b <> Some false
  | None => True
  end.
Proof.
  intros ktype cid_of D st s named b.
  pose proof (PushLog.checked_handler_merges_the_verified_block ktype cid_of D (fun d h _ _ => (d, h)) st s named b) as H.
  destruct (PushLog.handle ktype cid_of D true st s named b) as [[c hb]|]; auto.
Qed.
Print Assumptions C12_pushlog_merges_the_verified_block.

Theorem C12_pushlog_without_check_refuted : forall ktype (cid_of : block -> nat) (D : Type) st (s : rstate D) b f,
  verify_self ktype st f = Some false -> verify_self ktype st b <> Some false ->
  cid_of f <> cid_of b -> PushLog.find_block (cid_of f) (r_blocks s) = Some f ->
  PushLog.handle ktype cid_of D false st s (cid_of f) b = Some (cid_of f, Some f).
Proof. intros. now apply PushLog.unchecked_handler_refuted. Qed.
Print Assumptions C12_pushlog_without_check_refuted.
