(* C16 - concurrent use of one node loses no committed effect (the logic part; data races and panics are runtime
   behaviour that only the race detector on the real code can exhibit). *)
From Coq Require Import List ZArith Arith Bool.
From Verif Require Import Concurrent.
From Verif Require IndexRace.
Import ListNotations.
Open Scope Z_scope.

(* for every interleaving of begin / commit events of any number of read-modify-write attempts on a document, the
   final value is the initial value plus the deltas of exactly the attempts that reported success *)
Theorem C16_no_committed_effect_lost : forall v0 es,
  value (st (run (start v0) es)) = v0 + sum_ok (ok (run (start v0) es)).
Proof. exact no_committed_effect_lost. Qed.
Print Assumptions C16_no_committed_effect_lost.

(* an attempt that reports a conflict has no effect *)
Theorem C16_conflict_has_no_effect : forall s a d v ver,
  snap_of (sn s) a = Some (v, ver) -> ver <> version (st s) -> st (step s (Commit a d)) = st s.
Proof. exact conflict_has_no_effect. Qed.
Print Assumptions C16_conflict_has_no_effect.

(* index creation against concurrent creates: as snapshot transactions with a conflict check on read keys both commit
   and the document created in between has no index entry - the full statement ("every call that reported success has
   its effect in the final state") is false of the faithful model; the witness replayed on the real node is the
   recorded finding F61 *)
Theorem C16_index_build_race_refuted :
  let s := fst (IndexRace.run [IndexRace.BeginBuild; IndexRace.BeginCreate 1; IndexRace.CommitCreate 1; IndexRace.CommitBuild]) in
  IndexRace.indexed s = true /\ In 1%nat (IndexRace.docs s) /\ ~ In 1%nat (IndexRace.entries s).
Proof. exact IndexRace.index_build_race_refuted. Qed.
Print Assumptions C16_index_build_race_refuted.
