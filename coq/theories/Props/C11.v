(* C11 - encrypted fields never leave the node in clear. *)
From Coq Require Import List Arith Bool.
From Verif Require Import Encrypt EncryptProofs.
Import ListNotations.

(* document-level encryption: for every creating write and every history of later updates (any fields, including
   fields that did not exist at creation), every field block stored in the shared block store - which is also what
   the update notification carries - holds ciphertext under the document key *)
Theorem C11_doc_level_all_cipher : forall (V : Type) c (create : list (nat * V)) us, doc_enc c = true ->
  Forall (fun b => is_cipher b = true /\ b_enc b = Some KDoc) (history c create us).
Proof. exact doc_level_all_cipher. Qed.
Print Assumptions C11_doc_level_all_cipher.

(* field-level encryption: a listed field written by the creating write is ciphertext then and in every later update *)
Theorem C11_listed_field_stays_cipher : forall (V : Type) c (create : list (nat * V)) us f,
  doc_enc c = false -> memb f (enc_fields c) = true -> In f (map fst create) ->
  Forall (fun b => b_field b = f -> is_cipher b = true) (history c create us).
Proof. exact listed_field_written_at_creation_stays_cipher. Qed.
Print Assumptions C11_listed_field_stays_cipher.

(* ... also when peers without the key write the field in between (their plaintext blocks become further heads; the
   key holder scans all heads for the key to inherit) *)
Theorem C11_listed_field_stays_cipher_mixed : forall (V : Type) c (create : list (nat * V)) us f,
  doc_enc c = false -> memb f (enc_fields c) = true -> In f (map fst create) ->
  Forall (fun b => b_field b = f -> is_cipher b = true) (history_mixed c create us).
Proof. exact listed_field_stays_cipher_mixed. Qed.
Print Assumptions C11_listed_field_stays_cipher_mixed.

(* the full statement ("every later update of those fields") fails for a listed field that is absent at creation:
   recorded finding *)
Lemma C11_listed_field_absent_at_creation_refuted :
  let c := {| doc_enc := false; enc_fields := [0; 1] |} in
  map is_cipher (history c [(0, tt)] [[(1, tt)]]) = [true; false].
Proof. exact listed_field_absent_at_creation_refuted. Qed.

Lemma C11_legacy_doc_level_refuted : determine_legacy None 1 [] = None /\ determine None 1 [] [Some KDoc] = Some KDoc.
Proof. exact legacy_doc_level_refuted. Qed.
