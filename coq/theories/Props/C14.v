(* C14 - a node restarted on its store is indistinguishable from one that never stopped. *)
From Coq Require Import List Arith Bool.
From Verif Require Import Restart.
From Verif Require Routing Replicate ReplicateProofs ReplicateRetry.
Import ListNotations.

(* For every history of operations, queries and restarts placed anywhere: the restarted node produces exactly the
   outputs (and ends in exactly the state) of the twin that executes the history without the restarts - provided
   every operation maintains the caches as a fresh load would build them (op_coherent: the obligation on the code,
   evaluated on real nodes after every operation by the correspondence run). *)
Theorem C14_restart_bisimulation :
  forall (store cache op query result : Type) (load : store -> cache) (apply_store : op -> store -> store)
         (apply_cache : op -> store -> cache -> cache) (answer : store -> cache -> query -> result),
  (forall o s, apply_cache o s (load s) = load (apply_store o s)) ->
  forall es n, coherent store cache load n ->
  run store cache op query result load apply_store apply_cache answer n es =
  run store cache op query result load apply_store apply_cache answer n (strip op query es).
Proof. exact restart_bisimulation. Qed.
Print Assumptions C14_restart_bisimulation.

(* opening the store contents as of any completed commit gives the node the twin was at that point, for every
   continuation *)
Theorem C14_open_at_any_commit :
  forall (store cache op query result : Type) (load : store -> cache) (apply_store : op -> store -> store)
         (apply_cache : op -> store -> cache -> cache) (answer : store -> cache -> query -> result),
  (forall o s, apply_cache o s (load s) = load (apply_store o s)) ->
  forall es1 es2 s0,
    let n1 := fst (run store cache op query result load apply_store apply_cache answer (open store cache load s0) es1) in
    run store cache op query result load apply_store apply_cache answer (open store cache load (n_store store cache n1)) es2 =
    run store cache op query result load apply_store apply_cache answer n1 es2.
Proof. exact open_at_any_commit. Qed.
Print Assumptions C14_open_at_any_commit.

(* identifier sequences are read from the store on every use: no id is issued twice, whatever the reopen points *)
Theorem C14_seq_never_reused : forall s es, NoDup (seq_run s es).
Proof. exact seq_never_reused. Qed.
Print Assumptions C14_seq_never_reused.

Example C14_seq_example : seq_run 3 [Issue; Reopen; Issue; Issue; Reopen; Reopen; Issue] = [4; 5; 6; 7].
Proof. reflexivity. Qed.

(* peer configuration: after every history of SetReplicator / DeleteReplicator calls and restarts the routing table in
   memory routes a peer exactly the collections persisted for it; the table rebuilt at start takes the same routing
   decisions as the one maintained in place (the coherence hypothesis above, proved for this component) *)
Theorem C14_replicator_routing_survives_restart : forall ops c p,
  Routing.coherent (Routing.crun ops) /\
  Routing.routes (Routing.tab (Routing.cstep (Routing.crun ops) Routing.Restart)) c p =
    Routing.routes (Routing.tab (Routing.crun ops)) c p /\
  (Routing.routes (Routing.tab (Routing.crun ops)) c p = true <-> In c (Routing.lookup p (Routing.cfg (Routing.crun ops)))).
Proof.
  intros ops c p. split; [apply Routing.routing_coherent|].
  split; [apply Routing.restart_keeps_routing | apply Routing.routed_iff_configured].
Qed.
Print Assumptions C14_replicator_routing_survives_restart.

(* a retry round interrupted by a restart: with the marks cleared at start the documents pending for a replicator
   are still delivered once it is reachable; with the mark left in the store (the pinned behaviour) they never are *)
Theorem C14_interrupted_retry_round : forall es,
  ReplicateRetry.delivered (ReplicateRetry.base (ReplicateRetry.rrun true ReplicateRetry.rinit
    (es ++ [ReplicateRetry.RUp; ReplicateRetry.RTickBegin; ReplicateRetry.RTickEnd]))).
Proof. exact ReplicateRetry.eventually_delivered_interruptible. Qed.
Print Assumptions C14_interrupted_retry_round.
