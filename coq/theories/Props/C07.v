(* C07 - secondary indexes never change what a query returns; unique indexes are enforced. *)
From Coq Require Import List ZArith Permutation.
From Verif Require Import Bytes Sem SemProofs Index IndexMaint.
Import ListNotations.

(* the index entries let through for a condition never lose a value that satisfies the condition *)
Theorem C07_candidates_complete : forall c v, eval_cond c v = true -> cand_cond c v = true.
Proof. exact cand_complete. Qed.
Print Assumptions C07_candidates_complete.

(* an index-backed plan for a conjunct of the filter returns the same multiset of documents as the scan *)
Theorem C07_index_transparent : forall (I : Type) f c rest (docs : list (I * doc)), NoDup docs ->
  Permutation (index_plan f c rest docs) (sel (FAnd (FField f c :: rest)) docs).
Proof. intros I. exact (@index_transparent I). Qed.
Print Assumptions C07_index_transparent.

(* more generally: re-applying the filter to ANY complete duplicate-free candidate set gives the scan result *)
Theorem C07_refilter : forall (I : Type) (docs cands : list (I * doc)) g,
  NoDup docs -> NoDup cands -> (forall x, In x cands -> In x docs) ->
  (forall x, In x docs -> eval_filter g (snd x) = true -> In x cands) ->
  Permutation (sel g cands) (sel g docs).
Proof. intros I. exact (@refilter_superset I). Qed.
Print Assumptions C07_refilter.

(* the hypothesis "conjunct" matters: driving the index from a branch of an _or loses documents (repaired F34) *)
Example C07_index_under_or_refuted :
  let docs := [(0%nat, [VInt 1; VStr [97%Z]]); (1%nat, [VInt 2; VStr [98%Z]])] in
  let g := FOr [FField 0 (CCmp OEq (VInt 1)); FField 1 (CCmp OEq (VStr [98%Z]))] in
  map fst (sel g (filter (fun x => cand_cond (CCmp OEq (VInt 1)) (field (snd x) 0)) docs)) = [0%nat] /\
  map fst (sel g docs) = [0%nat; 1%nat].
Proof. exact index_under_or_refuted. Qed.

(* unique index: after any history of local writes no two live documents share a non-null indexed value,
   and a write is rejected exactly when it would create such a pair *)
Theorem C07_unique_enforced : forall ops, unique_ok (fold_left (fun s o => fst (ustep s o)) ops []).
Proof. exact unique_enforced. Qed.
Print Assumptions C07_unique_enforced.

Theorem C07_unique_rejects_exactly : forall s id v,
  snd (ustep s (UPut id v)) = false <->
  (is_null v = false /\ exists j w, In (j, w) s /\ j <> id /\ veq w v = true).
Proof. exact unique_rejects_exactly. Qed.
Print Assumptions C07_unique_rejects_exactly.

(* index maintenance, for every history of creates, updates, deletes (by id or by filter) and index creations /
   removals before or after the data: the entries of the index are exactly the live documents with their current
   values - so a lookup through the index returns what the scan returns, and a deleted document leaves nothing behind *)
Theorem C07_index_maintained : forall (V : Type) (ops : list (mop V)),
  Inv V (run V ops) /\
  (forall P, indexed V (run V ops) = true -> lookup_index V P (run V ops) = lookup_scan V P (run V ops)) /\
  (forall id, ~ In id (map fst (entries V (mstep V (run V ops) (MDelete V id))))) /\
  (forall P e, In e (entries V (mstep V (run V ops) (MDeleteWhere V P))) -> P (snd e) = false).
Proof.
  intros V ops. split; [apply maintained|]. split; [intros P; apply index_lookup_is_scan|].
  split; [apply deleted_leaves_no_entry | apply deleted_by_filter_leaves_no_entry].
Qed.
Print Assumptions C07_index_maintained.
