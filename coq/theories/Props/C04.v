(* C04 - the commit graph is a well-formed Merkle DAG (the part that is logic: closure and heads).
   Content addressing (block filed under the hash of its bytes), heights of newly written blocks and
   genesis determinism are checked on the implementation by the harness (hash recomputed with SHA-256). *)
From Coq Require Import List ZArith.
From Verif Require Import GoSem Bytes Model Sweep Order Conv Exact.
From Verif Require Sem HeadKeys.
Import ListNotations.

(* at all times the heads are exactly the merged commits that no merged commit names as parent *)
Theorem C04_heads_maximal : forall u ops b, wfb u = true ->
  In b (r_heads (reach u ops)) <->
  (In b (r_merged (reach u ops)) /\ forall x, In x (r_merged (reach u ops)) -> ~ In b (parents u x)).
Proof. exact heads_maximal. Qed.
Print Assumptions C04_heads_maximal.

(* the merged graph is closed under ancestry *)
Theorem C04_closed : forall u ops b p, wfb u = true ->
  In b (r_merged (reach u ops)) -> In p (parents u b) -> In p (r_merged (reach u ops)).
Proof. exact merged_closed. Qed.
Print Assumptions C04_closed.

(* the merge walk visits exactly the unmerged ancestors, each once, parents before children *)
Theorem C04_walk_exact : forall hgt par, (forall b p, In p (par b) -> (hgt p < hgt b)%nat) -> (forall b, (1 <= hgt b)%nat) ->
  forall heads c H, (forall b, In b heads -> (hgt b <= H)%nat) -> (hgt c <= H)%nat ->
  (forall b, In b (sweep hgt par H [c] heads []) <-> (Sweep.Anc par c b /\ ~ Sweep.Merged par heads b)) /\
  NoDup (sweep hgt par H [c] heads []) /\ Sorted.StronglySorted (Sweep.hle hgt) (sweep hgt par H [c] heads []).
Proof.
  intros hgt par wf hpos heads c H Hh Hc. split; [|exact (Sweep.sweep_init_nodup_sorted hgt par wf heads c H Hh Hc)].
  exact (Sweep.sweep_init hgt par wf hpos heads c H Hh Hc).
Qed.
Print Assumptions C04_walk_exact.

(* field-level heads: the head set of a field is listed by a key prefix; with the closing separator the listing returns
   exactly the keys of that field, for all identifiers (the bare prefix of the pinned code also returned the heads of
   every field whose identifier starts with the same digits - bare_listing_refuted, finding F57) *)
Theorem C04_field_head_listing_exact : forall doc f f' c, ~ In HeadKeys.sep f -> ~ In HeadKeys.sep f' ->
  (Sem.is_prefix (HeadKeys.list_prefix doc f) (HeadKeys.head_key doc f' c) = true <-> f = f').
Proof. exact HeadKeys.listing_exact. Qed.
Print Assumptions C04_field_head_listing_exact.
