(* C10 - documents you may not read are invisible through every query path. *)
From Coq Require Import List ZArith.
From Verif Require Import Bytes Sem Index Acp.
Import ListNotations.

(* for every plan built from checked sources (scan, index scan; filter, order, limit/offset above them), every
   requester and every database: the result is the result on the database without the unreadable documents *)
Theorem C10_noninterference : forall can d p, eval can d p = eval everyone (readable can d) p.
Proof. exact noninterference. Qed.
Print Assumptions C10_noninterference.

Theorem C10_indistinguishable : forall can d1 d2 p,
  readable can d1 = readable can d2 -> eval can d1 p = eval can d2 p.
Proof. exact indistinguishable. Qed.
Print Assumptions C10_indistinguishable.

(* update / delete by a requester lacking the permission change nothing *)
Theorem C10_writes_guarded : forall r a i f d, holds r a i = false ->
  guarded_update r a i f d = d /\ guarded_delete r a i d = d.
Proof. exact writes_guarded. Qed.
Print Assumptions C10_writes_guarded.

(* granting or revoking a relationship changes the outcome from the next request on, for that actor and document only *)
Theorem C10_grant_revoke_immediate : forall r a i,
  holds (grant r a i) a i = true /\ holds (revoke r a i) a i = false /\
  (forall b j, (b, j) <> (a, i) -> holds (grant r a i) b j = holds r b j /\ holds (revoke r a i) b j = holds r b j).
Proof. exact grant_revoke_immediate. Qed.
Print Assumptions C10_grant_revoke_immediate.

(* the hypothesis "checked source" matters: the commits source of the pinned code had no check (repaired F9) *)
Example C10_unchecked_source_refuted :
  let d := [(0%nat, [VInt 1]); (1%nat, [VInt 2])] in
  let can := fun i => Nat.eqb i 0 in
  map fst (eval_unchecked d) = [0%nat; 1%nat] /\ map fst (eval can d PScan) = [0%nat].
Proof. exact unchecked_source_refuted. Qed.
