(* C19 - schema evolution never alters existing data. *)
From Coq Require Import List ZArith Arith Bool Permutation.
From Verif Require Import Model Order Evolve EvolveProofs.
Import ListNotations.

(* any sequence of add-field patches and switches of the active version leaves the applied writes, hence every field
   value of every document, untouched *)
Theorem C19_schema_ops_preserve_data : forall os n, forallb is_schema_op os = true ->
  log (run n os) = log n /\ forall d f, read (log (run n os)) d f = read (log n) d f.
Proof. exact schema_ops_preserve_data. Qed.
Print Assumptions C19_schema_ops_preserve_data.

(* a field that is visible before and after reads the same *)
Theorem C19_view_stable : forall os n d f v, forallb is_schema_op os = true ->
  view n d f = Some v -> memb f (active_fields (run n os)) = true -> view (run n os) d f = Some v.
Proof. exact view_stable_under_schema_ops. Qed.
Print Assumptions C19_view_stable.

(* documents written before a patch read null in the added fields, over every reachable node state *)
Theorem C19_added_field_reads_null : forall n fs sa d f, log_known n ->
  memb f (newest n) = false -> In f fs -> read (log (step n (Patch fs sa))) d f = rnull.
Proof. exact added_field_reads_null. Qed.
Print Assumptions C19_added_field_reads_null.

Theorem C19_log_known_reachable : forall os n, log_known n -> log_known (run n os).
Proof. exact log_known_run. Qed.
Print Assumptions C19_log_known_reachable.

(* two nodes at different versions that were offered the same writes (in any order) agree on every field that both
   have in their active version while the writes arrive; fields outside are ignored and do not disturb the others *)
Theorem C19_common_fields_agree : forall n1 n2 ws1 ws2 d f,
  log n1 = [] -> log n2 = [] -> Permutation ws1 ws2 ->
  memb f (active_fields n1) = true -> memb f (active_fields n2) = true ->
  read (log (run n1 (map Apply ws1))) d f = read (log (run n2 (map Apply ws2))) d f.
Proof. exact common_fields_agree. Qed.
Print Assumptions C19_common_fields_agree.

(* "every field both know" in the wider sense (known through an inactive version) fails: recorded finding *)
Lemma C19_inactive_field_write_lost :
  let n := {| versions := [[0; 1]; [0; 1; 2]]; active := 0; log := [] |} in
  let w := {| w_doc := 0; w_fld := 2; w_val := (1, [7%Z]) |} in
  let writer := {| versions := [[0; 1]; [0; 1; 2]]; active := 1; log := [] |} in
  view (run n [Apply w; Activate 1]) 0 2 = Some rnull /\ view (run writer [Apply w]) 0 2 = Some (1, [7%Z]).
Proof. exact inactive_field_write_lost. Qed.

Example C19_nonvacuous : log_known {| versions := [[0; 1]]; active := 0; log := [] |}.
Proof. intros w H. destruct H. Qed.
