(* C15 - replication eventually delivers every commit, across outages. *)
From Coq Require Import List Arith Bool.
From Verif Require Import Replicate ReplicateProofs ReplicateRetry.
Import ListNotations.

(* over every history of writes, outages of the target, restarts of the source and retry rounds: every document is
   either fully delivered or recorded for retry under an existing retry record (nothing is forgotten) *)
Theorem C15_nothing_forgotten : forall es, Inv (run init es).
Proof. exact inv_reachable. Qed.
Print Assumptions C15_nothing_forgotten.

(* hence, once the target is reachable, one more retry round delivers everything: B has every commit of A, the retry
   set is empty and the replicator is active again *)
Theorem C15_eventually_delivered : forall es,
  let s := step (step (run init es) Up) Tick in
  (forall d, has s d = head s d) /\ retry s = [] /\ retry_rec s = false /\ active s = true \/
  ((forall d, has s d = head s d) /\ retry s = []).
Proof. exact eventually_delivered. Qed.
Print Assumptions C15_eventually_delivered.

(* the same with retry rounds that take time and a source that may be restarted while a round is in flight: once B is
   reachable, the next firing of the retry loop and the end of its round deliver everything (marks cleared at start) *)
Theorem C15_eventually_delivered_with_interrupted_rounds : forall es,
  delivered (base (rrun true rinit (es ++ [RUp; RTickBegin; RTickEnd]))).
Proof. exact eventually_delivered_interruptible. Qed.
Print Assumptions C15_eventually_delivered_with_interrupted_rounds.

(* ... and with the mark left in the store a restart during a round blocks that replicator for ever *)
Theorem C15_persisted_mark_refuted : forall n,
  let s := rrun false rinit (stuck_history ++ concat (repeat [RTickBegin; RTickEnd] n)) in
  up (base s) = true /\ has (base s) 0 <> head (base s) 0.
Proof. exact persisted_mark_refuted. Qed.
Print Assumptions C15_persisted_mark_refuted.

Example C15_example :
  let s := run init [Write 0; Down; Write 0; Write 1; Tick; ARestart; Write 1; Up; Tick] in
  has s 0 = 2 /\ has s 1 = 2 /\ retry s = [] /\ active s = true.
Proof. vm_compute. auto. Qed.

(* a failure whose bookkeeping is abandoned breaks the invariant for good (finding F64, repaired: the handler records
   the failure again after a conflict) *)
Theorem C15_unrecorded_failure_refuted :
  let s := write_unrecorded (run init [Down; Write 0]) 1 in
  ~ Inv s /\ has (step (step s Up) Tick) 1 <> head (step (step s Up) Tick) 1.
Proof. exact unrecorded_failure_refuted. Qed.
Print Assumptions C15_unrecorded_failure_refuted.
