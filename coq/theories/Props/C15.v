(* C15 - replication eventually delivers every commit, across outages. *)
From Coq Require Import List Arith Bool.
From Verif Require Import Replicate ReplicateProofs.
Import ListNotations.

(* over every history of writes, outages of the target, restarts of the source and retry rounds: every document is
   either fully delivered or recorded for retry under an existing retry record (nothing is forgotten) *)
Theorem C15_nothing_forgotten : forall es, Inv (run init es).
Proof. exact inv_reachable. Qed.
Print Assumptions C15_nothing_forgotten.

(* hence, once the target is reachable, one more retry round delivers everything: B has every commit of A, the retry
   set is empty and the replicator is active again *)
Theorem C15_eventually_delivered : forall es,
  let s := step (step (run init es) Up) Tick in
  (forall d, has s d = head s d) /\ retry s = [] /\ retry_rec s = false /\ active s = true \/
  ((forall d, has s d = head s d) /\ retry s = []).
Proof. exact eventually_delivered. Qed.
Print Assumptions C15_eventually_delivered.

Example C15_example :
  let s := run init [Write 0; Down; Write 0; Write 1; Tick; ARestart; Write 1; Up; Tick] in
  has s 0 = 2 /\ has s 1 = 2 /\ retry s = [] /\ active s = true.
Proof. vm_compute. auto. Qed.
