(* C03 - a document queried at a commit shows exactly the state of that commit. *)
From Coq Require Import List ZArith.
From Verif Require Import GoSem Bytes Model Sweep Order Conv Exact Versioned.
Import ListNotations.

(* the time-travel state applies the commit and each of its ancestors exactly once *)
Theorem C03_versioned_is_replay : forall u c, wfb u = true ->
  RInv u (versioned u c) /\ (forall b, In b (r_merged (versioned u c)) <-> Sweep.Anc (parents u) c b).
Proof. exact versioned_is_replay. Qed.
Print Assumptions C03_versioned_is_replay.

(* it equals the state of any replica, reached by any history, that has merged exactly the commit and its
   ancestors - in particular the writer right after committing c on a locally written linear history *)
Theorem C03_matches_past : forall u c ops, wfb u = true ->
  (forall b, In b (r_merged (reach u ops)) <-> Sweep.Anc (parents u) c b) ->
  vs_eq (r_vs (versioned u c)) (r_vs (reach u ops)).
Proof. exact versioned_eq_replica. Qed.
Print Assumptions C03_matches_past.

(* at the single current head it equals the current state *)
Theorem C03_head_is_current : forall u c ops, wfb u = true ->
  (forall b, In b (r_heads (reach u ops)) <-> b = c) ->
  vs_eq (r_vs (versioned u c)) (r_vs (reach u ops)).
Proof. exact versioned_at_single_head. Qed.
Print Assumptions C03_head_is_current.

(* counters read the sum of the increments up to the commit, each ancestor counted once *)
Theorem C03_counter_prefix_sum : forall u c f, wfb u = true ->
  get_ctr f (v_ctrs (r_vs (versioned u c))) = sum_ctr u f (blocks_of u (r_merged (versioned u c))) /\
  NoDup (r_merged (versioned u c)) /\
  (forall b, In b (r_merged (versioned u c)) <-> Sweep.Anc (parents u) c b).
Proof. exact versioned_counter. Qed.
Print Assumptions C03_counter_prefix_sum.

(* non-vacuity: the counter history +1,+2,+3,+4 reads 1,3,6,10 at its four commits (the pinned code read 1,5,15,35) *)
Definition ex_u3 : universe :=
  [ mkB (-1) 1 [] [1] (DStatus false); mkB 3 1 [] [] (DCtr 1);
    mkB (-1) 2 [0] [3] (DStatus false); mkB 3 2 [1] [] (DCtr 2);
    mkB (-1) 3 [2] [5] (DStatus false); mkB 3 3 [3] [] (DCtr 3);
    mkB (-1) 4 [4] [7] (DStatus false); mkB 3 4 [5] [] (DCtr 4) ]%nat.
Example C03_nonvacuous :
  wfb ex_u3 = true /\
  map (fun c => get_ctr 3 (v_ctrs (r_vs (versioned ex_u3 c)))) [0; 2; 4; 6]%nat = [1; 3; 6; 10]%Z.
Proof. vm_compute. split; reflexivity. Qed.
