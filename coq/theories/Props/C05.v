(* C05 - mutations are all-or-nothing, also when the storage layer fails mid-way.
   Programs are arbitrary trees of store operations whose continuations see the result of each operation
   (including an injected failure); the API call wraps the program in an implicit transaction with a deferred
   discard, commits on the success path only (the commit can fail as well) and runs the success callbacks
   (event publication) after a successful commit.  Quantified over every program that propagates storage errors,
   every prior store and every fault schedule. *)
From Coq Require Import List ZArith.
From Verif Require Import Txn.
Import ListNotations.

Theorem C05_all_or_nothing : forall p fuel sc s, propagates p fuel ->
  let '(ok, s', evs) := call p fuel sc s in
  (ok = false /\ s' = s /\ evs = []) \/
  (ok = true /\ (ok, s', evs) = call p fuel no_fault s).
Proof. exact all_or_nothing. Qed.
Print Assumptions C05_all_or_nothing.

Theorem C05_events_iff_commit : forall p fuel sc s,
  let '(ok, s', evs) := call p fuel sc s in ok = false -> evs = [] /\ s' = s.
Proof. exact events_iff_commit. Qed.
Print Assumptions C05_events_iff_commit.

(* the hypothesis is needed: a program that ignores the failure of one write reports success with a partial
   write set (the shape of the repaired defects F5 and F6) *)
Example C05_swallow_refuted :
  let '(ok, s', _) := call swallow 5 (fun i => Nat.eqb i 1) sempty in
  ok = true /\ s' 1%Z = Some 10%Z /\ s' 2%Z = None.
Proof. exact swallow_refuted. Qed.

(* non-vacuity: a create-like program satisfies the hypothesis *)
Example C05_nonvacuous : propagates create_like 6.
Proof. exact create_like_propagates. Qed.
