(* Default values and nulls across export / import (client/document.go: setDefaultValues applies to documents being
   created; internal/db/backup.go). A schema gives some fields a default value. Creating a document from an input
   applies the default to the fields the input does not mention; an explicit null is a value like any other. The
   export writes a file from which the import creates the documents again. The stored document comes back exactly
   when the export writes an explicit null for the null fields that have a default (the repaired export); an export
   that leaves null fields out (the pinned behaviour) turns them into the default. *)
From Coq Require Import List ZArith.
Import ListNotations.

Definition schema := list (option Z).                       (* per field: its default value, if any *)
Definition stored := list (option Z).                       (* per field: value, None = null *)
Definition input := list (option (option Z)).               (* per field: not mentioned / explicit null / value *)

Fixpoint create (sch : schema) (inp : input) : stored :=
  match sch, inp with
  | d :: sch', i :: inp' => (match i with Some v => v | None => d end) :: create sch' inp'
  | _, _ => []
  end.

Fixpoint export_fixed (sch : schema) (doc : stored) : input :=
  match sch, doc with
  | d :: sch', v :: doc' =>
      (match v with
       | Some x => Some (Some x)
       | None => match d with Some _ => Some None | None => None end
       end) :: export_fixed sch' doc'
  | _, _ => []
  end.

Definition export_pinned (doc : stored) : input := map (fun v => match v with Some x => Some (Some x) | None => None end) doc.

Theorem export_import_roundtrip sch : forall doc, length doc = length sch -> create sch (export_fixed sch doc) = doc.
Proof.
  induction sch as [|d sch IH]; intros [|v doc] H; cbn in H; try discriminate; [reflexivity|].
  cbn [export_fixed create]. f_equal.
  - destruct v as [x|]; [reflexivity|]. destruct d; reflexivity.
  - apply IH. now inversion H.
Qed.

(* the identifier of a document is computed from its non-null values: equal documents, equal identifiers *)
Corollary export_import_same_identifier (B : Type) (hash : list (option Z) -> B) sch doc :
  length doc = length sch -> hash (create sch (export_fixed sch doc)) = hash doc.
Proof. intros H. now rewrite export_import_roundtrip. Qed.

Example pinned_export_refuted :
  let sch := [None; Some 7%Z] in let doc := [Some 1%Z; None] in
  create sch (export_pinned doc) = [Some 1%Z; Some 7%Z] /\ create sch (export_pinned doc) <> doc.
Proof. cbn. split; [reflexivity | discriminate]. Qed.

Example defaults_nonvacuous :
  create [None; Some 7%Z; Some 9%Z] [Some (Some 1%Z); None; Some None] = [Some 1%Z; Some 7%Z; None].
Proof. reflexivity. Qed.
