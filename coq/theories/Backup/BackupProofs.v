From Coq Require Import List ZArith Arith Bool Lia.
From Verif Require Import Backup.
Import ListNotations.

Definition fkmap (g : nat -> option idt) (l : list (option nat)) : list (option (option idt)) :=
  map (fun o => match o with None => Some None
                | Some j => match g j with Some t => Some (Some t) | None => None end end) l.
Definition alldef (l : list (option (option idt))) : bool :=
  forallb (fun o => match o with Some _ => true | None => false end) l.

Lemma newid_unfold f d i : newid (S f) d i =
  match nth_error d i with
  | None => None
  | Some x => if alldef (fkmap (newid f d) (d_fks x))
              then Some (Hid (d_col x) (d_vals x) (map (fun o => match o with Some v => v | None => None end) (fkmap (newid f d) (d_fks x))))
              else None
  end.
Proof. reflexivity. Qed.

Lemma fkmap_mono (g h : nat -> option idt) l : (forall j t, g j = Some t -> h j = Some t) ->
  fkmap h l = fkmap g l \/ alldef (fkmap g l) = false.
Proof.
  intros Hgh. induction l as [|o l IHl]; [left; reflexivity|]. cbn [fkmap map alldef forallb].
  destruct o as [j|].
  - destruct (g j) as [tj|] eqn:Ej.
    + rewrite (Hgh j tj Ej). destruct IHl as [E|E]; [left; unfold fkmap in E; now rewrite E|right; exact E].
    + right. reflexivity.
  - destruct IHl as [E|E]; [left; unfold fkmap in E; now rewrite E|right; exact E].
Qed.

(* more fuel does not change a defined result: the new id is a function of the reference structure *)
Lemma newid_mono f : forall d i t, newid f d i = Some t -> newid (S f) d i = Some t.
Proof.
  induction f as [|f IH]; intros d i t H; [cbn in H; discriminate|].
  rewrite newid_unfold in H. rewrite newid_unfold. destruct (nth_error d i) as [x|]; [|discriminate].
  destruct (fkmap_mono (newid f d) (newid (S f) d) (d_fks x) (IH d)) as [E|E].
  - now rewrite E.
  - rewrite E in H. discriminate.
Qed.

(* round trip: the document created by import from an exported entry carries exactly the id the file announced, its
   current values, and foreign keys equal to the announced new ids of the referenced documents *)
Theorem import_matches_announced : forall fuel d i e,
  export_doc fuel d i = Some e ->
  let '(id, c, v, fks) := import_entry e in
  id = e_new e /\ newid fuel d i = Some id /\
  (exists x, nth_error d i = Some x /\ c = d_col x /\ v = d_vals x /\ length fks = length (d_fks x)).
Proof.
  intros fuel d i e H. unfold export_doc in H.
  destruct (nth_error d i) as [x|] eqn:Ex; [|discriminate].
  destruct (newid fuel d i) as [[c v fks]|] eqn:En; [|discriminate]. inversion H; subst e. clear H.
  cbn [import_entry e_col e_vals e_fks e_new]. split; auto. split; auto.
  exists x. split; auto.
  destruct fuel as [|f]; [cbn in En; discriminate|]. rewrite newid_unfold, Ex in En.
  destruct (alldef _); [|discriminate]. inversion En; subst. unfold fkmap. now rewrite !map_length.
Qed.

(* relations: the k-th foreign key written for document i is the announced new id of the document it referenced *)
Theorem relations_follow_mapping : forall f d i x c v fks k j,
  nth_error d i = Some x -> newid (S f) d i = Some (Hid c v fks) ->
  nth_error (d_fks x) k = Some (Some j) ->
  exists t, nth_error fks k = Some (Some t) /\ newid f d j = Some t.
Proof.
  intros f d i x c v fks k j Hx Hn Hk. rewrite newid_unfold, Hx in Hn.
  destruct (alldef _) eqn:Ef; [|discriminate]. inversion Hn; subst. clear Hn.
  unfold alldef in Ef. rewrite forallb_forall in Ef.
  assert (Hin : In (match newid f d j with Some t => Some (Some t) | None => None end) (fkmap (newid f d) (d_fks x))).
  { unfold fkmap. apply in_map_iff. exists (Some j). split; auto. eapply nth_error_In; eauto. }
  specialize (Ef _ Hin). destruct (newid f d j) as [t|] eqn:Ej; [|discriminate].
  exists t. split; auto.
  unfold fkmap. rewrite nth_error_map. rewrite nth_error_map. rewrite Hk. cbn. now rewrite Ej.
Qed.

(* the new id depends on collections, current values and reference structure only - not on the current ids *)
Definition same_content (d d' : db) : Prop :=
  forall i, match nth_error d i, nth_error d' i with
            | Some x, Some y => d_col x = d_col y /\ d_vals x = d_vals y /\ d_fks x = d_fks y
            | None, None => True
            | _, _ => False
            end.

Lemma newid_content f : forall d d' i, same_content d d' -> newid f d i = newid f d' i.
Proof.
  induction f as [|f IH]; intros d d' i Hs; [reflexivity|].
  rewrite !newid_unfold. specialize (Hs i) as Hi.
  destruct (nth_error d i) as [x|], (nth_error d' i) as [y|]; try contradiction; auto.
  destruct Hi as [Hc [Hv Hf]]. rewrite Hc, Hv, Hf.
  assert (E : fkmap (newid f d) (d_fks y) = fkmap (newid f d') (d_fks y)).
  { unfold fkmap. apply map_ext. intros [j|]; auto. now rewrite (IH d d' j Hs). }
  now rewrite E.
Qed.

(* documents whose id is the hash of their current content keep it: exporting the imported database announces, for
   every document, the id it already has, so a second export / import reproduces the same identifiers *)
Definition consistent (fuel : nat) (d : db) : Prop :=
  forall i x, nth_error d i = Some x -> newid fuel d i = Some (d_id x).

Theorem reexport_stable : forall fuel d d',
  same_content d d' ->
  (forall i y, nth_error d' i = Some y -> newid fuel d i = Some (d_id y)) ->   (* d' is what import created from d *)
  consistent fuel d'.
Proof.
  intros fuel d d' Hs Hi i y Hy. rewrite <- (newid_content fuel d d' i Hs). now apply Hi.
Qed.

(* the pinned one-level rewriting is not the specification: a chain c -> b -> a in which a was updated.
   b's announced new id (it is re-created with the new id of a) differs from the id the export writes into c. *)
Lemma one_level_refuted :
  let a := {| d_col := 0; d_id := Hid 0 [1%Z] []; d_vals := [2%Z]; d_fks := [] |} in
  let b := {| d_col := 0; d_id := Hid 0 [10%Z] [Some (Hid 0 [1%Z] [])]; d_vals := [10%Z]; d_fks := [Some 0] |} in
  let c := {| d_col := 0; d_id := Hid 0 [20%Z] [Some (d_id b)]; d_vals := [20%Z]; d_fks := [Some 1] |} in
  let d := [a; b; c] in
  exists tb tc1 fk, newid 5 d 1 = Some tb /\ newid_one_level d 2 = Some tc1 /\ tc1 = Hid 0 [20%Z] [Some fk] /\ fk <> tb.
Proof.
  cbv zeta. eexists _, _, _. repeat split; try (vm_compute; reflexivity). vm_compute. intros H. discriminate H.
Qed.
