(* Export / import (internal/db/backup.go) at the level of identifiers.
   A document id is a content hash of the initial field values (scalars and foreign keys) and the collection; hashes
   are modelled as terms (injective by construction).  A database is a list of documents; a foreign key is the
   position of the referenced document.  Current values may differ from the initial ones (updates), so re-creating a
   document from its current values gives it a new id; the export file records that new id (_docIDNew) and rewrites
   foreign keys to the new ids of their targets. *)
From Coq Require Import List ZArith Arith Bool Lia.
Import ListNotations.

Inductive idt := Hid (col : nat) (vals : list Z) (fks : list (option idt)).

Record doc := { d_col : nat; d_id : idt; d_vals : list Z; d_fks : list (option nat) }.
Definition db := list doc.

(* specification: the id a document will get when re-created from its current content, its foreign keys being
   rewritten recursively to the new ids of their targets; fuel bounds the reference depth *)
Fixpoint newid (fuel : nat) (d : db) (i : nat) : option idt :=
  match fuel with
  | 0 => None
  | S f =>
      match nth_error d i with
      | None => None
      | Some x =>
          let fks := map (fun o => match o with None => Some None
                                              | Some j => match newid f d j with Some t => Some (Some t) | None => None end end)
                         (d_fks x) in
          if forallb (fun o => match o with Some _ => true | None => false end) fks
          then Some (Hid (d_col x) (d_vals x) (map (fun o => match o with Some v => v | None => None end) fks))
          else None
      end
  end.

(* the export file: per document its collection, current values, foreign keys as new ids, and its own new id *)
Record entry := { e_col : nat; e_vals : list Z; e_fks : list (option idt); e_new : idt }.

Definition export_doc (fuel : nat) (d : db) (i : nat) : option entry :=
  match nth_error d i, newid fuel d i with
  | Some x, Some (Hid c v fks) => Some {| e_col := c; e_vals := v; e_fks := fks; e_new := Hid c v fks |}
  | _, _ => None
  end.

(* import creates each document from the entry's content: its id is the hash of that content *)
Definition import_entry (e : entry) : idt * nat * list Z * list (option idt) :=
  (Hid (e_col e) (e_vals e) (e_fks e), e_col e, e_vals e, e_fks e).

(* the pinned export rewrites one level only: the new id of a referenced document is computed from that document's
   current values with ITS foreign keys left as they are stored (old ids) *)
Definition stored_fk (d : db) (o : option nat) : option idt :=
  match o with None => None | Some j => match nth_error d j with Some y => Some (d_id y) | None => None end end.
Definition newid_one_level (d : db) (i : nat) : option idt :=
  match nth_error d i with
  | None => None
  | Some x =>
      Some (Hid (d_col x) (d_vals x)
              (map (fun o => match o with
                             | None => None
                             | Some j => match nth_error d j with
                                         | Some y => Some (Hid (d_col y) (d_vals y) (map (stored_fk d) (d_fks y)))
                                         | None => None end end) (d_fks x)))
  end.
