(* Semantics of the Go operators that tools/gosyn emits.  Integers are unbounded [Z]; every
   Go operation that can wrap is wrapped explicitly.  Floats are carried as IEEE bit patterns
   (a [Z] in [0, 2^64) resp. [0, 2^32)); only the operations the codec uses are defined. *)
From Coq Require Import ZArith Bool List Lia.
Import ListNotations.
Open Scope Z_scope.

Definition u8  (x : Z) : Z := x mod 256.
Definition u16 (x : Z) : Z := x mod 65536.
Definition u32 (x : Z) : Z := x mod 4294967296.
Definition u64 (x : Z) : Z := x mod 18446744073709551616.
Definition i64 (x : Z) : Z := (x + 9223372036854775808) mod 18446744073709551616 - 9223372036854775808.
Definition i32 (x : Z) : Z := (x + 2147483648) mod 4294967296 - 2147483648.

Definition not_u8  (x : Z) : Z := 255 - x.
Definition not_u32 (x : Z) : Z := 4294967295 - x.
Definition not_u64 (x : Z) : Z := 18446744073709551615 - x.
Definition not_i64 (x : Z) : Z := - x - 1.

Definition shr (x k : Z) : Z := Z.shiftr x k.
Definition shl (x k : Z) : Z := Z.shiftl x k.

(* IEEE-754 binary64 / binary32 on bit patterns *)
Definition f64_sign : Z := 9223372036854775808.          (* 2^63 *)
Definition f64_inf  : Z := 9218868437227405312.          (* 0x7FF0000000000000 *)
Definition f64_mag (u : Z) : Z := u mod f64_sign.
Definition f64_is_nan  (u : Z) : bool := f64_mag u >? f64_inf.
Definition f64_is_zero (u : Z) : bool := f64_mag u =? 0.
Definition f64_neg (u : Z) : Z := if u <? f64_sign then u + f64_sign else u - f64_sign.

Definition f32_sign : Z := 2147483648.                   (* 2^31 *)
Definition f32_inf  : Z := 2139095040.                   (* 0x7F800000 *)
Definition f32_mag (u : Z) : Z := u mod f32_sign.
Definition f32_is_nan  (u : Z) : bool := f32_mag u >? f32_inf.
Definition f32_is_zero (u : Z) : bool := f32_mag u =? 0.
Definition f32_neg (u : Z) : Z := if u <? f32_sign then u + f32_sign else u - f32_sign.

(* The numeric order of non-NaN floats, as an integer key: sign-magnitude, -0 = +0. *)
Definition f64_key (u : Z) : Z := if u <? f64_sign then u else - (u - f64_sign).
Definition f32_key (u : Z) : Z := if u <? f32_sign then u else - (u - f32_sign).
