(* Replicator routing (net/p2p_replicator.go: SetReplicator, DeleteReplicator, loadAndPublishReplicators;
   net/server.go: updateReplicators, pushLogToReplicators). The persisted configuration maps a peer to the set of
   collections it replicates; the in-memory routing table maps a collection to the peers a new commit is pushed to.
   The table is maintained incrementally by the configuration calls and rebuilt from the persisted configuration when
   the node starts. The theorems say that both agree after every history - so a restart changes no routing decision -
   and that a commit of collection c goes to peer p exactly when p is configured for c. *)
From Coq Require Import List Arith Bool Lia.
Import ListNotations.

Definition peer := nat.
Definition coll := nat.
Definition stored := list (peer * list coll).          (* persisted: one record per peer, never with an empty set *)
Definition table := list (coll * peer).                (* in memory: the pairs (collection, peer) *)

Definition mem (x : nat) (l : list nat) : bool := existsb (Nat.eqb x) l.
Fixpoint lookup (p : peer) (s : stored) : list coll :=
  match s with [] => [] | (q, cs) :: r => if Nat.eqb q p then cs else lookup p r end.
Definition remove_peer (p : peer) (s : stored) : stored := filter (fun e => negb (Nat.eqb (fst e) p)) s.
Definition put (p : peer) (cs : list coll) (s : stored) : stored :=
  match cs with [] => remove_peer p s | _ => (p, cs) :: remove_peer p s end.

Definition union (a b : list coll) : list coll := a ++ filter (fun c => negb (mem c a)) b.
Definition minus (a b : list coll) : list coll := filter (fun c => negb (mem c b)) a.

(* server.updateReplicators: afterwards the peer is routed exactly the given collections *)
Definition update_table (t : table) (p : peer) (cs : list coll) : table :=
  filter (fun e => negb (Nat.eqb (snd e) p)) t ++ map (fun c => (c, p)) cs.

Inductive cop :=
| SetRep (p : peer) (cs : list coll)        (* add the collections cs (all = the caller lists them) to p *)
| DelRep (p : peer) (cs : list coll)        (* remove cs from p; [] = remove the replicator *)
| Restart.                                  (* the table is lost and rebuilt from the persisted records *)

Record node := mkN { cfg : stored; tab : table }.

Definition load (s : stored) : table := fold_left (fun t e => update_table t (fst e) (snd e)) s [].

Definition cstep (n : node) (o : cop) : node :=
  match o with
  | SetRep p cs => let ids := union (lookup p (cfg n)) cs in mkN (put p ids (cfg n)) (update_table (tab n) p ids)
  | DelRep p cs => let ids := match cs with [] => [] | _ => minus (lookup p (cfg n)) cs end in
                   mkN (put p ids (cfg n)) (update_table (tab n) p ids)
  | Restart => mkN (cfg n) (load (cfg n))
  end.
Definition crun (ops : list cop) : node := fold_left cstep ops (mkN [] []).

(* the routing decision of pushLogToReplicators *)
Definition routes (t : table) (c : coll) (p : peer) : bool := existsb (fun e => Nat.eqb (fst e) c && Nat.eqb (snd e) p) t.

(* ---- proofs ---- *)
Lemma mem_In x l : mem x l = true <-> In x l.
Proof.
  unfold mem. rewrite existsb_exists. split.
  - intros [y [Hy E]]. apply Nat.eqb_eq in E. now subst.
  - intros H. exists x. split; auto. apply Nat.eqb_refl.
Qed.

Lemma routes_spec t c p : routes t c p = true <-> In (c, p) t.
Proof.
  unfold routes. rewrite existsb_exists. split.
  - intros [[c' p'] [Hin E]]. cbn in E. apply andb_true_iff in E. destruct E as [E1 E2].
    apply Nat.eqb_eq in E1, E2. now subst.
  - intros H. exists (c, p). split; auto. cbn. now rewrite !Nat.eqb_refl.
Qed.

Lemma update_table_spec t p cs c q :
  In (c, q) (update_table t p cs) <-> (q <> p /\ In (c, q) t) \/ (q = p /\ In c cs).
Proof.
  unfold update_table. rewrite in_app_iff, filter_In, in_map_iff. cbn [snd]. split.
  - intros [[Hin Hne]|[c' [E Hc]]].
    + left. split; auto. intros ->. rewrite Nat.eqb_refl in Hne. discriminate.
    + inversion E; subst. right. auto.
  - intros [[Hne Hin]|[-> Hc]].
    + left. split; auto. destruct (Nat.eqb_spec q p); [contradiction|reflexivity].
    + right. exists c. auto.
Qed.

Lemma lookup_remove_same p s : lookup p (remove_peer p s) = [].
Proof.
  induction s as [|[q cs] s IH]; [reflexivity|]. cbn [remove_peer filter fst].
  destruct (Nat.eqb_spec q p) as [->|Hne]; cbn [negb]; [exact IH|].
  cbn [lookup]. destruct (Nat.eqb_spec q p); [contradiction|exact IH].
Qed.
Lemma lookup_remove_other p q s : q <> p -> lookup q (remove_peer p s) = lookup q s.
Proof.
  intros Hne. induction s as [|[r cs] s IH]; [reflexivity|]. cbn [remove_peer filter fst lookup].
  destruct (Nat.eqb_spec r p) as [->|Hrp]; cbn [negb].
  - destruct (Nat.eqb_spec p q); [congruence|exact IH].
  - cbn [lookup]. destruct (Nat.eqb_spec r q); [reflexivity|exact IH].
Qed.
Lemma lookup_put_same p cs s : lookup p (put p cs s) = cs.
Proof.
  unfold put. destruct cs as [|c cs]; [apply lookup_remove_same|]. cbn [lookup]. now rewrite Nat.eqb_refl.
Qed.
Lemma lookup_put_other p q cs s : q <> p -> lookup q (put p cs s) = lookup q s.
Proof.
  intros Hne. unfold put. destruct cs as [|c cs]; [now apply lookup_remove_other|].
  cbn [lookup]. destruct (Nat.eqb_spec p q); [congruence|now apply lookup_remove_other].
Qed.

(* the persisted records have one record per peer *)
Definition uniq (s : stored) : Prop := NoDup (map fst s).
Lemma remove_peer_notin p s : ~ In p (map fst (remove_peer p s)).
Proof.
  intros H. apply in_map_iff in H. destruct H as [[q cs] [E Hin]]. cbn in E. subst q.
  apply filter_In in Hin. destruct Hin as [_ Hb]. cbn in Hb. rewrite Nat.eqb_refl in Hb. discriminate.
Qed.
Lemma remove_peer_uniq p s : uniq s -> uniq (remove_peer p s).
Proof.
  unfold uniq. induction s as [|[q cs] s IH]; cbn [remove_peer filter map fst]; intros ND; [constructor|].
  inversion ND as [|? ? Hn ND']; subst. destruct (negb (Nat.eqb q p)); cbn [map fst]; auto.
  constructor; auto. intros H. apply Hn. apply in_map_iff in H. destruct H as [e [E Hin]].
  apply filter_In in Hin. apply in_map_iff. exists e. tauto.
Qed.
Lemma put_uniq p cs s : uniq s -> uniq (put p cs s).
Proof.
  intros H. unfold put. destruct cs; [now apply remove_peer_uniq|].
  unfold uniq. cbn [map fst]. constructor; [apply remove_peer_notin | now apply remove_peer_uniq].
Qed.

(* the table built at start routes p to exactly the collections of its record *)
Lemma load_spec s : uniq s -> forall c p, In (c, p) (load s) <-> In c (lookup p s).
Proof.
  unfold load.
  assert (G : forall s t, uniq s -> (forall c p, In (c, p) t -> ~ In p (map fst s)) ->
              forall c p, In (c, p) (fold_left (fun t e => update_table t (fst e) (snd e)) s t) <->
                          (In (c, p) t \/ In c (lookup p s))).
  { clear s. induction s as [|[q cs] s IH]; intros t ND Hfresh c p; cbn [fold_left lookup]; [cbn [In]; tauto|].
    inversion ND as [|? ? Hn ND']; subst. cbn [fst snd].
    rewrite IH; auto.
    - rewrite update_table_spec. destruct (Nat.eqb_spec q p) as [->|Hne].
      + split.
        * intros [[[Hne _]|[_ Hc]]|Hl]; [congruence|tauto|]. exfalso.
          assert (In p (map fst s)).
          { clear -Hl. induction s as [|[r cs'] s IH]; [destruct Hl|]. cbn [lookup] in Hl. cbn [map fst].
            destruct (Nat.eqb_spec r p); [left; auto|right; auto]. }
          contradiction.
        * intros [Ht|Hc]; [|tauto]. exfalso. apply (Hfresh c p Ht). left. reflexivity.
      + split.
        * intros [[[_ Ht]|[E _]]|Hl]; [tauto|congruence|tauto].
        * intros [Ht|Hl]; [left; left; split; auto|tauto].
    - intros c' p' Hin. apply update_table_spec in Hin. destruct Hin as [[Hne Ht]|[-> _]].
      + intros Hp. apply (Hfresh c' p' Ht). right. exact Hp.
      + exact Hn. }
  intros Hu c p. rewrite G; auto. cbn. tauto.
Qed.

(* invariant of every history: the table in memory routes p exactly the collections persisted for p *)
Definition coherent (n : node) : Prop := uniq (cfg n) /\ forall c p, In (c, p) (tab n) <-> In c (lookup p (cfg n)).

Lemma cstep_coherent n o : coherent n -> coherent (cstep n o).
Proof.
  intros [Hu Ht]. destruct o as [p cs|p cs|]; cbn [cstep].
  - split; [now apply put_uniq|]. cbn [cfg tab]. intros c q. rewrite update_table_spec.
    destruct (Nat.eq_dec q p) as [->|Hne].
    + rewrite lookup_put_same. split; [intros [[H _]|[_ H]]; [congruence|exact H] | tauto].
    + rewrite lookup_put_other by auto. rewrite Ht. split; [intros [[_ H]|[E _]]; [exact H|congruence] | tauto].
  - split; [now apply put_uniq|]. cbn [cfg tab]. intros c q. rewrite update_table_spec.
    destruct (Nat.eq_dec q p) as [->|Hne].
    + rewrite lookup_put_same. split; [intros [[H _]|[_ H]]; [congruence|exact H] | tauto].
    + rewrite lookup_put_other by auto. rewrite Ht. split; [intros [[_ H]|[E _]]; [exact H|congruence] | tauto].
  - split; auto. cbn [cfg tab]. intros c q. now apply load_spec.
Qed.

Theorem routing_coherent ops : coherent (crun ops).
Proof.
  unfold crun. assert (G : forall n, coherent n -> coherent (fold_left cstep ops n)).
  { induction ops as [|o ops IH]; intros n H; cbn [fold_left]; auto. apply IH. now apply cstep_coherent. }
  apply G. split; [constructor|]. cbn. tauto.
Qed.

(* a restart changes no routing decision *)
Theorem restart_keeps_routing ops c p :
  routes (tab (cstep (crun ops) Restart)) c p = routes (tab (crun ops)) c p.
Proof.
  destruct (routing_coherent ops) as [Hu Ht].
  destruct (cstep_coherent _ Restart (conj Hu Ht)) as [_ Ht'].
  apply eq_true_iff_eq. rewrite !routes_spec, Ht, Ht'. reflexivity.
Qed.

(* a commit of collection c is pushed to p exactly when p is configured for c *)
Theorem routed_iff_configured ops c p : routes (tab (crun ops)) c p = true <-> In c (lookup p (cfg (crun ops))).
Proof. destruct (routing_coherent ops) as [_ Ht]. now rewrite routes_spec, Ht. Qed.

(* rebuilding the table with one scratch set shared by all records (the collections of earlier records are still in it
   when a later record is loaded) routes later peers to collections of earlier ones *)
Definition load_shared (s : stored) : table :=
  snd (fold_left (fun acc e => let seen := fst acc ++ snd e in (seen, update_table (snd acc) (fst e) seen)) s ([], [])).
Example shared_scratch_refuted :
  let s := [(1, [10]); (2, [20])] in
  routes (load s) 10 2 = false /\ routes (load_shared s) 10 2 = true.
Proof. vm_compute. split; reflexivity. Qed.

Example routing_nonvacuous :
  let n := crun [SetRep 1 [10]; SetRep 2 [20]; SetRep 1 [30]; DelRep 2 []; SetRep 3 [10; 20]; DelRep 3 [20]; Restart] in
  routes (tab n) 10 1 = true /\ routes (tab n) 30 1 = true /\ routes (tab n) 20 2 = false /\
  routes (tab n) 10 3 = true /\ routes (tab n) 20 3 = false.
Proof. vm_compute. repeat split. Qed.
