(* Replicator bookkeeping (net/peer.go: pushLogToReplicators; net/client.go: pushLog; net/p2p_replicator.go:
   handleReplicatorFailure, retryReplicators, retryReplicator, retryDoc, handleCompletedReplicatorRetry).
   Node A writes documents; every commit is pushed to the replicator target B; a failed push records the document in
   the per-peer retry set and marks the replicator inactive; the retry loop later pushes the current heads of the
   recorded documents (the receiver pulls missing ancestors through the DAG sync, so having the head of a document
   means having all its commits).  Documents are numbers; head a d = number of commits A made to d; has b d = the
   number of them B has merged.
   Each event is atomic in the model: pushes and retry rounds do not overlap with writes (the real retry round runs
   in its own goroutine; the Retrying flag that serialises rounds is therefore always clear between events here). *)
From Coq Require Import List Arith Bool Lia.
Import ListNotations.

Record st := {
  head : nat -> nat;          (* A: commits per document *)
  has : nat -> nat;           (* B: merged commits per document *)
  up : bool;                  (* B reachable *)
  active : bool;              (* replicator status as persisted on A *)
  retry_rec : bool;           (* the per-peer retry record exists *)
  retry : list nat            (* documents recorded for retry *)
}.

Definition upd (f : nat -> nat) (d v : nat) : nat -> nat := fun x => if Nat.eqb x d then v else f x.
Definition memb (d : nat) (l : list nat) : bool := existsb (Nat.eqb d) l.
Definition add (d : nat) (l : list nat) : list nat := if memb d l then l else l ++ [d].

Inductive ev :=
| Write (d : nat)             (* A commits to document d and pushes the new head *)
| Down | Up                   (* B becomes unreachable / reachable again (its store is kept) *)
| ARestart                    (* A is closed and reopened on its store *)
| Tick.                       (* the retry loop fires for this peer *)

(* one retry round: documents in order; the first failure ends the round *)
Fixpoint retry_round (h : nat -> nat) (b_up : bool) (hs : nat -> nat) (l : list nat) : (nat -> nat) * list nat :=
  match l with
  | [] => (hs, [])
  | d :: r => if b_up then retry_round h b_up (upd hs d (h d)) r else (hs, l)
  end.

Definition step (s : st) (e : ev) : st :=
  match e with
  | Write d =>
      let h := upd (head s) d (S (head s d)) in
      if up s then
        {| head := h; has := upd (has s) d (h d); up := up s; active := active s; retry_rec := retry_rec s; retry := retry s |}
      else
        (* handleReplicatorFailure: status inactive, retry record created if missing, document recorded *)
        {| head := h; has := has s; up := up s; active := false; retry_rec := true; retry := add d (retry s) |}
  | Down => {| head := head s; has := has s; up := false; active := active s; retry_rec := retry_rec s; retry := retry s |}
  | Up => {| head := head s; has := has s; up := true; active := active s; retry_rec := retry_rec s; retry := retry s |}
  | ARestart => s             (* everything the bookkeeping needs is persisted; the routing map is rebuilt from it *)
  | Tick =>
      if retry_rec s then
        let '(hs, rest) := retry_round (head s) (up s) (has s) (retry s) in
        match rest with
        | [] => {| head := head s; has := hs; up := up s; active := true; retry_rec := false; retry := [] |}
        | _ => {| head := head s; has := hs; up := up s; active := active s; retry_rec := true; retry := rest |}
        end
      else s
  end.

Definition run (s : st) (es : list ev) : st := fold_left step es s.

Definition init : st :=
  {| head := fun _ => 0; has := fun _ => 0; up := true; active := true; retry_rec := false; retry := [] |}.

(* nothing is forgotten: every document is either fully delivered or recorded for retry under an existing record *)
Definition Inv (s : st) : Prop :=
  (forall d, has s d = head s d \/ (memb d (retry s) = true /\ retry_rec s = true)) /\
  (retry_rec s = false -> retry s = []) /\ (active s = true -> retry s = []).
