(* The retry round as it really runs (net/p2p_replicator.go: retryReplicators, setReplicatorAsRetrying,
   retryReplicator, handleCompletedReplicatorRetry): the loop marks the persisted retry record as "retrying" and starts
   the round in a goroutine; the round clears the mark when it ends. Replicate.v treats a round as one atomic event;
   here a round has a beginning and an end, and the source node may be closed in between. The persisted mark then
   outlives the goroutine. [reset] says whether the node clears the marks when it starts (the repaired behaviour). *)
From Coq Require Import List Arith Bool Lia.
From Verif Require Import Replicate ReplicateProofs.
Import ListNotations.

Record rst := mkR { base : st; flag : bool (* persisted mark *); running : bool (* a round goroutine exists *) }.

Inductive rev :=
| RWrite (d : nat) | RDown | RUp
| RTickBegin                 (* the loop fires: if a record exists and is not marked, mark it and start a round *)
| RTickEnd                   (* the round in flight ends: pushes, clears the mark *)
| RRestart.                  (* A is closed and reopened: goroutines are gone *)

Definition rstep (reset : bool) (s : rst) (e : rev) : rst :=
  match e with
  | RWrite d => mkR (step (base s) (Write d)) (flag s) (running s)
  | RDown => mkR (step (base s) Down) (flag s) (running s)
  | RUp => mkR (step (base s) Up) (flag s) (running s)
  | RTickBegin => if retry_rec (base s) && negb (flag s) then mkR (base s) true true else s
  | RTickEnd => if running s then mkR (step (base s) Tick) false false else s
  | RRestart => mkR (base s) (if reset then false else flag s) false
  end.
Definition rrun (reset : bool) (s : rst) (es : list rev) : rst := fold_left (rstep reset) es s.
Definition rinit : rst := mkR init false false.

Definition RInv (reset : bool) (s : rst) : Prop :=
  Inv (base s) /\ (running s = true -> flag s = true) /\ (reset = true -> flag s = true -> running s = true).

Lemma rstep_inv reset s e : RInv reset s -> RInv reset (rstep reset s e).
Proof.
  intros [Hi [H1 H2]]. unfold RInv. destruct e; cbn [rstep].
  - cbn [base flag running]. split; [now apply inv_step|]. split; assumption.
  - cbn [base flag running]. split; [now apply inv_step|]. split; assumption.
  - cbn [base flag running]. split; [now apply inv_step|]. split; assumption.
  - destruct (retry_rec (base s) && negb (flag s)).
    + cbn [base flag running]. split; [assumption|]. split; intros; reflexivity.
    + split; [assumption|]. split; assumption.
  - destruct (running s) eqn:Er.
    + cbn [base flag running]. split; [now apply inv_step|]. split; [discriminate | intros _ H; discriminate H].
    + rewrite Er. split; [assumption|]. split; assumption.
  - cbn [base flag running]. split; [assumption|]. split; [discriminate|]. intros ->. discriminate.
Qed.

Lemma rinv_reachable reset es : RInv reset (rrun reset rinit es).
Proof.
  unfold rrun. assert (G : forall s, RInv reset s -> RInv reset (fold_left (rstep reset) es s)).
  { induction es as [|e es IH]; intros s H; cbn [fold_left]; auto. apply IH. now apply rstep_inv. }
  apply G. split; [apply inv_init|]. cbn. split; [discriminate|]. intros _. discriminate.
Qed.

Definition delivered (s : st) : Prop := (forall d, has s d = head s d) /\ retry s = [].

(* one retry round with B reachable, from a state satisfying the invariant, delivers everything *)
Lemma tick_delivers s : Inv s -> up s = true -> delivered (step s Tick).
Proof.
  intros [H1 [H2 H3]] Eup. unfold delivered. cbn [step]. destruct (retry_rec s) eqn:Er.
  - rewrite Eup. destruct (retry_round_up (head s) (has s) (retry s)) as [R1 [R2 R3]].
    destruct (retry_round (head s) true (has s) (retry s)) as [hs rest] eqn:E. cbn [fst snd] in *. subst rest.
    cbn [head has retry]. split; auto. intros d. destruct (memb d (retry s)) eqn:Em; [now apply R2|].
    rewrite R3 by exact Em. destruct (H1 d) as [E1|[E1 _]]; [auto|congruence].
  - split; [|now apply H2]. intros d. destruct (H1 d) as [E1|[_ E1]]; [auto|congruence].
Qed.

(* With the marks cleared at start: after ANY history - rounds interrupted by restarts included - once B is reachable
   the next firing of the loop and the end of its round leave B with every commit of A. *)
Theorem eventually_delivered_interruptible es :
  delivered (base (rrun true rinit (es ++ [RUp; RTickBegin; RTickEnd]))).
Proof.
  unfold rrun. rewrite fold_left_app. fold (rrun true rinit es).
  pose proof (rinv_reachable true es) as Hr. set (s := rrun true rinit es) in *. clearbody s.
  cbn [fold_left].
  pose proof (rstep_inv true s RUp Hr) as Hu.
  assert (Eup : up (base (rstep true s RUp)) = true) by reflexivity.
  set (u := rstep true s RUp) in *. clearbody u.
  destruct Hu as [Hi [H1 H2]].
  assert (Hdel : forall w, base w = base u -> running w = true -> delivered (base (rstep true w RTickEnd))).
  { intros w Eb Erun. cbn [rstep]. rewrite Erun. cbn [base]. rewrite Eb. now apply tick_delivers. }
  assert (Hb : base (rstep true u RTickBegin) = base u) by (cbn [rstep]; destruct (_ && _); reflexivity).
  assert (Hnr : running (rstep true u RTickBegin) = false -> retry_rec (base u) = false).
  { intros Erun. cbn [rstep] in Erun. destruct (retry_rec (base u)) eqn:Er; auto. cbn [andb] in Erun.
    destruct (flag u) eqn:Ef; cbn [negb] in Erun; [|discriminate]. specialize (H2 eq_refl eq_refl). congruence. }
  set (w := rstep true u RTickBegin) in *. clearbody w.
  destruct (running w) eqn:Erun; [apply Hdel; [exact Hb | exact Erun]|].
  (* no round in flight and none started: the record does not exist, everything had been delivered *)
  cbn [rstep]. rewrite Erun, Hb. specialize (Hnr eq_refl).
  destruct Hi as [G1 [G2 G3]]. split; [|now apply G2]. intros d. destruct (G1 d) as [E1|[_ E1]]; [auto|congruence].
Qed.

(* Without clearing the marks (the pinned behaviour): a restart during a round leaves the mark set with no goroutine
   to clear it; the loop never starts a round for that peer again, however often it fires. *)
Definition stuck_history : list rev := [RDown; RWrite 0; RTickBegin; RRestart; RUp].
Lemma persisted_mark_refuted : forall n,
  let s := rrun false rinit (stuck_history ++ concat (repeat [RTickBegin; RTickEnd] n)) in
  up (base s) = true /\ has (base s) 0 <> head (base s) 0.
Proof.
  intros n. cbv zeta. unfold rrun. rewrite fold_left_app.
  set (s0 := fold_left (rstep false) stuck_history rinit).
  assert (F : forall k, fold_left (rstep false) (concat (repeat [RTickBegin; RTickEnd] k)) s0 = s0).
  { induction k as [|k IH]; [reflexivity|]. cbn [repeat concat app fold_left]. exact IH. }
  rewrite F. vm_compute. split; [reflexivity|discriminate].
Qed.

Example interruptible_nonvacuous :
  let s := rrun true rinit [RDown; RWrite 0; RWrite 1; RTickBegin; RRestart; RUp; RTickBegin; RTickEnd] in
  has (base s) 0 = 1 /\ has (base s) 1 = 1 /\ retry (base s) = [] /\ flag s = false.
Proof. vm_compute. auto. Qed.

(* A failed push whose bookkeeping is abandoned (the pinned handler gave up when its transaction conflicted with the
   mark written by the retry loop): the document is neither delivered nor recorded, the invariant is lost and no
   later retry round can deliver it. The repaired handler records the failure again, which is the Write step. *)
Definition write_unrecorded (s : st) (d : nat) : st :=
  {| head := upd (head s) d (S (head s d)); has := has s; up := up s; active := active s;
     retry_rec := retry_rec s; retry := retry s |}.
Example unrecorded_failure_refuted :
  let s := write_unrecorded (run init [Down; Write 0]) 1 in
  ~ Inv s /\ has (step (step s Up) Tick) 1 <> head (step (step s Up) Tick) 1.
Proof.
  cbv zeta. split.
  - intros [H _]. destruct (H 1) as [E|[E _]]; vm_compute in E; discriminate.
  - vm_compute. discriminate.
Qed.
