From Coq Require Import List Arith Bool Lia.
From Verif Require Import Replicate.
Import ListNotations.

Lemma memb_add d l : memb d (add d l) = true.
Proof.
  unfold add. destruct (memb d l) eqn:E; auto. unfold memb. rewrite existsb_app. cbn. now rewrite Nat.eqb_refl, orb_true_r.
Qed.
Lemma memb_add_keep d x l : memb x l = true -> memb x (add d l) = true.
Proof. unfold add. destruct (memb d l); auto. intros H. unfold memb in *. rewrite existsb_app, H. auto. Qed.
Lemma add_nonempty d l : add d l <> [].
Proof. unfold add. destruct (memb d l) eqn:E; [destruct l; [discriminate|discriminate]|destruct l; discriminate]. Qed.

(* a retry round with B reachable delivers every recorded document and leaves the others alone *)
Lemma retry_round_up h hs l :
  snd (retry_round h true hs l) = [] /\
  (forall d, memb d l = true -> fst (retry_round h true hs l) d = h d) /\
  (forall d, memb d l = false -> fst (retry_round h true hs l) d = hs d).
Proof.
  revert hs. induction l as [|x l IH]; intros hs; cbn [retry_round fst snd]; [repeat split; auto; discriminate|].
  destruct (IH (upd hs x (h x))) as [H1 [H2 H3]]. split; auto. split.
  - intros d Hd. cbn [memb existsb] in Hd. destruct (memb d l) eqn:E.
    + apply H2. exact E.
    + unfold memb in E. rewrite E, orb_false_r in Hd. apply Nat.eqb_eq in Hd. subst x.
      rewrite H3 by exact E. unfold upd. now rewrite Nat.eqb_refl.
  - intros d Hd. cbn [memb existsb] in Hd. apply orb_false_elim in Hd. destruct Hd as [Hx Hl].
    rewrite H3 by exact Hl. unfold upd. now rewrite Hx.
Qed.

Lemma retry_round_down h hs l : retry_round h false hs l = (hs, l).
Proof. destruct l; reflexivity. Qed.

Lemma upd_same f d v : upd f d v d = v.
Proof. unfold upd. now rewrite Nat.eqb_refl. Qed.
Lemma upd_other f d v x : x <> d -> upd f d v x = f x.
Proof. intros H. unfold upd. destruct (Nat.eqb x d) eqn:E; auto. apply Nat.eqb_eq in E. congruence. Qed.

Theorem inv_step : forall s e, Inv s -> Inv (step s e).
Proof.
  intros s e [H1 [H2 H3]]. destruct e as [d| | | |]; cbn [step].
  - destruct (up s) eqn:Eu; unfold Inv; cbn [head has retry retry_rec active].
    + repeat split; auto. intros x. destruct (Nat.eq_dec x d) as [->|Hne].
      * left. now rewrite !upd_same.
      * rewrite !upd_other by auto. apply H1.
    + repeat split; try discriminate.
      * intros x. destruct (Nat.eq_dec x d) as [->|Hne].
        -- right. split; auto. apply memb_add.
        -- rewrite upd_other by auto. destruct (H1 x) as [E|[E _]]; [left; auto|right; split; auto; now apply memb_add_keep].
  - unfold Inv; cbn [head has retry retry_rec active]. auto.
  - unfold Inv; cbn [head has retry retry_rec active]. auto.
  - unfold Inv. auto.
  - destruct (retry_rec s) eqn:Er; [|unfold Inv; rewrite Er; repeat split; auto].
    destruct (up s) eqn:Eu.
    + destruct (retry_round_up (head s) (has s) (retry s)) as [R1 [R2 R3]].
      destruct (retry_round (head s) true (has s) (retry s)) as [hs rest] eqn:E. cbn [fst snd] in *. subst rest.
      unfold Inv; cbn [head has retry retry_rec active]. repeat split; auto.
      intros x. left. destruct (memb x (retry s)) eqn:Em; [now apply R2|].
      rewrite R3 by exact Em. destruct (H1 x) as [E1|[E1 _]]; [auto|congruence].
    + rewrite retry_round_down.
      assert (Hcase : retry s = [] \/ exists x l, retry s = x :: l) by (destruct (retry s) as [|x l]; [left|right; exists x, l]; reflexivity).
      destruct Hcase as [El|[x [l El]]]; rewrite El.
      * unfold Inv; cbn [head has retry retry_rec active]. repeat split; auto.
        intros y. destruct (H1 y) as [E1|[E1 _]]; [left; auto|]. rewrite El in E1. discriminate.
      * unfold Inv; cbn [head has retry retry_rec active]. repeat split; try discriminate.
        -- intros y. rewrite <- El. destruct (H1 y) as [E1|[E1 E2]]; [left; auto|right; auto].
        -- intros Ha. rewrite <- El. auto.
Qed.

Lemma inv_init : Inv init.
Proof. unfold Inv, init; cbn. repeat split; auto. Qed.

Theorem inv_reachable : forall es, Inv (run init es).
Proof.
  intros es. unfold run. generalize inv_init. generalize init.
  induction es as [|e es IH]; intros s H; cbn [fold_left]; auto. apply IH. now apply inv_step.
Qed.

(* Eventual delivery: after ANY history of writes, outages, restarts and retry rounds, once B is reachable one more
   retry round leaves B with every commit of A, an empty retry set and an active replicator. *)
Theorem eventually_delivered : forall es,
  let s := step (step (run init es) Up) Tick in
  (forall d, has s d = head s d) /\ retry s = [] /\ retry_rec s = false /\ active s = true \/
  (* (no retry record: everything had been delivered already) *)
  ((forall d, has s d = head s d) /\ retry s = []).
Proof.
  intros es. cbv zeta. pose proof (inv_reachable es) as Hi.
  pose proof (inv_step _ Up Hi) as Hu. set (u := step (run init es) Up) in *.
  assert (Eup : up u = true) by reflexivity.
  destruct Hu as [H1 [H2 H3]]. cbn [step]. destruct (retry_rec u) eqn:Er.
  - left. rewrite Eup.
    destruct (retry_round_up (head u) (has u) (retry u)) as [R1 [R2 R3]].
    destruct (retry_round (head u) true (has u) (retry u)) as [hs rest] eqn:E. cbn [fst snd] in *. subst rest.
    cbn [head has retry retry_rec active]. repeat split; auto.
    intros d. destruct (memb d (retry u)) eqn:Em; [now apply R2|].
    rewrite R3 by exact Em. destruct (H1 d) as [E1|[E1 _]]; [auto|congruence].
  - right. split; [|now apply H2]. intros d. destruct (H1 d) as [E1|[_ E1]]; [auto|congruence].
Qed.

(* the pinned retry path pushed with another collection identifier than a first push (the schema version id instead
   of the collection id): when the receiver cannot resolve it the merge fails after the push was acknowledged, and the
   document leaves the retry set undelivered - the shape of the repaired defect F12 *)
Definition retry_round_acked_but_dropped (l : list nat) (hs : nat -> nat) : (nat -> nat) * list nat := (hs, []).
Lemma legacy_retry_refuted :
  let s := run init [Down; Write 0; Up] in
  let '(hs, rest) := retry_round_acked_but_dropped (retry s) (has s) in
  rest = [] /\ hs 0 <> head s 0.
Proof. vm_compute. split; [reflexivity|discriminate]. Qed.
