(* Index creation against concurrent document creation, as snapshot transactions (C16, C07).
   Query/IndexMaint.v proves that the entries of an index are exactly the live documents when every operation is atomic
   with respect to the others. Here the two operations are transactions on a store with snapshot reads and a conflict
   check on the keys a transaction READ (Badger): building the index reads the documents that exist in its snapshot and
   writes one entry for each plus the index description; creating a document reads the index descriptions of its
   snapshot and writes the document plus one entry per index it saw. Neither reads a key the other writes, so both
   commit - and the document created in between has no entry. The pinned code behaves like this model (witness in the
   concurrency engine; recorded finding). *)
From Coq Require Import List Arith Bool.
Import ListNotations.

Record store := mkS { docs : list nat; entries : list nat; indexed : bool }.
Record pending := mkP { build_snap : option (list nat);            (* documents seen by the index build in flight *)
                        create_snap : list (nat * bool) }.         (* creates in flight: document, "saw the index" *)
Inductive ev := BeginBuild | CommitBuild | BeginCreate (d : nat) | CommitCreate (d : nat).

Fixpoint saw (d : nat) (l : list (nat * bool)) : option bool :=
  match l with [] => None | (d', b) :: r => if Nat.eqb d' d then Some b else saw d r end.

Definition step (sp : store * pending) (e : ev) : store * pending :=
  let (s, p) := sp in
  match e with
  | BeginBuild => (s, mkP (Some (docs s)) (create_snap p))
  | CommitBuild => match build_snap p with
                   | Some seen => (mkS (docs s) (entries s ++ seen) true, mkP None (create_snap p))
                   | None => sp
                   end
  | BeginCreate d => (s, mkP (build_snap p) ((d, indexed s) :: create_snap p))
  | CommitCreate d => match saw d (create_snap p) with
                      | Some b => (mkS (d :: docs s) (if b then d :: entries s else entries s) (indexed s), p)
                      | None => sp
                      end
  end.
Definition run (es : list ev) : store * pending := fold_left step es (mkS [] [] false, mkP None []).

(* what IndexMaint proves for atomic operations *)
Definition consistent (s : store) : Prop := indexed s = true -> forall d, In d (docs s) -> In d (entries s).

(* both transactions commit (nothing either of them read was written by the other) and the document has no entry *)
Lemma index_build_race_refuted :
  let s := fst (run [BeginBuild; BeginCreate 1; CommitCreate 1; CommitBuild]) in
  indexed s = true /\ In 1 (docs s) /\ ~ In 1 (entries s).
Proof. vm_compute. split; [reflexivity|]. split; [left; reflexivity|]. intros []. Qed.

Lemma index_build_race_other_order_refuted :
  let s := fst (run [BeginCreate 1; BeginBuild; CommitBuild; CommitCreate 1]) in
  indexed s = true /\ In 1 (docs s) /\ ~ In 1 (entries s).
Proof. vm_compute. split; [reflexivity|]. split; [left; reflexivity|]. intros []. Qed.

(* without overlap the result is consistent: the create that begins after the build committed sees the index *)
Example index_build_serial_ok :
  let s := fst (run [BeginCreate 1; CommitCreate 1; BeginBuild; CommitBuild; BeginCreate 2; CommitCreate 2]) in
  indexed s = true /\ (forall d, In d (docs s) -> In d (entries s)).
Proof. vm_compute. split; [reflexivity|]. intros d [<-|[<-|[]]]; auto. Qed.
