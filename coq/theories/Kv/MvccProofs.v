(* Isolation theorems for the MVCC model, for every interleaving of any number of transactions. *)
From Coq Require Import List ZArith Arith Bool Lia.
From Verif Require Import Mvcc.
Import ListNotations.
Local Open Scope nat_scope.

Definition op_txn (o : top) : nat :=
  match o with
  | TBegin t | TRead t _ _ | TWrite t _ _ _ | TCreate t _ _ _ | TDelete t _ _ | TCommit t _ | TDiscard t | TList t _ => t
  end.
Definition is_begin (o : top) : bool := match o with TBegin _ => true | _ => false end.
Definition is_commit (o : top) : bool := match o with TCommit _ _ => true | _ => false end.

Definition step (s : mv) (o : top) : mv := fst (mstep s o).
Definition run (s : mv) (ops : list top) : mv := fold_left step ops s.

Lemma tlook_put_same t x l : tlook t (tput t x l) = Some x.
Proof. unfold tput. cbn. rewrite Nat.eqb_refl. reflexivity. Qed.
Lemma tlook_put_other t t' x l : t' <> t -> tlook t (tput t' x l) = tlook t l.
Proof. intros H. unfold tput. cbn. destruct (Nat.eqb_spec t' t); [contradiction|reflexivity]. Qed.

Lemma gettx_settx_same s t x : gettx (settx s t x) t = x.
Proof. unfold gettx, settx. cbn [m_txs]. rewrite tlook_put_same. reflexivity. Qed.
Lemma gettx_settx_other s t t' x : t' <> t -> gettx (settx s t' x) t = gettx s t.
Proof. intros H. unfold gettx, settx. cbn [m_txs]. rewrite tlook_put_other by assumption. reflexivity. Qed.

(* ---- 1. snapshot isolation: what a transaction sees does not depend on what others do after it began ---- *)

(* an operation of another transaction does not touch this transaction's state *)
Lemma other_step s o t : op_txn o <> t -> gettx (step s o) t = gettx s t.
Proof.
  intros H. unfold step. destruct o as [t'|t' d r|t' d v ok|t' d v ok|t' d ok|t' ok|t'|t' obs]; cbn [op_txn] in H; cbn [mstep].
  - cbn [fst]. apply gettx_settx_other; auto.
  - cbn [fst]. apply gettx_settx_other; auto.
  - destruct (is_some _); cbn [fst]; apply gettx_settx_other; auto.
  - cbn [fst]. apply gettx_settx_other; auto.
  - destruct (is_some _); cbn [fst]; apply gettx_settx_other; auto.
  - destruct (_ || _); cbn [fst]; [apply gettx_settx_other; auto|].
    unfold commit_tx, gettx. cbn [m_txs]. rewrite tlook_put_other by assumption. reflexivity.
  - cbn [fst]. apply gettx_settx_other; auto.
  - reflexivity.
Qed.

(* an own operation other than begin / commit changes the transaction's state as a function of that state only *)
Definition local (x : tx) (o : top) : tx :=
  match o with
  | TRead _ d _ => mkTx (t_snap x) (t_start x) (d :: t_reads x) (t_writes x) (t_open x)
  | TWrite _ d v _ => if is_some (tview x d)
                      then mkTx (t_snap x) (t_start x) (d :: t_reads x) ((d, Some v) :: t_writes x) (t_open x)
                      else mkTx (t_snap x) (t_start x) (d :: t_reads x) (t_writes x) (t_open x)
  | TCreate _ d v _ => mkTx (t_snap x) (t_start x) (t_reads x) ((d, Some v) :: t_writes x) (t_open x)
  | TDelete _ d _ => if is_some (tview x d)
                     then mkTx (t_snap x) (t_start x) (d :: t_reads x) ((d, None) :: t_writes x) (t_open x)
                     else mkTx (t_snap x) (t_start x) (d :: t_reads x) (t_writes x) (t_open x)
  | TDiscard _ => mkTx (t_snap x) (t_start x) (t_reads x) (t_writes x) false
  | _ => x
  end.

Lemma own_step s o t : op_txn o = t -> is_begin o = false -> is_commit o = false ->
  gettx (step s o) t = local (gettx s t) o.
Proof.
  intros H Hb Hc. unfold step. destruct o as [t'|t' d r|t' d v ok|t' d v ok|t' d ok|t' ok|t'|t' obs]; cbn [op_txn] in H; subst;
    try discriminate; cbn [mstep local].
  - cbn [fst]. apply gettx_settx_same.
  - destruct (is_some _); cbn [fst]; apply gettx_settx_same.
  - cbn [fst]. apply gettx_settx_same.
  - destruct (is_some _); cbn [fst]; apply gettx_settx_same.
  - cbn [fst]. apply gettx_settx_same.
  - reflexivity.
Qed.

Definition mine (t : nat) (o : top) : bool := Nat.eqb (op_txn o) t.
Definition quiet (t : nat) (ops : list top) : Prop :=
  forall o, In o ops -> op_txn o = t -> is_begin o = false /\ is_commit o = false.

Lemma run_local t ops : forall s, quiet t ops ->
  gettx (run s ops) t = fold_left local (filter (mine t) ops) (gettx s t).
Proof.
  induction ops as [|o ops IH]; intros s Hq; [reflexivity|].
  cbn [run fold_left filter]. unfold mine at 1.
  assert (Hq' : quiet t ops) by (intros o' Hin; apply Hq; right; exact Hin).
  destruct (Nat.eqb_spec (op_txn o) t) as [E|E].
  - cbn [fold_left]. destruct (Hq o (or_introl eq_refl) E) as [Hb Hc].
    rewrite <- (own_step s o t E Hb Hc). apply (IH (step s o) Hq').
  - rewrite <- (other_step s o t E). apply (IH (step s o) Hq').
Qed.

(* Between its begin and its commit, the state of a transaction (hence every value it reads) depends only on its
   own operations: two interleavings that agree on the transaction's own operations give it the same view. *)
Theorem snapshot_isolation t s ops1 ops2 : quiet t ops1 -> quiet t ops2 ->
  filter (mine t) ops1 = filter (mine t) ops2 ->
  gettx (run s ops1) t = gettx (run s ops2) t.
Proof. intros H1 H2 E. rewrite (run_local t ops1 s H1), (run_local t ops2 s H2), E. reflexivity. Qed.

(* and the snapshot it reads from is the committed state at the moment it began *)
Theorem snapshot_is_begin_state t s ops : quiet t ops ->
  t_snap (gettx (run (step s (TBegin t)) ops) t) = m_cur s.
Proof.
  intros Hq. rewrite (run_local t ops _ Hq).
  assert (G : forall l x, t_snap (fold_left local l x) = t_snap x).
  { induction l as [|o l IHl]; intros x; [reflexivity|]. cbn [fold_left]. rewrite IHl.
    destruct o; cbn [local]; try reflexivity; destruct (is_some _); reflexivity. }
  rewrite G. unfold step. cbn [mstep fst]. rewrite gettx_settx_same. reflexivity.
Qed.

Theorem read_is_view s t d r : snd (mstep s (TRead t d r)) = PVal (tview (gettx s t) d).
Proof. reflexivity. Qed.

(* ---- 2. atomic visibility: the committed state changes only by a whole write set at a successful commit ---- *)
Theorem visibility_step s o :
  m_cur (step s o) = m_cur s \/
  (exists t ok, o = TCommit t ok /\ snd (mstep s o) = POk true /\ m_cur (step s o) = t_writes (gettx s t) ++ m_cur s).
Proof.
  unfold step. destruct o as [t|t d r|t d v ok|t d v ok|t d ok|t ok|t|t obs]; cbn [mstep]; try (left; reflexivity).
  - destruct (is_some _); left; reflexivity.
  - destruct (is_some _); left; reflexivity.
  - destruct (_ || _) eqn:E; [left; reflexivity|]. right. exists t, ok. repeat split.
Qed.

(* ---- 3. no lost update ---- *)
Definition ver_inv (s : mv) : Prop := forall d, vlook d (m_ver s) <= m_clock s.

Lemma vlook_app_map d w c rest :
  vlook d (map (fun kv : doc * value => (fst kv, c)) w ++ rest) = if existsb (fun kv => Nat.eqb (fst kv) d) w then c else vlook d rest.
Proof.
  induction w as [|[d' v] w IH]; [reflexivity|]. cbn [map app vlook existsb fst].
  destruct (Nat.eqb d' d); [reflexivity | exact IH].
Qed.

Lemma step_ver s o : ver_inv s ->
  ver_inv (step s o) /\ m_clock s <= m_clock (step s o) /\ (forall d, vlook d (m_ver s) <= vlook d (m_ver (step s o))).
Proof.
  intros HI. unfold step.
  assert (Triv : forall t x, ver_inv (settx s t x) /\ m_clock s <= m_clock (settx s t x) /\
                   (forall d, vlook d (m_ver s) <= vlook d (m_ver (settx s t x)))).
  { intros t x. cbn [settx m_ver m_clock]. repeat split; auto. }
  destruct o as [t|t d r|t d v ok|t d v ok|t d ok|t ok|t|t obs]; cbn [mstep].
  - apply Triv.
  - apply Triv.
  - destruct (is_some (tview (gettx s t) d)); apply Triv.
  - apply Triv.
  - destruct (is_some (tview (gettx s t) d)); apply Triv.
  - destruct (negb (t_open (gettx s t)) || conflicts s (gettx s t)); [apply Triv|].
    unfold ver_inv, commit_tx. cbn [fst m_ver m_clock]. split; [|split; [lia|]].
    + intros d. rewrite vlook_app_map. destruct (existsb _ _); [lia | specialize (HI d); lia].
    + intros d. rewrite vlook_app_map. destruct (existsb _ _); [specialize (HI d); lia | lia].
  - apply Triv.
  - cbn [fst]. repeat split; auto.
Qed.

Lemma run_ver ops : forall s, ver_inv s ->
  ver_inv (run s ops) /\ (forall d, vlook d (m_ver s) <= vlook d (m_ver (run s ops))).
Proof.
  induction ops as [|o ops IH]; intros s HI; [split; auto|].
  cbn [run fold_left]. destruct (step_ver s o HI) as (H1 & _ & H3). destruct (IH (step s o) H1) as [G1 G2].
  split; auto. intros d. specialize (H3 d). specialize (G2 d). unfold run in G2. lia.
Qed.

Lemma local_keeps x o d : In d (map fst (t_writes x)) -> In d (map fst (t_writes (local x o))) /\ t_start (local x o) = t_start x.
Proof.
  intros H. destruct o; cbn [local]; try (split; [exact H|reflexivity]);
    try (destruct (is_some _); cbn [t_writes t_start map fst]; split; auto; right; exact H).
  cbn [t_writes t_start map fst]. split; auto. right; exact H.
Qed.

(* T1 and T2 overlap (T2 began before T1 commits), both wrote document d, T1 commits successfully:
   whatever happens afterwards (any operations of any transactions, T2 not beginning anew), T2's commit is refused. *)
Theorem no_lost_update s t1 t2 d ok1 ops ok2 :
  ver_inv s -> t1 <> t2 ->
  In d (map fst (t_writes (gettx s t1))) -> In d (map fst (t_writes (gettx s t2))) ->
  t_start (gettx s t2) <= m_clock s ->
  snd (mstep s (TCommit t1 ok1)) = POk true ->
  quiet t2 ops ->
  snd (mstep (run (step s (TCommit t1 ok1)) ops) (TCommit t2 ok2)) = POk false.
Proof.
  intros HI Hne H1 H2 Hst Hc Hq.
  set (s1 := step s (TCommit t1 ok1)). set (s2 := run s1 ops).
  (* version of d after T1's commit *)
  assert (Hv1 : m_clock s < vlook d (m_ver s1)).
  { unfold s1, step. cbn [mstep] in *. destruct (_ || _) eqn:E; [cbn in Hc; discriminate|].
    unfold commit_tx. cbn [fst m_ver]. rewrite vlook_app_map.
    assert (Hex : existsb (fun kv : nat * value => Nat.eqb (fst kv) d) (t_writes (gettx s t1)) = true).
    { apply in_map_iff in H1. destruct H1 as [[d' v] [Hd Hin]]. cbn in Hd. subst d'.
      apply existsb_exists. exists (d, v). split; auto. cbn. apply Nat.eqb_refl. }
    rewrite Hex. lia. }
  assert (HI1 : ver_inv s1) by (apply (step_ver s (TCommit t1 ok1) HI)).
  destruct (run_ver ops s1 HI1) as [_ Hmono]. fold s2 in Hmono.
  (* T2's transaction state in s2 *)
  assert (Hx2 : gettx s1 t2 = gettx s t2) by (apply other_step; cbn; auto).
  assert (Hl : gettx s2 t2 = fold_left local (filter (mine t2) ops) (gettx s t2)).
  { unfold s2. rewrite (run_local t2 ops s1 Hq), Hx2. reflexivity. }
  assert (Hk : forall l x, In d (map fst (t_writes x)) ->
                 In d (map fst (t_writes (fold_left local l x))) /\ t_start (fold_left local l x) = t_start x).
  { induction l as [|o l IHl]; intros x Hx; [split; auto|]. cbn [fold_left].
    destruct (local_keeps x o d Hx) as [Hw Hs]. destruct (IHl _ Hw) as [G1 G2]. split; auto. congruence. }
  destruct (Hk (filter (mine t2) ops) (gettx s t2) H2) as [Hw2 Hs2]. rewrite <- Hl in Hw2, Hs2.
  cbn [mstep]. assert (Hconf : conflicts s2 (gettx s2 t2) = true).
  { unfold conflicts. apply andb_true_intro. split.
    - destruct (t_writes (gettx s2 t2)); [destruct Hw2 | reflexivity].
    - apply existsb_exists. exists d. split; [apply in_or_app; right; exact Hw2|].
      apply Nat.ltb_lt. specialize (Hmono d). lia. }
  rewrite Hconf, orb_true_r. reflexivity.
Qed.

(* ---- 4. a discarded transaction leaves no trace ---- *)
Theorem discard_no_trace s t : m_cur (step s (TDiscard t)) = m_cur s /\ m_ver (step s (TDiscard t)) = m_ver s.
Proof. split; reflexivity. Qed.

Theorem discarded_never_commits s t ops ok : quiet t ops ->
  snd (mstep (run (step s (TDiscard t)) ops) (TCommit t ok)) = POk false.
Proof.
  intros Hq. cbn [mstep].
  assert (Ho : t_open (gettx (run (step s (TDiscard t)) ops) t) = false).
  { rewrite (run_local t ops _ Hq).
    assert (G : forall l x, t_open x = false -> t_open (fold_left local l x) = false).
    { induction l as [|o l IHl]; intros x Hx; [exact Hx|]. cbn [fold_left]. apply IHl.
      destruct o; cbn [local]; auto; destruct (is_some _); exact Hx. }
    apply G. unfold step. cbn [mstep fst]. rewrite gettx_settx_same. reflexivity. }
  rewrite Ho. reflexivity.
Qed.

(* ---- 5. listings: a listing inside a transaction shows exactly the documents that exist in its view ---- *)
Lemma in_ins_nat x y l : In x (ins_nat y l) <-> x = y \/ In x l.
Proof.
  induction l as [|z l IH]; cbn [ins_nat]; [cbn; intuition|].
  destruct (y <=? z); cbn [In]; [intuition|]. rewrite IH. intuition.
Qed.
Lemma in_sorted l x : In x (fold_right ins_nat [] l) <-> In x l.
Proof. induction l as [|y l IH]; cbn [fold_right In]; [tauto|]. rewrite in_ins_nat, IH. intuition. Qed.

Lemma keys_of_spec m : forall seen d, In d (keys_of m seen) <-> In d (map fst m) /\ ~ In d seen.
Proof.
  induction m as [|[k v] m IH]; intros seen d; cbn [keys_of map fst In]; [tauto|].
  destruct (existsb (Nat.eqb k) seen) eqn:E.
  - rewrite IH. apply existsb_exists in E. destruct E as [z [Hz Ez]]. apply Nat.eqb_eq in Ez. subst z.
    split; [tauto|]. intros [[->|H] Hn]; [contradiction|tauto].
  - cbn [In]. rewrite IH. cbn [In].
    assert (Hk : ~ In k seen).
    { intros H. assert (existsb (Nat.eqb k) seen = true) by (apply existsb_exists; exists k; split; auto; apply Nat.eqb_refl). congruence. }
    split.
    + intros [->|[H1 H2]]; [tauto|]. split; [tauto|]. intros H; apply H2; right; exact H.
    + intros [[->|H1] H2]; [left; reflexivity|]. destruct (Nat.eq_dec k d) as [->|Hne]; [left; reflexivity|].
      right. split; auto. intros [H|H]; [contradiction|tauto].
Qed.

Lemma dlook_in d m v : dlook d m = Some v -> In d (map fst m).
Proof.
  induction m as [|[k w] m IH]; cbn [dlook map fst In]; [discriminate|].
  destruct (Nat.eqb_spec k d) as [->|Hne]; [auto | intros H; right; auto].
Qed.

Lemma visible_in_keys x d : is_some (tview x d) = true -> In d (map fst (t_writes x ++ t_snap x)).
Proof.
  unfold tview, dget. rewrite map_app, in_app_iff. destruct (dlook d (t_writes x)) eqn:E1.
  - intros _. left. eapply dlook_in; eauto.
  - destruct (dlook d (t_snap x)) eqn:E2; [|discriminate]. intros _. right. eapply dlook_in; eauto.
Qed.

Theorem list_is_view s t obs :
  snd (mstep s (TList t obs)) = PList (view_docs (gettx s t)) /\
  (forall d, In d (view_docs (gettx s t)) <-> is_some (tview (gettx s t) d) = true) /\
  fst (mstep s (TList t obs)) = s.
Proof.
  split; [reflexivity|]. split; [|reflexivity]. intros d. unfold view_docs. rewrite in_sorted, filter_In, keys_of_spec.
  split; [tauto|]. intros H. split; auto. split; [now apply visible_in_keys | tauto].
Qed.

(* what the listing shows depends on the transaction's own operations only *)
Theorem listing_isolated t s ops1 ops2 obs : quiet t ops1 -> quiet t ops2 ->
  filter (mine t) ops1 = filter (mine t) ops2 ->
  snd (mstep (run s ops1) (TList t obs)) = snd (mstep (run s ops2) (TList t obs)).
Proof. intros H1 H2 E. cbn [mstep snd]. now rewrite (snapshot_isolation t s ops1 ops2 H1 H2 E). Qed.
