(* A node = persistent store + volatile caches rebuilt from the store when the node is opened (internal/db/db.go:
   initialize / loadSchema; description caches; sequences are read from the store on every use).
   Operations transform the store (one atomic commit each) and update the caches in place; queries are answered from
   both.  The caches are an abstract function [load] of the store; what the code must guarantee - and what the
   correspondence run checks on real nodes after every operation - is that the in-place update of every operation
   produces exactly what [load] would rebuild. *)
From Coq Require Import List Arith Bool Lia.
Import ListNotations.

Section Restart.
  Variables store cache op query result : Type.
  Variable load : store -> cache.
  Variable apply_store : op -> store -> store.
  Variable apply_cache : op -> store -> cache -> cache.          (* in-place cache maintenance of the running node *)
  Variable answer : store -> cache -> query -> result.

  Record node := { n_store : store; n_cache : cache }.
  Definition open (s : store) : node := {| n_store := s; n_cache := load s |}.
  Definition coherent (n : node) : Prop := n_cache n = load (n_store n).

  Inductive event := Do (o : op) | Restart | Ask (q : query).

  Definition step (n : node) (e : event) : node * list result :=
    match e with
    | Do o => ({| n_store := apply_store o (n_store n); n_cache := apply_cache o (n_store n) (n_cache n) |}, [])
    | Restart => (open (n_store n), [])
    | Ask q => (n, [answer (n_store n) (n_cache n) q])
    end.

  Fixpoint run (n : node) (es : list event) : node * list result :=
    match es with
    | [] => (n, [])
    | e :: r => let '(n1, o1) := step n e in let '(n2, o2) := run n1 r in (n2, o1 ++ o2)
    end.

  (* the history without its restarts: what the twin that never stopped executes *)
  Definition strip (es : list event) : list event :=
    filter (fun e => match e with Restart => false | _ => true end) es.

  (* the obligation on the code: every operation leaves the caches as a fresh load would build them *)
  Hypothesis op_coherent : forall o s, apply_cache o s (load s) = load (apply_store o s).

  Lemma step_coherent n e : coherent n -> coherent (fst (step n e)).
  Proof.
    unfold coherent. destruct e as [o| |q]; cbn [step fst n_store n_cache open]; auto.
    intros H. rewrite H. apply op_coherent.
  Qed.

  Lemma coherent_eq (n m : node) : coherent n -> coherent m -> n_store n = n_store m -> n = m.
  Proof. destruct n, m. unfold coherent. cbn. intros -> -> ->. reflexivity. Qed.

  Theorem restart_bisimulation : forall es n, coherent n ->
    run n es = run n (strip es).
  Proof.
    induction es as [|e es IH]; intros n Hc; [reflexivity|].
    destruct e as [o| |q].
    - cbn [strip filter run]. fold (strip es).
      destruct (step n (Do o)) as [n1 o1] eqn:E.
      assert (Hc1 : coherent n1) by (replace n1 with (fst (step n (Do o))) by (now rewrite E); now apply step_coherent).
      now rewrite (IH n1 Hc1).
    - cbn [strip filter]. fold (strip es). cbn [run step].
      assert (E : open (n_store n) = n) by (apply coherent_eq; auto; reflexivity).
      rewrite E. cbn [app]. destruct (run n es) as [n2 o2] eqn:E2. rewrite <- (IH n Hc), E2. reflexivity.
    - cbn [strip filter run]. fold (strip es).
      destruct (step n (Ask q)) as [n1 o1] eqn:E.
      assert (Hc1 : coherent n1) by (replace n1 with (fst (step n (Ask q))) by (now rewrite E); now apply step_coherent).
      now rewrite (IH n1 Hc1).
  Qed.

  (* opening the store as of any completed commit gives the node the twin was at that point *)
  Corollary open_at_any_commit : forall es1 es2 s0,
    let n1 := fst (run (open s0) es1) in
    run (open (n_store n1)) es2 = run n1 es2.
  Proof.
    intros es1 es2 s0 n1.
    assert (Hc : coherent n1).
    { subst n1. assert (G : forall es n, coherent n -> coherent (fst (run n es))).
      { induction es as [|e es IH]; intros n H; cbn [run]; auto.
        destruct (step n e) as [m o] eqn:E. specialize (IH m).
        destruct (run m es) as [m2 o2]. cbn [fst] in *. apply IH.
        replace m with (fst (step n e)) by (now rewrite E). now apply step_coherent. }
      apply G. reflexivity. }
    f_equal. apply coherent_eq; auto; reflexivity.
  Qed.
End Restart.

(* ---- identifier sequences (internal/db/sequence/sequence.go): read, +1, write, inside the caller's transaction ---- *)
Definition seq_next (s : nat) : nat * nat := (S s, S s).          (* new stored value, issued id *)

Inductive sev := Issue | Reopen.
Fixpoint seq_run (s : nat) (es : list sev) : list nat :=
  match es with
  | [] => []
  | Issue :: r => let '(s', id) := seq_next s in id :: seq_run s' r
  | Reopen :: r => seq_run s r                                     (* nothing is cached: reopening changes nothing *)
  end.

Lemma seq_run_lower s es : Forall (fun id => s < id) (seq_run s es).
Proof.
  revert s. induction es as [|e es IH]; intros s; cbn [seq_run]; [constructor|].
  destruct e; cbn [seq_next]; auto. constructor; [lia|].
  eapply Forall_impl; [|apply IH]. cbn. intros a Ha. lia.
Qed.

Theorem seq_never_reused : forall s es, NoDup (seq_run s es).
Proof.
  intros s es. revert s. induction es as [|e es IH]; intros s; cbn [seq_run]; [constructor|].
  destruct e; cbn [seq_next]; auto. constructor; auto.
  intros Hin. pose proof (seq_run_lower (S s) es) as H. rewrite Forall_forall in H. specialize (H _ Hin). lia.
Qed.
