(* Multi-version store with optimistic transactions, at document granularity, as the database exposes it through
   client.Txn (Badger SSI wrapped by corekv): a transaction reads its snapshot overlaid with its own writes;
   commit fails with a conflict iff the transaction wrote something and a document it read or wrote was
   committed by another transaction after its snapshot was taken; discard drops the write set. *)
From Coq Require Import List ZArith Arith Bool Lia.
Import ListNotations.
Local Open Scope nat_scope.

Definition doc := nat.
Definition value := option Z.                       (* None: the document does not exist *)
Definition dmap := list (doc * value).              (* latest binding first *)
Fixpoint dlook (d : doc) (m : dmap) : option value :=
  match m with [] => None | (d', v) :: r => if Nat.eqb d' d then Some v else dlook d r end.
Definition dget (d : doc) (m : dmap) : value := match dlook d m with Some v => v | None => None end.

Record tx := mkTx {
  t_snap : dmap;            (* committed state when the transaction began *)
  t_start : nat;            (* commit counter when it began *)
  t_reads : list doc;
  t_writes : dmap;          (* own writes, latest first *)
  t_open : bool }.

Record mv := mkMv {
  m_cur : dmap;                    (* committed state *)
  m_ver : list (doc * nat);        (* commit counter of the last committed write of each document *)
  m_clock : nat;
  m_txs : list (nat * tx) }.

Fixpoint tlook (t : nat) (l : list (nat * tx)) : option tx :=
  match l with [] => None | (t', x) :: r => if Nat.eqb t' t then Some x else tlook t r end.
Definition tput (t : nat) (x : tx) (l : list (nat * tx)) : list (nat * tx) := (t, x) :: l.
Fixpoint vlook (d : doc) (l : list (doc * nat)) : nat :=
  match l with [] => O | (d', v) :: r => if Nat.eqb d' d then v else vlook d r end.

Definition tview (x : tx) (d : doc) : value :=
  match dlook d (t_writes x) with Some v => v | None => dget d (t_snap x) end.

Inductive top :=
| TBegin (t : nat)
| TRead (t : nat) (d : nat) (r : value)
| TWrite (t : nat) (d : nat) (v : Z) (ok : bool)          (* update: ok iff the document is visible *)
| TCreate (t : nat) (d : nat) (v : Z) (ok : bool)
| TDelete (t : nat) (d : nat) (ok : bool)
| TCommit (t : nat) (ok : bool)
| TDiscard (t : nat)
| TList (t : nat) (obs : list nat).                       (* listing of the documents of the collection *)

(* the documents a transaction's listing shows: those that exist in its view (snapshot overlaid with its own writes) *)
Fixpoint ins_nat (x : nat) (l : list nat) : list nat :=
  match l with [] => [x] | y :: r => if Nat.leb x y then x :: l else y :: ins_nat x r end.
Fixpoint keys_of (m : dmap) (seen : list nat) : list nat :=
  match m with
  | [] => []
  | (d, _) :: r => if existsb (Nat.eqb d) seen then keys_of r seen else d :: keys_of r (d :: seen)
  end.

Definition dummy_tx : tx := mkTx [] 0 [] [] false.
Definition gettx (s : mv) (t : nat) : tx := match tlook t (m_txs s) with Some x => x | None => dummy_tx end.
Definition settx (s : mv) (t : nat) (x : tx) : mv := mkMv (m_cur s) (m_ver s) (m_clock s) (tput t x (m_txs s)).

(* conflict: the transaction has writes and a document it touched has a committed version newer than its start *)
Definition conflicts (s : mv) (x : tx) : bool :=
  negb (match t_writes x with [] => true | _ => false end) &&
  existsb (fun d => t_start x <? vlook d (m_ver s)) (t_reads x ++ map fst (t_writes x)).

Definition commit_tx (s : mv) (t : nat) (x : tx) : mv :=
  let c := S (m_clock s) in
  mkMv (t_writes x ++ m_cur s)
       (map (fun kv => (fst kv, c)) (t_writes x) ++ m_ver s)
       c
       (tput t (mkTx (t_snap x) (t_start x) (t_reads x) (t_writes x) false) (m_txs s)).

(* the model step returns the predicted observable: the value read / whether the operation or commit succeeds *)
Inductive pred := PNone | PVal (v : value) | POk (b : bool) | PList (l : list nat).

Definition is_some (v : value) : bool := match v with Some _ => true | None => false end.
Definition view_docs (x : tx) : list nat :=
  fold_right ins_nat [] (filter (fun d => is_some (tview x d)) (keys_of (t_writes x ++ t_snap x) [])).

Definition mstep (s : mv) (o : top) : mv * pred :=
  match o with
  | TBegin t => (settx s t (mkTx (m_cur s) (m_clock s) [] [] true), PNone)
  | TRead t d _ => let x := gettx s t in
      (settx s t (mkTx (t_snap x) (t_start x) (d :: t_reads x) (t_writes x) (t_open x)), PVal (tview x d))
  | TWrite t d v _ => let x := gettx s t in
      if is_some (tview x d)
      then (settx s t (mkTx (t_snap x) (t_start x) (d :: t_reads x) ((d, Some v) :: t_writes x) (t_open x)), POk true)
      else (settx s t (mkTx (t_snap x) (t_start x) (d :: t_reads x) (t_writes x) (t_open x)), POk false)
  | TCreate t d v _ => let x := gettx s t in
      (settx s t (mkTx (t_snap x) (t_start x) (t_reads x) ((d, Some v) :: t_writes x) (t_open x)), POk true)
  | TDelete t d _ => let x := gettx s t in
      if is_some (tview x d)
      then (settx s t (mkTx (t_snap x) (t_start x) (d :: t_reads x) ((d, None) :: t_writes x) (t_open x)), POk true)
      else (settx s t (mkTx (t_snap x) (t_start x) (d :: t_reads x) (t_writes x) (t_open x)), POk false)
  | TCommit t _ => let x := gettx s t in
      if negb (t_open x) || conflicts s x
      then (settx s t (mkTx (t_snap x) (t_start x) (t_reads x) (t_writes x) false), POk false)
      else (commit_tx s t x, POk true)
  | TDiscard t => let x := gettx s t in
      (settx s t (mkTx (t_snap x) (t_start x) (t_reads x) (t_writes x) false), PNone)
  | TList t _ => (s, PList (view_docs (gettx s t)))
  end.

Definition minit (init : dmap) : mv := mkMv init [] 0 [].
Definition mrun (init : dmap) (ops : list top) : mv := fold_left (fun s o => fst (mstep s o)) ops (minit init).
