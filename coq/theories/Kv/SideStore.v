(* A transaction whose operations also write a store that is NOT part of the transaction (C06, finding F62): creating
   a document of a collection under access control registers the document with the access-control engine at once
   (internal/db/collection_acp.go: registerDocWithACP, called from create), while the document itself is written to the
   transaction. A discard (or a lost conflict) drops the document and keeps the registration; a registration makes a
   later create of the same document fail. The model has the two stores and the pinned ordering, plus the ordering that
   defers the registration to the commit. *)
From Coq Require Import List Arith Bool.
Import ListNotations.

Record world := mkW { docs : list nat; registered : list nat }.           (* committed documents; registrations *)
Record txn := mkT { pending : list nat; deferred : list nat }.             (* own creates; registrations to make *)

Definition mem (d : nat) (l : list nat) : bool := existsb (Nat.eqb d) l.

(* create inside a transaction; [eager] = register at once (pinned) *)
Definition create (eager : bool) (w : world) (t : txn) (d : nat) : world * txn * bool :=
  if mem d (registered w) || mem d (deferred t) then (w, t, false)        (* "already registered": refused *)
  else if eager then (mkW (docs w) (d :: registered w), mkT (d :: pending t) (deferred t), true)
  else (w, mkT (d :: pending t) (d :: deferred t), true).
Definition commit (w : world) (t : txn) : world := mkW (pending t ++ docs w) (deferred t ++ registered w).
Definition discard (w : world) (t : txn) : world := w.

Definition empty : txn := mkT [] [].

(* a discarded transaction leaves no trace: with deferred registration the world is untouched and the same create
   succeeds afterwards *)
Theorem deferred_registration_discard_no_trace w d :
  mem d (registered w) = false ->
  let '(w1, t1, ok1) := create false w empty d in
  ok1 = true /\ discard w1 t1 = w /\ snd (create false (discard w1 t1) empty d) = true.
Proof.
  intros H. unfold create, empty. cbn [deferred]. change (mem d []) with false. rewrite H. cbn [orb pending].
  repeat split; auto. unfold discard. rewrite H. reflexivity.
Qed.

(* pinned ordering: after the discard the document does not exist and can never be created again *)
Theorem eager_registration_refuted w d :
  mem d (registered w) = false ->
  let '(w1, t1, ok1) := create true w empty d in
  ok1 = true /\ mem d (docs (discard w1 t1)) = mem d (docs w) /\
  discard w1 t1 <> w /\ snd (create true (discard w1 t1) empty d) = false.
Proof.
  intros H. unfold create, empty. cbn [deferred]. change (mem d []) with false. rewrite H. cbn [orb pending].
  unfold discard. cbn [docs registered]. repeat split; auto.
  - intros E. assert (L : length (registered (mkW (docs w) (d :: registered w))) = length (registered w)) by (now rewrite E).
    cbn [registered length] in L. revert L. clear. induction (length (registered w)); intros L; inversion L; auto.
  - unfold mem at 1. cbn [existsb]. rewrite Nat.eqb_refl. reflexivity.
Qed.
