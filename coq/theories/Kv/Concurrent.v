(* Concurrent use of one node (C16), at the level of one document: goroutines run read-modify-write transactions
   with optimistic conflict detection (Badger: a commit fails when a key read by the transaction was written by a
   transaction that committed after the reader began).  A schedule is any interleaving of Begin / Commit events of any
   number of attempts; an attempt adds its delta (a counter increment) on top of the value it read.
   Theorem: whatever the schedule, the final value is the initial value plus the deltas of exactly the attempts whose
   commit succeeded; an attempt that reported a conflict has no effect. *)
From Coq Require Import List ZArith Arith Bool Lia.
Import ListNotations.
Open Scope Z_scope.

Record store := { value : Z; version : nat }.                       (* version = number of commits so far *)

Inductive event :=
| Begin (a : nat)                                                    (* attempt a takes its snapshot *)
| Commit (a : nat) (delta : Z).                                      (* attempt a tries to commit snapshot value + delta *)

(* snapshots: attempt -> (value, version) it read *)
Definition snaps := list (nat * (Z * nat)).
Fixpoint snap_of (sn : snaps) (a : nat) : option (Z * nat) :=
  match sn with [] => None | (b, s) :: r => if Nat.eqb b a then Some s else snap_of r a end.

Record state := { st : store; sn : snaps; ok : list (nat * Z); failed : list nat }.

Definition step (s : state) (e : event) : state :=
  match e with
  | Begin a => {| st := st s; sn := (a, (value (st s), version (st s))) :: sn s; ok := ok s; failed := failed s |}
  | Commit a d =>
      match snap_of (sn s) a with
      | None => s                                                     (* commit without begin: not an attempt *)
      | Some (v0, ver0) =>
          if Nat.eqb ver0 (version (st s))
          then {| st := {| value := v0 + d; version := S (version (st s)) |}; sn := sn s; ok := (a, d) :: ok s; failed := failed s |}
          else {| st := st s; sn := sn s; ok := ok s; failed := a :: failed s |}   (* conflict: nothing written *)
      end
  end.

Definition run (s : state) (es : list event) : state := fold_left step es s.
Definition start (v : Z) : state := {| st := {| value := v; version := 0 |}; sn := []; ok := []; failed := [] |}.

Definition sum_ok (l : list (nat * Z)) : Z := fold_right (fun p acc => snd p + acc) 0 l.

(* invariant: the value is the initial value plus the successful deltas, and every snapshot taken at the current
   version holds the current value *)
Definition Inv (v0 : Z) (s : state) : Prop :=
  value (st s) = v0 + sum_ok (ok s) /\
  (forall a v ver, snap_of (sn s) a = Some (v, ver) -> ver = version (st s) -> v = value (st s)) /\
  (forall a v ver, snap_of (sn s) a = Some (v, ver) -> (ver <= version (st s))%nat).

Lemma inv_step v0 s e : Inv v0 s -> Inv v0 (step s e).
Proof.
  intros [H1 [H2 H3]]. destruct e as [a|a d]; cbn [step].
  - split; [|split]; cbn [st sn ok]; auto.
    + intros b v ver Hs Hv. cbn [snap_of] in Hs.
      destruct (Nat.eqb a b); [inversion Hs; subst; reflexivity|eapply H2; eauto].
    + intros b v ver Hs. cbn [snap_of] in Hs.
      destruct (Nat.eqb a b); [inversion Hs; subst; lia|eapply H3; eauto].
  - destruct (snap_of (sn s) a) as [[v ver]|] eqn:Es; [|split; [|split]; auto].
    destruct (Nat.eqb ver (version (st s))) eqn:Ev.
    + apply Nat.eqb_eq in Ev. pose proof (H2 a v ver Es Ev) as Hv.
      split; [|split]; cbn [st sn ok value version sum_ok fold_right snd].
      * fold (sum_ok (ok s)). lia.
      * intros b v' ver' Hs Hver. specialize (H3 b v' ver' Hs). lia.
      * intros b v' ver' Hs. specialize (H3 b v' ver' Hs). lia.
    + split; [|split]; cbn [st sn ok]; auto.
Qed.

Theorem no_committed_effect_lost : forall v0 es,
  value (st (run (start v0) es)) = v0 + sum_ok (ok (run (start v0) es)).
Proof.
  intros v0 es. assert (H : Inv v0 (start v0)) by (split; [|split]; cbn; [lia|intros; discriminate|intros; discriminate]).
  revert H. unfold run. generalize (start v0). induction es as [|e es IH]; intros s H; cbn [fold_left].
  - apply H.
  - apply IH. now apply inv_step.
Qed.

(* a conflicting attempt changes nothing *)
Theorem conflict_has_no_effect : forall s a d v ver,
  snap_of (sn s) a = Some (v, ver) -> ver <> version (st s) -> st (step s (Commit a d)) = st s.
Proof.
  intros s a d v ver Hs Hv. cbn [step]. rewrite Hs.
  destruct (Nat.eqb ver (version (st s))) eqn:E; [apply Nat.eqb_eq in E; contradiction|reflexivity].
Qed.

Example interleaving :
  let s := run (start 10) [Begin 1; Begin 2; Commit 1 5; Commit 2 7; Begin 3; Commit 3 1] in
  value (st s) = 16 /\ failed s = [2%nat].
Proof. vm_compute. auto. Qed.
