(* Transactions over a key-value store, as the database uses them for one API call:
   ensureContextTxn creates a transaction, every store operation of the call goes through it, the call's
   deferred Discard drops it, Commit is reached only on the success path, success callbacks (event publication)
   run after a successful commit.  Programs are trees: the continuation of every operation receives the result of
   the operation, which may be an injected failure. *)
From Coq Require Import List ZArith Bool Lia.
Import ListNotations.
Local Open Scope Z_scope.

Definition key := Z.
Definition val := Z.
Definition store := key -> option val.
Definition sempty : store := fun _ => None.
Definition supd (s : store) (k : key) (v : option val) : store := fun k' => if Z.eqb k' k then v else s k'.

(* a transaction: reads see the snapshot overlaid with its own writes *)
Record txn := mkT { snap : store; writes : list (key * option val); callbacks : list Z }.
Definition tbegin (s : store) : txn := mkT s [] [].
Fixpoint wlookup (k : key) (w : list (key * option val)) : option (option val) :=
  match w with
  | [] => None
  | (k', v) :: r => if Z.eqb k' k then Some v else wlookup k r
  end.
Definition tget (t : txn) (k : key) : option val :=
  match wlookup k (writes t) with Some v => v | None => snap t k end.
Definition tset (t : txn) (k : key) (v : option val) : txn := mkT (snap t) ((k, v) :: writes t) (callbacks t).
Definition tcb (t : txn) (e : Z) : txn := mkT (snap t) (writes t) (e :: callbacks t).
(* commit: the write set applied oldest first *)
Definition apply_writes (w : list (key * option val)) (s : store) : store :=
  fold_right (fun kv acc => supd acc (fst kv) (snd kv)) s w.

(* ---- programs ---- *)
Inductive prog :=
| Ret (ok : bool)
| PGet (k : key) (cont : option (option val) -> prog)      (* None: the store returned an error *)
| PSet (k : key) (v : option val) (cont : bool -> prog)    (* set / delete; false: the store returned an error *)
| POnSuccess (e : Z) (p : prog).                           (* txn.OnSuccess(publish e) *)

(* a program propagates errors: once a store operation has failed its result is an error *)
Fixpoint fails (p : prog) (fuel : nat) {struct fuel} : Prop :=
  match fuel with
  | O => False
  | S f => match p with
           | Ret ok => ok = false
           | PGet _ c => forall r, fails (c r) f
           | PSet _ _ c => forall r, fails (c r) f
           | POnSuccess _ q => fails q f
           end
  end.
Fixpoint propagates (p : prog) (fuel : nat) {struct fuel} : Prop :=
  match fuel with
  | O => False
  | S f => match p with
           | Ret _ => True
           | PGet _ c => fails (c None) f /\ forall r, propagates (c (Some r)) f
           | PSet _ _ c => fails (c false) f /\ propagates (c true) f
           | POnSuccess _ q => propagates q f
           end
  end.

(* fault schedule: which operation index fails *)
Definition sched := nat -> bool.

Record rres := mkRes { r_ok : bool; r_txn : txn; r_n : nat; r_hit : bool }.

Fixpoint run (p : prog) (fuel : nat) (sc : sched) (n : nat) (t : txn) (hit : bool) {struct fuel} : rres :=
  match fuel with
  | O => mkRes false t n hit
  | S f => match p with
           | Ret ok => mkRes ok t n hit
           | PGet k c => if sc n then run (c None) f sc (S n) t true else run (c (Some (tget t k))) f sc (S n) t hit
           | PSet k v c => if sc n then run (c false) f sc (S n) t true else run (c true) f sc (S n) (tset t k v) hit
           | POnSuccess e q => run q f sc n (tcb t e) hit
           end
  end.

(* the API call: implicit transaction, deferred discard, commit on the success path (it can fail too),
   callbacks after a successful commit. Result: (reported ok, store afterwards, events published) *)
Definition call (p : prog) (fuel : nat) (sc : sched) (s : store) : bool * store * list Z :=
  let r := run p fuel sc O (tbegin s) false in
  if r_ok r then (if sc (r_n r) then (false, s, []) else (true, apply_writes (writes (r_txn r)) s, rev (callbacks (r_txn r))))
  else (false, s, []).

Definition no_fault : sched := fun _ => false.

(* ---- all-or-nothing ---- *)
Lemma fails_run p : forall fuel sc n t hit, fails p fuel -> r_ok (run p fuel sc n t hit) = false.
Proof.
  intros fuel; revert p. induction fuel as [|f IH]; intros p sc n t hit H; [cbn in H; contradiction|].
  destruct p as [ok|k c|k v c|e q]; cbn [run fails r_ok] in *.
  - exact H.
  - destruct (sc n); apply IH; apply H.
  - destruct (sc n); apply IH; apply H.
  - apply IH; exact H.
Qed.

(* a propagating program that was hit by a fault reports an error *)
Lemma hit_fails p : forall fuel sc n t hit, propagates p fuel ->
  r_hit (run p fuel sc n t hit) = true -> hit = false -> r_ok (run p fuel sc n t hit) = false.
Proof.
  intros fuel; revert p. induction fuel as [|f IH]; intros p sc n t hit H Hh Hi; [cbn in H; contradiction|].
  destruct p as [ok|k c|k v c|e q]; cbn [run propagates r_ok r_hit] in *.
  - congruence.
  - destruct H as [Hf Hp]. destruct (sc n); [apply fails_run; exact Hf | apply IH; auto].
  - destruct H as [Hf Hp]. destruct (sc n); [apply fails_run; exact Hf | apply IH; auto].
  - apply IH; auto.
Qed.

Lemma hit_mono p : forall fuel sc n t, r_hit (run p fuel sc n t true) = true.
Proof.
  intros fuel; revert p. induction fuel as [|f IH]; intros p sc n t; [reflexivity|].
  destruct p as [ok|k c|k v c|e q]; cbn [run r_hit]; auto; destruct (sc n); auto.
Qed.

(* a run that was not hit coincides with the fault-free run *)
Lemma unhit_eq p : forall fuel sc n t, r_hit (run p fuel sc n t false) = false ->
  run p fuel sc n t false = run p fuel no_fault n t false.
Proof.
  intros fuel; revert p. induction fuel as [|f IH]; intros p sc n t H; [reflexivity|].
  destruct p as [ok|k c|k v c|e q]; cbn [run] in *; auto.
  - unfold no_fault at 1. destruct (sc n); [rewrite hit_mono in H; discriminate | apply IH; exact H].
  - unfold no_fault at 1. destruct (sc n); [rewrite hit_mono in H; discriminate | apply IH; exact H].
Qed.

Theorem all_or_nothing p fuel sc s : propagates p fuel ->
  let '(ok, s', evs) := call p fuel sc s in
  (ok = false /\ s' = s /\ evs = []) \/
  (ok = true /\ (ok, s', evs) = call p fuel no_fault s).
Proof.
  intros Hp. unfold call.
  destruct (r_ok (run p fuel sc 0 (tbegin s) false)) eqn:Eok; [|left; auto].
  destruct (r_hit (run p fuel sc 0 (tbegin s) false)) eqn:Eh.
  - rewrite (hit_fails p fuel sc 0%nat (tbegin s) false Hp Eh eq_refl) in Eok. discriminate.
  - destruct (sc (r_n (run p fuel sc 0 (tbegin s) false))) eqn:Ec; [left; auto|].
    right. split; auto. rewrite <- (unhit_eq p fuel sc 0%nat (tbegin s) Eh). rewrite Eok. reflexivity.
Qed.

(* events are published iff the change was committed, and then exactly the registered callbacks *)
Theorem events_iff_commit p fuel sc s :
  let '(ok, s', evs) := call p fuel sc s in ok = false -> evs = [] /\ s' = s.
Proof.
  unfold call. destruct (r_ok _); [destruct (sc _)|]; intros H; try discriminate; auto.
Qed.

(* a program that swallows the failure of one write reports success with a partial write set:
   the shape of F5 / F6 *)
Definition swallow : prog :=
  PSet 1 (Some 10) (fun _ => PSet 2 (Some 20) (fun ok2 => Ret true)).
Example swallow_refuted :
  let '(ok, s', _) := call swallow 5 (fun i => Nat.eqb i 1) sempty in
  ok = true /\ s' 1 = Some 10 /\ s' 2 = None.
Proof. vm_compute. auto. Qed.

(* non-vacuity: a create-like program (check absence, write two keys, publish) propagates errors *)
Definition create_like : prog :=
  PGet 1 (fun r => match r with
    | None => Ret false
    | Some (Some _) => Ret false                                   (* already exists *)
    | Some None => PSet 1 (Some 10) (fun ok => if ok then
                     PSet 2 (Some 20) (fun ok2 => if ok2 then POnSuccess 7 (Ret true) else Ret false)
                     else Ret false)
    end).
Example create_like_propagates : propagates create_like 6.
Proof.
  cbn. split; [auto|]. intros [v|]; cbn; auto.
Qed.
