From Coq Require Import List Arith Bool Lia.
From Verif Require Import Encrypt.
Import ListNotations.

Section Proofs.
  Variable V : Type.

  Lemma find_block_field (blocks : list (blockrec V)) f b :
    find (fun b => Nat.eqb (b_field b) f) blocks = Some b -> In b blocks /\ b_field b = f.
  Proof. intros H. apply find_some in H. destruct H as [H1 H2]. apply Nat.eqb_eq in H2. auto. Qed.

  (* ---- document-level encryption ---- *)
  (* invariant: the composite heads carry the document key and so does every field head *)
  Definition doc_inv (s : dstate) : Prop :=
    first_enc (cheads s) = Some KDoc /\ forall f, fheads s f = [] \/ first_enc (fheads s f) = Some KDoc.

  Lemma determine_doc_inv s f : doc_inv s -> determine None f (fheads s f) (cheads s) = Some KDoc.
  Proof.
    intros [Hc Hf]. unfold determine. destruct (Hf f) as [E|E].
    - rewrite E, Hc. auto.
    - destruct (fheads s f); [cbn in E; discriminate|auto].
  Qed.

  Lemma write_none_doc_inv ws s : doc_inv s ->
    doc_inv (fst (write None ws s)) /\ Forall (fun b => b_enc b = Some KDoc) (snd (write (V:=V) None ws s)).
  Proof.
    intros Hi. assert (Hb : Forall (fun b : blockrec V => b_enc b = Some KDoc) (snd (write None ws s))).
    { cbn [write snd]. apply Forall_forall. intros b Hin. apply in_map_iff in Hin. destruct Hin as [w [<- _]].
      cbn [mk_block b_enc]. now apply determine_doc_inv. }
    split; auto. destruct Hi as [Hc Hf]. split.
    - cbn [write fst cheads determine_comp]. cbn [first_enc]. now rewrite Hc.
    - intros f. cbn [write fst fheads].
      destruct (find _ _) as [b|] eqn:E; [|apply Hf]. right.
      apply find_block_field in E. destruct E as [Hin _]. rewrite Forall_forall in Hb. cbn [write snd] in Hb.
      rewrite (Hb b Hin). auto.
  Qed.

  Lemma updates_doc us : forall s, doc_inv s -> Forall (fun b => b_enc b = Some KDoc) (updates (V:=V) us s).
  Proof.
    induction us as [|ws us IH]; intros s Hi; cbn [updates]; [constructor|].
    destruct (write None ws s) as [s' bs] eqn:E.
    destruct (write_none_doc_inv ws s Hi) as [Hi' Hb]. rewrite E in Hi', Hb. cbn [fst snd] in *.
    apply Forall_app. split; auto.
  Qed.

  Lemma enc_cipher (b : blockrec V) f v e : b = mk_block f v e -> b_enc b <> None -> is_cipher b = true.
  Proof. intros -> H. unfold is_cipher, mk_block in *. cbn in *. destruct e; auto. Qed.

  Lemma blocks_are_mk req ws s : Forall (fun b : blockrec V => exists f v e, b = mk_block f v e) (snd (write req ws s)).
  Proof. cbn [write snd]. apply Forall_forall. intros b Hin. apply in_map_iff in Hin. destruct Hin as [w [<- _]]. eauto. Qed.

  Lemma updates_are_mk us : forall s, Forall (fun b : blockrec V => exists f v e, b = mk_block f v e) (updates us s).
  Proof.
    induction us as [|ws us IH]; intros s; cbn [updates]; [constructor|].
    pose proof (blocks_are_mk None ws s) as H. destruct (write None ws s) as [s' bs]. cbn [snd] in H.
    apply Forall_app. split; auto.
  Qed.

  (* every field block ever written for a document created with document-level encryption carries ciphertext under
     the document key: the creating write and every later update, including fields written for the first time *)
  Theorem doc_level_all_cipher : forall c create us, doc_enc c = true ->
    Forall (fun b => is_cipher b = true /\ b_enc b = Some KDoc) (history (V:=V) c create us).
  Proof.
    intros c create us Hd. unfold history.
    destruct (write (Some c) create dinit) as [s bs] eqn:E.
    assert (Hbs : Forall (fun b : blockrec V => b_enc b = Some KDoc) bs).
    { replace bs with (snd (write (Some c) create dinit)) by (now rewrite E).
      cbn [write snd]. apply Forall_forall. intros b Hin. apply in_map_iff in Hin. destruct Hin as [w [<- _]].
      cbn [mk_block b_enc]. unfold determine. now rewrite Hd. }
    assert (Hi : doc_inv s).
    { replace s with (fst (write (Some c) create dinit)) by (now rewrite E). split.
      - cbn [write fst cheads determine_comp]. rewrite Hd. auto.
      - intros f. cbn [write fst fheads]. destruct (find _ _) as [b|] eqn:Ef; [|left; auto]. right.
        apply find_block_field in Ef. destruct Ef as [Hin _].
        apply in_map_iff in Hin. destruct Hin as [w [<- _]]. cbn [mk_block b_enc]. unfold determine. rewrite Hd. auto. }
    pose proof (updates_doc us s Hi) as Hu.
    pose proof (blocks_are_mk (Some c) create dinit) as Hm1. rewrite E in Hm1. cbn [snd] in Hm1.
    pose proof (updates_are_mk us s) as Hm2.
    apply Forall_app. split.
    - rewrite Forall_forall in *. intros b Hin. split; auto. destruct (Hm1 b Hin) as [f [v [e Hb]]].
      eapply enc_cipher; eauto. rewrite (Hbs b Hin). discriminate.
    - rewrite Forall_forall in *. intros b Hin. split; auto. destruct (Hm2 b Hin) as [f [v [e Hb]]].
      eapply enc_cipher; eauto. rewrite (Hu b Hin). discriminate.
  Qed.

  (* ---- field-level encryption: a listed field that was written at creation stays encrypted ---- *)
  Definition field_inv (f : nat) (s : dstate) : Prop := first_enc (fheads s f) = Some (KField f) /\ fheads s f <> [].

  Lemma write_none_field_inv f ws s : field_inv f s ->
    field_inv f (fst (write None ws s)) /\
    Forall (fun b => b_field b = f -> b_enc b = Some (KField f)) (snd (write (V:=V) None ws s)).
  Proof.
    intros [H1 H2].
    assert (Hb : Forall (fun b : blockrec V => b_field b = f -> b_enc b = Some (KField f)) (snd (write None ws s))).
    { cbn [write snd]. apply Forall_forall. intros b Hin Hf. apply in_map_iff in Hin. destruct Hin as [w [<- _]].
      cbn [mk_block b_enc b_field] in *. subst f. unfold determine. destruct (fheads s (fst w)); [congruence|auto]. }
    split; auto. cbn [write fst fheads]. unfold field_inv. cbn [fheads].
    destruct (find _ _) as [b|] eqn:E; [|split; auto].
    apply find_block_field in E. destruct E as [Hin Hf]. rewrite Forall_forall in Hb. cbn [write snd] in Hb.
    rewrite (Hb b Hin Hf). split; [auto|discriminate].
  Qed.

  Lemma updates_field f us : forall s, field_inv f s ->
    Forall (fun b => b_field b = f -> b_enc b = Some (KField f)) (updates (V:=V) us s).
  Proof.
    induction us as [|ws us IH]; intros s Hi; cbn [updates]; [constructor|].
    destruct (write None ws s) as [s' bs] eqn:E.
    destruct (write_none_field_inv f ws s Hi) as [Hi' Hb]. rewrite E in Hi', Hb. cbn [fst snd] in *.
    apply Forall_app. split; auto.
  Qed.

  Theorem listed_field_written_at_creation_stays_cipher : forall c create us f,
    doc_enc c = false -> memb f (enc_fields c) = true -> In f (map fst create) ->
    Forall (fun b => b_field b = f -> is_cipher b = true) (history (V:=V) c create us).
  Proof.
    intros c create us f Hd Hl Hin. unfold history.
    destruct (write (Some c) create dinit) as [s bs] eqn:E.
    assert (Hbs : Forall (fun b : blockrec V => b_field b = f -> b_enc b = Some (KField f)) bs).
    { replace bs with (snd (write (Some c) create dinit)) by (now rewrite E).
      cbn [write snd]. apply Forall_forall. intros b Hb Hf. apply in_map_iff in Hb. destruct Hb as [w [<- _]].
      cbn [mk_block b_enc b_field] in *. subst f. unfold determine. now rewrite Hd, Hl. }
    assert (Hi : field_inv f s).
    { replace s with (fst (write (Some c) create dinit)) by (now rewrite E). unfold field_inv. cbn [write fst fheads].
      destruct (find _ _) as [b|] eqn:Ef.
      - apply find_block_field in Ef. destruct Ef as [Hb Hf]. 
        apply in_map_iff in Hb. destruct Hb as [w [<- _]]. cbn [mk_block b_enc b_field] in *. subst f.
        unfold determine. rewrite Hd, Hl. split; [auto|discriminate].
      - exfalso. apply in_map_iff in Hin. destruct Hin as [w [Hw Hiw]].
        eapply find_none in Ef; [|apply in_map; exact Hiw]. cbn [mk_block b_field] in Ef. rewrite Hw, Nat.eqb_refl in Ef. discriminate. }
    pose proof (updates_field f us s Hi) as Hu.
    pose proof (blocks_are_mk (Some c) create dinit) as Hm1. rewrite E in Hm1. cbn [snd] in Hm1.
    pose proof (updates_are_mk us s) as Hm2.
    apply Forall_app. split; rewrite Forall_forall in *; intros b Hb Hf.
    - destruct (Hm1 b Hb) as [f' [v [e Hbe]]]. eapply enc_cipher; eauto. rewrite (Hbs b Hb Hf). discriminate.
    - destruct (Hm2 b Hb) as [f' [v [e Hbe]]]. eapply enc_cipher; eauto. rewrite (Hu b Hb Hf). discriminate.
  Qed.

  (* the same with writes of key-less peers interleaved: their (plaintext) blocks become additional heads, the next
     block of a key holder still inherits the key because all heads are scanned *)
  Lemma first_enc_app_some l k l' : first_enc l = Some k -> first_enc (l ++ l') = Some k.
  Proof. induction l as [|[x|] l IH]; cbn [first_enc app]; auto; discriminate. Qed.

  Lemma write_keyless_field_inv f (ws : list (nat * V)) s : field_inv f s -> field_inv f (fst (write_keyless ws s)).
  Proof.
    intros [H1 H2]. unfold field_inv. cbn [write_keyless fst fheads].
    destruct (find _ _) as [b|]; [|split; auto]. split; [now apply first_enc_app_some|].
    destruct (fheads s f); [congruence|discriminate].
  Qed.

  Lemma updates_mixed_field f us : forall s, field_inv f s ->
    Forall (fun b => b_field b = f -> b_enc b = Some (KField f)) (updates_mixed (V:=V) us s).
  Proof.
    induction us as [|[[|] ws] us IH]; intros s Hi; cbn [updates_mixed]; [constructor| |].
    - destruct (write None ws s) as [s' bs] eqn:E.
      destruct (write_none_field_inv f ws s Hi) as [Hi' Hb]. rewrite E in Hi', Hb. cbn [fst snd] in *.
      apply Forall_app. split; auto.
    - pose proof (write_keyless_field_inv f ws s Hi) as Hi'. destruct (write_keyless ws s) as [s' bs]. cbn [fst] in Hi'. auto.
  Qed.

  Lemma updates_mixed_are_mk us : forall s, Forall (fun b : blockrec V => exists f v e, b = mk_block f v e) (updates_mixed us s).
  Proof.
    induction us as [|[[|] ws] us IH]; intros s; cbn [updates_mixed]; [constructor| |].
    - pose proof (blocks_are_mk None ws s) as H. destruct (write None ws s) as [s' bs]. cbn [snd] in H.
      apply Forall_app. split; auto.
    - destruct (write_keyless ws s) as [s' bs]. auto.
  Qed.

  Theorem listed_field_stays_cipher_mixed : forall c create us f,
    doc_enc c = false -> memb f (enc_fields c) = true -> In f (map fst create) ->
    Forall (fun b => b_field b = f -> is_cipher b = true) (history_mixed (V:=V) c create us).
  Proof.
    intros c create us f Hd Hl Hin. unfold history_mixed.
    destruct (write (Some c) create dinit) as [s bs] eqn:E.
    assert (Hbs : Forall (fun b : blockrec V => b_field b = f -> b_enc b = Some (KField f)) bs).
    { replace bs with (snd (write (Some c) create dinit)) by (now rewrite E).
      cbn [write snd]. apply Forall_forall. intros b Hb Hf. apply in_map_iff in Hb. destruct Hb as [w [<- _]].
      cbn [mk_block b_enc b_field] in *. subst f. unfold determine. now rewrite Hd, Hl. }
    assert (Hi : field_inv f s).
    { replace s with (fst (write (Some c) create dinit)) by (now rewrite E). unfold field_inv. cbn [write fst fheads].
      destruct (find _ _) as [b|] eqn:Ef.
      - apply find_block_field in Ef. destruct Ef as [Hb Hf].
        apply in_map_iff in Hb. destruct Hb as [w [<- _]]. cbn [mk_block b_enc b_field] in *. subst f.
        unfold determine. rewrite Hd, Hl. split; [auto|discriminate].
      - exfalso. apply in_map_iff in Hin. destruct Hin as [w [Hw Hiw]].
        eapply find_none in Ef; [|apply in_map; exact Hiw]. cbn [mk_block b_field] in Ef. rewrite Hw, Nat.eqb_refl in Ef. discriminate. }
    pose proof (updates_mixed_field f us s Hi) as Hu.
    pose proof (blocks_are_mk (Some c) create dinit) as Hm1. rewrite E in Hm1. cbn [snd] in Hm1.
    pose proof (updates_mixed_are_mk us s) as Hm2.
    apply Forall_app. split; rewrite Forall_forall in *; intros b Hb Hf.
    - destruct (Hm1 b Hb) as [f' [v [e Hbe]]]. eapply enc_cipher; eauto. rewrite (Hbs b Hb Hf). discriminate.
    - destruct (Hm2 b Hb) as [f' [v [e Hbe]]]. eapply enc_cipher; eauto. rewrite (Hu b Hb Hf). discriminate.
  Qed.
End Proofs.

(* The request is carried by the create call only and nothing records it for fields without a block: a listed field
   that is first written by a later update is stored in clear. *)
Lemma listed_field_absent_at_creation_refuted :
  let c := {| doc_enc := false; enc_fields := [0; 1] |} in
  map is_cipher (history c [(0, tt)] [[(1, tt)]]) = [true; false].
Proof. vm_compute. reflexivity. Qed.

(* the pinned code did not consult the composite heads: under document-level encryption a field first written by an
   update was stored in clear (F14, repaired) *)
Definition determine_legacy (req : option conf) (f : nat) (heads : list (option keyid)) : option keyid :=
  match req with
  | Some c => if doc_enc c then Some KDoc else if memb f (enc_fields c) then Some (KField f) else first_enc heads
  | None => first_enc heads
  end.
Lemma legacy_doc_level_refuted : determine_legacy None 1 [] = None /\ determine None 1 [] [Some KDoc] = Some KDoc.
Proof. vm_compute. auto. Qed.
