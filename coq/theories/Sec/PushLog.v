(* The push-log handler (net/server.go: processPushlog). A request names a head by its identifier and carries a
   block. The handler verifies and files the block it carries and then asks for the merge of the head it NAMES, which
   the merge reads from the block store. The block store may hold blocks that were refused before (a child block is
   filed by the block service when it is fetched, before its signature is looked at). The identifier of a block is a
   function of its content ([cid_of], a Section variable: content addressing is assumed, not modelled).
   With the check "the identifier named is the identifier of the block carried" the merged block is the verified one;
   without it (the pinned handler) a request can make the receiver merge a block that was refused. *)
From Coq Require Import List Arith Bool.
From Verif Require Import Sign.
Import ListNotations.

Section PushLog.
  Variable ktype : nat -> nat.
  Variable cid_of : block -> nat.
  Variable D : Type.
  Variable merge : D -> list nat -> nat -> block -> D * list nat.

  Fixpoint find_block (c : nat) (l : list (nat * block)) : option block :=
    match l with [] => None | (c', b) :: r => if Nat.eqb c' c then Some b else find_block c r end.

  (* what the handler hands to the merge: Some (identifier, block read from the store), or None when it refuses *)
  Definition handle (check : bool) (st : sigstore) (s : rstate D) (named : nat) (b : block) : option (nat * option block) :=
    match verify_self ktype st b with
    | Some false => None
    | _ => if check && negb (Nat.eqb named (cid_of b)) then None
           else Some (named, find_block named ((cid_of b, b) :: r_blocks s))
    end.

  Definition apply (s : rstate D) (b : block) (h : option (nat * option block)) : rstate D :=
    match h with
    | Some (c, Some hb) => let '(d, hs) := merge (r_docs s) (r_heads s) c hb in
                           {| r_blocks := (cid_of b, b) :: r_blocks s; r_docs := d; r_heads := hs |}
    | Some (_, None) => {| r_blocks := (cid_of b, b) :: r_blocks s; r_docs := r_docs s; r_heads := r_heads s |}
    | None => s
    end.

  (* with the check: whatever the store holds, the block handed to the merge is the block that was carried and
     verified; a request naming anything else is refused and changes nothing *)
  Theorem checked_handler_merges_the_verified_block st s named b :
    match handle true st s named b with
    | Some (c, hb) => c = cid_of b /\ hb = Some b /\ verify_self ktype st b <> Some false
    | None => apply s b None = s
    end.
  Proof.
    unfold handle. destruct (verify_self ktype st b) as [[|]|] eqn:E; try reflexivity.
    - cbn [andb]. destruct (Nat.eqb_spec named (cid_of b)) as [->|Hne]; cbn [negb]; [|reflexivity].
      cbn [find_block]. rewrite Nat.eqb_refl. repeat split; congruence.
    - cbn [andb]. destruct (Nat.eqb_spec named (cid_of b)) as [->|Hne]; cbn [negb]; [|reflexivity].
      cbn [find_block]. rewrite Nat.eqb_refl. repeat split; congruence.
  Qed.

  Corollary refused_block_never_merged st s named b f :
    verify_self ktype st f = Some false ->
    forall c, handle true st s named b <> Some (c, Some f).
  Proof.
    intros Hf c H. pose proof (checked_handler_merges_the_verified_block st s named b) as G. rewrite H in G.
    destruct G as [_ [E Hv]]. inversion E; subst. contradiction.
  Qed.

  (* without the check: a store that holds a refused block f and a request (identifier of f, some verifiable block)
     make the handler hand f to the merge *)
  Theorem unchecked_handler_refuted st s b f :
    verify_self ktype st f = Some false -> verify_self ktype st b <> Some false ->
    cid_of f <> cid_of b -> find_block (cid_of f) (r_blocks s) = Some f ->
    handle false st s (cid_of f) b = Some (cid_of f, Some f).
  Proof.
    intros Hf Hb Hne Hs. unfold handle. destruct (verify_self ktype st b) as [[|]|] eqn:E; try congruence;
      cbn [andb find_block]; (destruct (Nat.eqb_spec (cid_of b) (cid_of f)); [congruence|]); now rewrite Hs.
  Qed.
End PushLog.
