From Coq Require Import List Arith Bool Lia.
From Verif Require Import Sign.
Import ListNotations.

Lemma ln_eqb_eq a : forall b, ln_eqb a b = true <-> a = b.
Proof.
  induction a as [|x a IH]; intros [|y b]; cbn [ln_eqb]; split; intros H; try discriminate; auto.
  - apply andb_prop in H. destruct H as [H1 H2]. apply Nat.eqb_eq in H1. apply IH in H2. congruence.
  - inversion H; subst. rewrite Nat.eqb_refl. apply IH. auto.
Qed.
Lemma lp_eqb_eq a : forall b, lp_eqb a b = true <-> a = b.
Proof.
  induction a as [|[x y] a IH]; intros [|[x' y'] b]; cbn [lp_eqb]; split; intros H; try discriminate; auto.
  - apply andb_prop in H. destruct H as [H1 H2]. apply andb_prop in H1. destruct H1 as [H0 H1].
    apply Nat.eqb_eq in H0, H1. apply IH in H2. congruence.
  - inversion H; subst. rewrite !Nat.eqb_refl. apply IH. auto.
Qed.
Lemma ublock_eqb_eq a b : ublock_eqb a b = true <-> a = b.
Proof.
  unfold ublock_eqb. split; intros H.
  - apply andb_prop in H. destruct H as [H1 H3]. apply andb_prop in H1. destruct H1 as [H1 H2].
    apply Nat.eqb_eq in H1. apply ln_eqb_eq in H2. apply lp_eqb_eq in H3. destruct a, b; cbn in *; congruence.
  - subst. rewrite Nat.eqb_refl. assert (H2 : ln_eqb (u_heads b) (u_heads b) = true) by (now apply ln_eqb_eq).
    assert (H3 : lp_eqb (u_links b) (u_links b) = true) by (now apply lp_eqb_eq). now rewrite H2, H3.
Qed.

Section Proofs.
  Variable ktype : nat -> nat.

  Definition with_sig (st : sigstore) (l : nat) (sb : sigblock) : sigstore := fun x => if Nat.eqb x l then Some sb else st x.

  (* a commit signed by k verifies under k's public key *)
  Theorem signed_verifies : forall st k body l,
    verify_with_key (with_sig st l (sign_block ktype k body)) {| b_body := body; b_sig := Some l |} k = Some true /\
    verify_self ktype (with_sig st l (sign_block ktype k body)) {| b_body := body; b_sig := Some l |} = Some true.
  Proof.
    intros. unfold verify_with_key, verify_self, with_sig. cbn [b_sig b_body]. rewrite Nat.eqb_refl.
    unfold sign_block, sign, verify. cbn [s_identity s_value s_type fst snd]. rewrite !Nat.eqb_refl.
    assert (H : ublock_eqb body body = true) by (now apply ublock_eqb_eq). now rewrite H.
  Qed.

  (* ... and under no other key *)
  Theorem wrong_key_fails : forall st k k' body l, k' <> k ->
    verify_with_key (with_sig st l (sign_block ktype k body)) {| b_body := body; b_sig := Some l |} k' = Some false.
  Proof.
    intros st k k' body l Hne. unfold verify_with_key, with_sig. cbn [b_sig b_body]. rewrite Nat.eqb_refl.
    unfold sign_block. cbn [s_identity]. destruct (Nat.eqb k k') eqn:E; [apply Nat.eqb_eq in E; congruence|auto].
  Qed.

  (* any change to delta, parents or links of the signed commit makes the verification fail, whatever key is tried and
     also on the receive path *)
  Theorem tamper_detected : forall st k body body' l pk, body' <> body ->
    verify_with_key (with_sig st l (sign_block ktype k body)) {| b_body := body'; b_sig := Some l |} pk = Some false /\
    verify_self ktype (with_sig st l (sign_block ktype k body)) {| b_body := body'; b_sig := Some l |} = Some false.
  Proof.
    intros st k body body' l pk Hne.
    assert (Hb : ublock_eqb body body' = false).
    { destruct (ublock_eqb body body') eqn:E; auto. apply ublock_eqb_eq in E. congruence. }
    unfold verify_with_key, verify_self, with_sig. cbn [b_sig b_body]. rewrite Nat.eqb_refl.
    unfold sign_block, sign, verify. cbn [s_identity s_value s_type fst snd]. rewrite Hb, !andb_false_r. auto.
  Qed.

  (* a signature block whose value was produced for another message or by another key, or whose identity or type was
     changed, does not verify either *)
  Theorem signature_block_tamper_detected : forall st body l (sb : sigblock),
    (fst (s_value sb) <> s_identity sb \/ snd (s_value sb) <> body \/ s_type sb <> ktype (s_identity sb)) ->
    verify_self ktype (with_sig st l sb) {| b_body := body; b_sig := Some l |} = Some false.
  Proof.
    intros st body l sb H. unfold verify_self, with_sig. cbn [b_sig b_body]. rewrite Nat.eqb_refl. unfold verify.
    destruct H as [H|[H|H]].
    - destruct (Nat.eqb (fst (s_value sb)) (s_identity sb)) eqn:E; [apply Nat.eqb_eq in E; congruence|].
      now rewrite andb_false_r.
    - destruct (ublock_eqb (snd (s_value sb)) body) eqn:E; [apply ublock_eqb_eq in E; congruence|].
      now rewrite !andb_false_r.
    - destruct (Nat.eqb (s_type sb) (ktype (s_identity sb))) eqn:E; [apply Nat.eqb_eq in E; congruence|auto].
  Qed.

  (* a pushed commit whose attached signature does not verify is rejected and changes neither documents nor heads;
     the commit graph reachable from the heads is therefore unchanged as well (the pushed block itself is filed in
     the block store before the check - as coded - but nothing links to it) *)
  Theorem forged_not_merged : forall (D : Type) merge st (s : rstate D) c b,
    verify_self ktype st b = Some false ->
    let '(s', ok) := receive ktype D merge st s c b in
    ok = false /\ r_docs s' = r_docs s /\ r_heads s' = r_heads s /\
    (forall c', c' <> c -> In c' (map fst (r_blocks s')) <-> In c' (map fst (r_blocks s))).
  Proof.
    intros D merge st s c b H. unfold receive. rewrite H. cbn [r_docs r_heads r_blocks map fst]. repeat split; auto.
    - intros [E|E]; [congruence|auto].
    - intros E. right. auto.
  Qed.
End Proofs.
