(* Model of block encryption (internal/core/block/store.go: AddDelta, determineBlockEncryption, encryptBlock).
   Fields are numbers.  A key is identified by what it protects: the document or one field.  Ciphertexts are symbolic
   (Cipher k v): that AES-GCM output does not contain the plaintext is an assumption on the cipher (trusted base),
   checked on the implementation by the byte search of the harness. *)
From Coq Require Import List Arith Bool Lia.
Import ListNotations.

Inductive keyid := KDoc | KField (f : nat).
Inductive payload (V : Type) := Plain (v : V) | Cipher (k : keyid) (v : V).
Arguments Plain {V}. Arguments Cipher {V}.

(* the encryption request carried by the context of a create call *)
Record conf := { doc_enc : bool; enc_fields : list nat }.
Definition memb (f : nat) (l : list nat) : bool := existsb (Nat.eqb f) l.

(* what a new block inherits from: the enc link of the heads of its own CRDT (first head that has one) *)
Fixpoint first_enc (heads : list (option keyid)) : option keyid :=
  match heads with [] => None | Some k :: _ => Some k | None :: r => first_enc r end.

(* determineBlockEncryption for a field block.
   [req] is the request in the context (only create calls carry one), [heads] the enc links of the field's current
   heads, [comp] those of the document's composite heads (consulted when the field has no head yet). *)
Definition determine (req : option conf) (f : nat) (heads comp : list (option keyid)) : option keyid :=
  match req with
  | Some c => if doc_enc c then Some KDoc else if memb f (enc_fields c) then Some (KField f) else first_enc heads
  | None =>
      match heads with
      | [] => match first_enc comp with Some KDoc => Some KDoc | _ => None end
      | _ => first_enc heads
      end
  end.
(* composite blocks: never encrypted themselves, but they carry the link of the document key *)
Definition determine_comp (req : option conf) (comp : list (option keyid)) : option keyid :=
  match req with
  | Some c => if doc_enc c then Some KDoc else first_enc comp
  | None => first_enc comp
  end.

(* replica-independent view of one document: for every field the enc links of its heads, plus the composite's.
   A write replaces the heads of the written fields by the new block (local write on top of all known heads). *)
Record dstate := { fheads : nat -> list (option keyid); cheads : list (option keyid) }.
Definition dinit : dstate := {| fheads := fun _ => []; cheads := [] |}.

Section Hist.
  Variable V : Type.
  Record blockrec := { b_field : nat; b_data : payload V; b_enc : option keyid }.

  Definition mk_block (f : nat) (v : V) (e : option keyid) : blockrec :=
    {| b_field := f; b_data := match e with Some k => Cipher k v | None => Plain v end; b_enc := e |}.

  (* one commit writing the given (field, value) list *)
  Definition write (req : option conf) (ws : list (nat * V)) (s : dstate) : dstate * list blockrec :=
    let blocks := map (fun w => mk_block (fst w) (snd w) (determine req (fst w) (fheads s (fst w)) (cheads s))) ws in
    let ce := determine_comp req (cheads s) in
    ({| fheads := fun f => match find (fun b => Nat.eqb (b_field b) f) blocks with
                           | Some b => [b_enc b] | None => fheads s f end;
        cheads := [ce] |}, blocks).

  (* a history: the creating write carries the request, updates carry none *)
  Fixpoint updates (us : list (list (nat * V))) (s : dstate) : list blockrec :=
    match us with
    | [] => []
    | ws :: r => let '(s', bs) := write None ws s in bs ++ updates r s'
    end.
  Definition history (c : conf) (create : list (nat * V)) (us : list (list (nat * V))) : list blockrec :=
    let '(s, bs) := write (Some c) create dinit in bs ++ updates us s.

  Definition is_cipher (b : blockrec) : bool := match b_data b with Cipher _ _ => true | Plain _ => false end.
End Hist.
Arguments b_field {V}. Arguments b_data {V}. Arguments b_enc {V}. Arguments write {V}. Arguments updates {V}.
Arguments history {V}. Arguments is_cipher {V}. Arguments mk_block {V}.

(* a peer that never received the keys cannot read the encrypted fields: their blocks did not become heads there.
   When it writes such a field its block has no parent in that field's history and, once merged by a key holder,
   stands beside the encrypted head(s) as a further head. *)
Definition write_keyless {V} (ws : list (nat * V)) (s : dstate) : dstate * list (blockrec V) :=
  let blocks := map (fun w => mk_block (fst w) (snd w) (determine None (fst w) [] (cheads s))) ws in
  ({| fheads := fun f => match find (fun b => Nat.eqb (b_field b) f) blocks with
                         | Some b => fheads s f ++ [b_enc b] | None => fheads s f end;
      cheads := [determine_comp None (cheads s)] |}, blocks).

(* histories in which key-less peers write too; the result lists the blocks written by key holders only *)
Fixpoint updates_mixed {V} (us : list (bool * list (nat * V))) (s : dstate) : list (blockrec V) :=
  match us with
  | [] => []
  | (true, ws) :: r => let '(s', bs) := write None ws s in bs ++ updates_mixed r s'
  | (false, ws) :: r => let '(s', _) := write_keyless ws s in updates_mixed r s'
  end.
Definition history_mixed {V} (c : conf) (create : list (nat * V)) (us : list (bool * list (nat * V))) : list (blockrec V) :=
  let '(s, bs) := write (Some c) create dinit in bs ++ updates_mixed us s.

(* executable for the correspondence run: the encryption flags, commit by commit; a step is (writer holds the keys,
   fields written) *)
Fixpoint flags_updates (us : list (bool * list nat)) (s : dstate) : list (list bool) :=
  match us with
  | [] => []
  | (true, ws) :: r => let '(s', bs) := write None (map (fun f => (f, tt)) ws) s in map is_cipher bs :: flags_updates r s'
  | (false, ws) :: r => let '(s', bs) := write_keyless (map (fun f => (f, tt)) ws) s in map is_cipher bs :: flags_updates r s'
  end.
Definition flags (c : conf) (steps : list (bool * list nat)) : list (list bool) :=
  match steps with
  | [] => []
  | (_, cr) :: us => let '(s, bs) := write (Some c) (map (fun f => (f, tt)) cr) dinit in map is_cipher bs :: flags_updates us s
  end.
