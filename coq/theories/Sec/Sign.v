(* Model of commit signatures (internal/core/block/signing.go, signature.go, net/sync_dag.go: loadBlockLinks).
   Content identifiers, keys and key types are numbers.  The signature scheme is ideal and symbolic: a signature value
   is the pair (signing key, signed message); a real scheme is assumed to behave like it (existential unforgeability
   of ECDSA-secp256k1 / Ed25519 and injectivity of the dag-cbor encoding are the trusted base). *)
From Coq Require Import List Arith Bool Lia.
Import ListNotations.

(* a block without its signature link: what getBlockBytesToSign marshals *)
Record ublock := { u_delta : nat; u_heads : list nat; u_links : list (nat * nat) }.
Record block := { b_body : ublock; b_sig : option nat }.            (* signature link = cid of the signature block *)

Definition sigval := (nat * ublock)%type.                           (* ideal signature: (secret key, message) *)
Record sigblock := { s_type : nat; s_identity : nat; s_value : sigval }.

(* key k has type ktype k; its public key string is k itself (public and secret key share the number) *)
Section Scheme.
  Variable ktype : nat -> nat.

  Fixpoint ln_eqb (a b : list nat) : bool :=
    match a, b with [], [] => true | x :: a', y :: b' => Nat.eqb x y && ln_eqb a' b' | _, _ => false end.
  Fixpoint lp_eqb (a b : list (nat * nat)) : bool :=
    match a, b with
    | [], [] => true
    | (x, y) :: a', (x', y') :: b' => Nat.eqb x x' && Nat.eqb y y' && lp_eqb a' b'
    | _, _ => false
    end.
  Definition ublock_eqb (a b : ublock) : bool :=
    Nat.eqb (u_delta a) (u_delta b) && ln_eqb (u_heads a) (u_heads b) && lp_eqb (u_links a) (u_links b).

  Definition sign (k : nat) (m : ublock) : sigval := (k, m).
  Definition verify (pk : nat) (m : ublock) (s : sigval) : bool := Nat.eqb (fst s) pk && ublock_eqb (snd s) m.

  (* signBlock: the signature block names the signer's type and public key *)
  Definition sign_block (k : nat) (body : ublock) : sigblock :=
    {| s_type := ktype k; s_identity := k; s_value := sign k body |}.

  (* the store maps signature cids to signature blocks *)
  Definition sigstore := nat -> option sigblock.

  (* VerifyBlockSignatureWithKey (DB.VerifySignature): None = no signature; Some ok *)
  Definition verify_with_key (st : sigstore) (b : block) (pk : nat) : option bool :=
    match b_sig b with
    | None => None
    | Some l => match st l with
                | None => Some false
                | Some sb => Some (Nat.eqb (s_identity sb) pk && verify pk (b_body b) (s_value sb))
                end
    end.

  (* VerifyBlockSignature (receive path): the key is rebuilt from the signature block's type and identity; a key string
     that does not parse under the claimed type is an error *)
  Definition verify_self (st : sigstore) (b : block) : option bool :=
    match b_sig b with
    | None => None
    | Some l => match st l with
                | None => Some false
                | Some sb => Some (Nat.eqb (s_type sb) (ktype (s_identity sb)) && verify (s_identity sb) (b_body b) (s_value sb))
                end
    end.

  (* ---- receive path: processPushlog -> syncDAG -> loadBlockLinks, then the merge event ---- *)
  Record rstate (D : Type) := { r_blocks : list (nat * block); r_docs : D; r_heads : list nat }.
  Arguments r_blocks {D}. Arguments r_docs {D}. Arguments r_heads {D}.

  Section Receive.
    Variable D : Type.
    Variable merge : D -> list nat -> nat -> block -> D * list nat.       (* the merge of an accepted commit *)

    Definition receive (st : sigstore) (s : rstate D) (c : nat) (b : block) : rstate D * bool :=
      let stored := {| r_blocks := (c, b) :: r_blocks s; r_docs := r_docs s; r_heads := r_heads s |} in
      match verify_self st b with
      | Some false => (stored, false)                                    (* rejected: no merge event *)
      | _ => let '(d, h) := merge (r_docs s) (r_heads s) c b in
             ({| r_blocks := (c, b) :: r_blocks s; r_docs := d; r_heads := h |}, true)
      end.
  End Receive.
End Scheme.
Arguments r_blocks {D}. Arguments r_docs {D}. Arguments r_heads {D}.
