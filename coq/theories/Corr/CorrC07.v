(* Correspondence evaluator for the index-maintenance model (C07): a history of writes / index creations / removals
   applied to a real collection, with, after the last operation, the live documents (k, v) the node lists, the
   documents that own an entry in the raw index key space, and index-backed lookups by value. *)
From Coq Require Import List ZArith Arith Bool.
From Verif Require Export IndexMaint.
Import ListNotations.

Inductive hop := HCreate (k : nat) (v : Z) | HUpdate (k : nat) (v : Z) | HDelete (k : nat) | HDeleteWhere (c : Z)
               | HIndex | HUnindex.
Definition to_mop (o : hop) : mop Z :=
  match o with
  | HCreate k v => MCreate Z k v
  | HUpdate k v => MUpdate Z k v
  | HDelete k => MDelete Z k
  | HDeleteWhere c => MDeleteWhere Z (Z.eqb c)
  | HIndex => MIndex Z
  | HUnindex => MUnindex Z
  end.

Record mcase := MCase { m_ops : list hop; m_live : list (nat * Z); m_entries : list nat; m_lookups : list (Z * list nat) }.

Fixpoint ins_nat (x : nat) (l : list nat) : list nat :=
  match l with [] => [x] | y :: r => if Nat.leb x y then x :: l else y :: ins_nat x r end.
Definition sort_nat (l : list nat) : list nat := fold_right ins_nat [] l.
Fixpoint ins_kv (x : nat * Z) (l : list (nat * Z)) : list (nat * Z) :=
  match l with [] => [x] | y :: r => if Nat.leb (fst x) (fst y) then x :: l else y :: ins_kv x r end.
Definition sort_kv (l : list (nat * Z)) : list (nat * Z) := fold_right ins_kv [] l.
Fixpoint ln_eqb (a b : list nat) : bool :=
  match a, b with [], [] => true | x :: a', y :: b' => Nat.eqb x y && ln_eqb a' b' | _, _ => false end.
Fixpoint lkv_eqb (a b : list (nat * Z)) : bool :=
  match a, b with
  | [], [] => true
  | x :: a', y :: b' => Nat.eqb (fst x) (fst y) && Z.eqb (snd x) (snd y) && lkv_eqb a' b'
  | _, _ => false
  end.

Definition check_case (c : mcase) : bool :=
  let s := run Z (map to_mop (m_ops c)) in
  lkv_eqb (sort_kv (live Z s)) (m_live c) &&
  ln_eqb (sort_nat (map fst (entries Z s))) (m_entries c) &&
  forallb (fun q => ln_eqb (sort_nat (if indexed Z s then lookup_index Z (Z.eqb (fst q)) s else lookup_scan Z (Z.eqb (fst q)) s))
                           (snd q)) (m_lookups c).

Fixpoint mism (i : Z) (l : list mcase) : list Z :=
  match l with [] => [] | c :: r => if check_case c then mism (i + 1)%Z r else i :: mism (i + 1)%Z r end.
Definition mismatches (l : list mcase) : list Z := mism 0%Z l.
