(* Correspondence evaluator for C10: listings a restricted requester obtained from the real node = the model's
   evaluation with the requester's permission (ids of the readable documents given explicitly). *)
From Coq Require Import List ZArith Arith Bool.
From Verif Require Export Bytes Sem Acp CorrC08.
Import ListNotations.

Inductive pcase := PCase (docs : list (nat * doc)) (readable_ids : list nat) (g : qfilter) (ids : list nat).

Definition check_pcase (c : pcase) : bool :=
  match c with
  | PCase docs can g ids =>
      ln_eqb (sort_nat (map fst (eval (fun i => existsb (Nat.eqb i) can) docs (PFilter g PScan)))) ids
  end.

Fixpoint pmism (i : Z) (l : list pcase) : list Z :=
  match l with [] => [] | c :: r => if check_pcase c then pmism (i + 1)%Z r else i :: pmism (i + 1)%Z r end.
Definition mismatches (l : list pcase) : list Z := pmism 0%Z l.
