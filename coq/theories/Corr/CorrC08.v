(* Correspondence evaluator for C08 (and reused by C07): requests executed on a real node, result as the list of
   document indexes (positions in the primary scan order) in the order returned. *)
From Coq Require Import List ZArith Arith Bool.
From Verif Require Export Bytes Sem.
Import ListNotations.

Inductive qcase :=
| QCase (docs : list (nat * doc)) (q : query) (ids : list nat)
| SCase (docs : list (nat * doc)) (q : query) (ids : list nat)      (* result compared as a set, ids given sorted *)
| ACase (docs : list (nat * doc)) (g : qfilter) (f : nat) (count sum8 : Z) (mn mx : option Z).

Fixpoint ln_eqb (a b : list nat) : bool :=
  match a, b with
  | [], [] => true
  | x :: a', y :: b' => Nat.eqb x y && ln_eqb a' b'
  | _, _ => false
  end.
Definition oz_eqb (a b : option Z) : bool :=
  match a, b with None, None => true | Some x, Some y => Z.eqb x y | _, _ => false end.

Fixpoint ins_nat (x : nat) (l : list nat) : list nat :=
  match l with [] => [x] | y :: r => if Nat.leb x y then x :: l else y :: ins_nat x r end.
Definition sort_nat (l : list nat) : list nat := fold_right ins_nat [] l.

Definition check_case (c : qcase) : bool :=
  match c with
  | QCase docs q ids => ln_eqb (map fst (run_query q docs)) ids
  | SCase docs q ids => ln_eqb (sort_nat (map fst (run_query q docs))) ids
  | ACase docs g f cnt sm mn mx =>
      Z.eqb (agg_count g docs) cnt && Z.eqb (agg_sum g f docs) sm &&
      oz_eqb (agg_min g f docs) mn && oz_eqb (agg_max g f docs) mx
  end.

Fixpoint mism (i : Z) (l : list qcase) : list Z :=
  match l with
  | [] => []
  | c :: r => if check_case c then mism (i + 1)%Z r else i :: mism (i + 1)%Z r
  end.
Definition mismatches (l : list qcase) : list Z := mism 0%Z l.
