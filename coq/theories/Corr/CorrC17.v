(* Correspondence evaluator for C17: the harness writes the inputs it gave to the real Go
   functions together with the outputs it observed; [mismatches] lists the cases on which the
   model (generated encoders + hand-written decoders) disagrees. *)
From Coq Require Import List ZArith Bool.
From Verif Require Export GoSem GenEnc Bytes BytesEsc VarintDec Field.
Import ListNotations.
Open Scope Z_scope.

Inductive ccase :=
| CEnc (v : fval) (desc : bool) (out : list Z)
| CDec (inp : list Z) (desc : bool) (res : option (list Z * fval))
| CKey (col idx : Z) (fields : list (fval * bool)) (out : list Z)
| CPfx (inp out : list Z)
| CIntEnc (which : Z) (v : Z) (out : list Z)
| CIntDec (which : Z) (inp : list Z) (res : option (list Z * Z))
| CPeek (inp : list Z) (t : Z).

Fixpoint lz_eqb (a b : list Z) : bool :=
  match a, b with
  | [], [] => true
  | x :: a', y :: b' => (x =? y) && lz_eqb a' b'
  | _, _ => false
  end.

Definition fval_eqb (a b : fval) : bool :=
  match a, b with
  | FNull, FNull => true
  | FBool x, FBool y => Bool.eqb x y
  | FInt x, FInt y => x =? y
  | FF64 x, FF64 y => x =? y
  | FF32 x, FF32 y => x =? y
  | FStr x, FStr y => lz_eqb x y
  | FTime s n, FTime s' n' => (s =? s') && (n =? n')
  | _, _ => false
  end.

Definition opt_eqb {A} (eq : A -> A -> bool) (a b : option (list Z * A)) : bool :=
  match a, b with
  | None, None => true
  | Some (r, x), Some (r', y) => lz_eqb r r' && eq x y
  | _, _ => false
  end.

Definition check_case (c : ccase) : bool :=
  match c with
  | CEnc v d out => lz_eqb (enc_field [] v d) out
  | CDec inp d res => opt_eqb fval_eqb (dec_field inp d) res
  | CKey col idx fs out => lz_eqb (enc_index_key col idx fs) out
  | CPfx inp out => lz_eqb (prefix_end inp) out
  | CIntEnc w v out =>
      lz_eqb (if w =? 0 then G_EncodeUvarintAscending [] v else if w =? 1 then G_EncodeUvarintDescending [] v
              else if w =? 2 then G_EncodeVarintAscending [] v else G_EncodeVarintDescending [] v) out
  | CIntDec w inp res =>
      opt_eqb Z.eqb (if w =? 0 then dec_uva inp else if w =? 1 then dec_uvd inp
                     else if w =? 2 then dec_va inp else dec_vd inp) res
  | CPeek inp t => G_PeekType inp =? t
  end.

Fixpoint mism (i : Z) (l : list ccase) : list Z :=
  match l with
  | [] => []
  | c :: r => if check_case c then mism (i + 1) r else i :: mism (i + 1) r
  end.
Definition mismatches (l : list ccase) : list Z := mism 0 l.
