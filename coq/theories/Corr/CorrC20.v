(* Correspondence evaluator for C20: the sequences the subscribers of the real channel bus received = the model. *)
From Coq Require Import List ZArith Arith Bool.
From Verif Require Export EventBus.
Import ListNotations.

Inductive buscase := mkBus (cs : list cmd) (obs : list (nat * list (nat * nat))).

Fixpoint lm_eqb (a b : list (nat * nat)) : bool :=
  match a, b with
  | [], [] => true
  | (x, y) :: a', (x', y') :: b' => Nat.eqb x x' && Nat.eqb y y' && lm_eqb a' b'
  | _, _ => false
  end.

Definition check_bus (c : buscase) : bool :=
  match c with mkBus cs obs => let st := run cs in forallb (fun o => lm_eqb (received (fst o) st) (snd o)) obs end.

Fixpoint bmism (i : Z) (l : list buscase) : list Z :=
  match l with [] => [] | c :: r => if check_bus c then bmism (i + 1)%Z r else i :: bmism (i + 1)%Z r end.
Definition mismatches (l : list buscase) : list Z := bmism 0%Z l.
