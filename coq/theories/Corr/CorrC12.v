(* Correspondence evaluator for C12: outcome of DB.VerifySignature / of the DAG-sync entry point on real (tampered)
   blocks = the model's verdict on their symbolic description. *)
From Coq Require Import List ZArith Arith Bool.
From Verif Require Export Sign.
Import ListNotations.

(* key types: key k has type k mod 2 (the harness numbers keys accordingly) *)
Definition ktype (k : nat) : nat := Nat.modulo k 2.

Inductive sigcase :=
| VerifyCase (body : ublock) (sb : sigblock) (pk : nat) (observed_ok : bool)     (* DB.VerifySignature(cid, pk) *)
| ReceiveCase (body : ublock) (sb : sigblock) (observed_accepted : bool).       (* syncDAG on the pushed block *)

Definition check_sig (c : sigcase) : bool :=
  match c with
  | VerifyCase body sb pk obs =>
      match verify_with_key (fun _ => Some sb) {| b_body := body; b_sig := Some 0 |} pk with
      | Some r => Bool.eqb r obs | None => false end
  | ReceiveCase body sb obs =>
      match verify_self ktype (fun _ => Some sb) {| b_body := body; b_sig := Some 0 |} with
      | Some r => Bool.eqb r obs | None => false end
  end.

Fixpoint smism (i : Z) (l : list sigcase) : list Z :=
  match l with [] => [] | c :: r => if check_sig c then smism (i + 1)%Z r else i :: smism (i + 1)%Z r end.
Definition mismatches (l : list sigcase) : list Z := smism 0%Z l.
