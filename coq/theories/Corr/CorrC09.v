(* Correspondence evaluator for C09: the link table the harness wrote and the (parent, child) pairs the real node
   listed from the parent side, from the child side and by filtering on the foreign key (all sorted). *)
From Coq Require Import List ZArith Arith Bool.
From Verif Require Export Join JoinAgg.
Import ListNotations.

(* j_rating / j_pages: the parents' and the children's integer field; j_asc / j_desc: the sequence of parent ratings
   in which Child(order: {parent: {rating: ASC|DESC}}) listed the children (None when the harness already reported the
   listing as incomplete); j_aggs: per parent the _count and _sum(pages) of its children as the parent side returned them *)
Record jcase := mkJ { j_parents : list nat; j_links : links;
                      j_from_parent : list (nat * nat); j_from_child : list (nat * nat); j_by_fk : list (nat * nat);
                      j_rating : list (nat * Z); j_pages : list (nat * Z);
                      j_asc : option (list (option Z)); j_desc : option (list (option Z));
                      j_aggs : list (nat * (Z * Z)) }.

Fixpoint assocZ (k : nat) (l : list (nat * Z)) : option Z :=
  match l with [] => None | (k', v) :: r => if Nat.eqb k k' then Some v else assocZ k r end.
Definition oz_eqb (a b : option Z) : bool :=
  match a, b with None, None => true | Some x, Some y => Z.eqb x y | _, _ => false end.
Fixpoint loz_eqb (a b : list (option Z)) : bool :=
  match a, b with [] , [] => true | x :: a', y :: b' => oz_eqb x y && loz_eqb a' b' | _, _ => false end.
Definition check_order (desc : bool) (c : jcase) (obs : option (list (option Z))) : bool :=
  match obs with
  | None => true
  | Some s => let key := fun p => assocZ p (j_rating c) in loz_eqb s (map (ck key) (order_children desc key (j_links c)))
  end.
Definition check_aggs (c : jcase) : bool :=
  let w := fun ch => match assocZ ch (j_pages c) with Some z => z | None => 0%Z end in
  forallb (fun a => Z.eqb (fst (snd a)) (wcount (children (j_links c) (fst a))) &&
                    Z.eqb (snd (snd a)) (wsum w (children (j_links c) (fst a)))) (j_aggs c).

Definition pair_leb (a b : nat * nat) : bool :=
  Nat.ltb (fst a) (fst b) || (Nat.eqb (fst a) (fst b) && Nat.leb (snd a) (snd b)).
Fixpoint ins_pair (x : nat * nat) (l : list (nat * nat)) : list (nat * nat) :=
  match l with [] => [x] | y :: r => if pair_leb x y then x :: l else y :: ins_pair x r end.
Definition sort_pairs (l : list (nat * nat)) := fold_right ins_pair [] l.
Fixpoint lp_eqb (a b : list (nat * nat)) : bool :=
  match a, b with
  | [], [] => true
  | x :: a', y :: b' => Nat.eqb (fst x) (fst y) && Nat.eqb (snd x) (snd y) && lp_eqb a' b'
  | _, _ => false
  end.

Definition check_case (c : jcase) : bool :=
  let m1 := sort_pairs (pairs_from_parent (j_parents c) (j_links c)) in
  let m2 := sort_pairs (pairs_from_child (j_links c)) in
  lp_eqb m1 (j_from_parent c) && lp_eqb m2 (j_from_child c) && lp_eqb m1 (j_by_fk c) &&
  check_order false c (j_asc c) && check_order true c (j_desc c) && check_aggs c.

Fixpoint mism (i : Z) (l : list jcase) : list Z :=
  match l with [] => [] | c :: r => if check_case c then mism (i + 1)%Z r else i :: mism (i + 1)%Z r end.
Definition mismatches (l : list jcase) : list Z := mism 0%Z l.
