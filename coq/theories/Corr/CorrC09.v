(* Correspondence evaluator for C09: the link table the harness wrote and the (parent, child) pairs the real node
   listed from the parent side, from the child side and by filtering on the foreign key (all sorted). *)
From Coq Require Import List ZArith Arith Bool.
From Verif Require Export Join.
Import ListNotations.

Record jcase := mkJ { j_parents : list nat; j_links : links;
                      j_from_parent : list (nat * nat); j_from_child : list (nat * nat); j_by_fk : list (nat * nat) }.

Definition pair_leb (a b : nat * nat) : bool :=
  Nat.ltb (fst a) (fst b) || (Nat.eqb (fst a) (fst b) && Nat.leb (snd a) (snd b)).
Fixpoint ins_pair (x : nat * nat) (l : list (nat * nat)) : list (nat * nat) :=
  match l with [] => [x] | y :: r => if pair_leb x y then x :: l else y :: ins_pair x r end.
Definition sort_pairs (l : list (nat * nat)) := fold_right ins_pair [] l.
Fixpoint lp_eqb (a b : list (nat * nat)) : bool :=
  match a, b with
  | [], [] => true
  | x :: a', y :: b' => Nat.eqb (fst x) (fst y) && Nat.eqb (snd x) (snd y) && lp_eqb a' b'
  | _, _ => false
  end.

Definition check_case (c : jcase) : bool :=
  let m1 := sort_pairs (pairs_from_parent (j_parents c) (j_links c)) in
  let m2 := sort_pairs (pairs_from_child (j_links c)) in
  lp_eqb m1 (j_from_parent c) && lp_eqb m2 (j_from_child c) && lp_eqb m1 (j_by_fk c).

Fixpoint mism (i : Z) (l : list jcase) : list Z :=
  match l with [] => [] | c :: r => if check_case c then mism (i + 1)%Z r else i :: mism (i + 1)%Z r end.
Definition mismatches (l : list jcase) : list Z := mism 0%Z l.
