(* Correspondence evaluator for C15: for the event sequence executed on two real nodes, at the end of which B held
   every document of A and the replicator was active, the model (after the final Up and one retry round) agrees:
   everything delivered, retry set empty, replicator active. *)
From Coq Require Import List ZArith Arith Bool.
From Verif Require Export Replicate.
Import ListNotations.

Inductive replcase := ReplCase (es : list ev) (ndocs : nat).

Definition check_repl (c : replcase) : bool :=
  match c with
  | ReplCase es n =>
      let s := step (step (run init es) Up) Tick in
      forallb (fun d => Nat.eqb (has s d) (head s d)) (seq 0 n) &&
      match retry s with [] => true | _ => false end && active s
  end.

Fixpoint rmism (i : Z) (l : list replcase) : list Z :=
  match l with [] => [] | c :: r => if check_repl c then rmism (i + 1)%Z r else i :: rmism (i + 1)%Z r end.
Definition mismatches (l : list replcase) : list Z := rmism 0%Z l.
