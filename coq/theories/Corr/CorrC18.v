(* Correspondence evaluator for C18: the set of documents whose id the export file announces as changed
   (_docIDNew <> _docID) = the documents whose specified new id differs from their current id. *)
From Coq Require Import List ZArith Arith Bool.
From Verif Require Export Backup.
Import ListNotations.

Fixpoint lz_eqb (a b : list Z) : bool :=
  match a, b with [], [] => true | x :: a', y :: b' => Z.eqb x y && lz_eqb a' b' | _, _ => false end.

Fixpoint idt_eqb (a b : idt) {struct a} : bool :=
  match a, b with
  | Hid c v f, Hid c' v' f' =>
      Nat.eqb c c' && lz_eqb v v' &&
      (fix go (l l' : list (option idt)) {struct l} : bool :=
         match l, l' with
         | [], [] => true
         | None :: r, None :: r' => go r r'
         | Some x :: r, Some y :: r' => idt_eqb x y && go r r'
         | _, _ => false
         end) f f'
  end.

Inductive bkcase := BkCase (d : db) (changed : list bool).

Definition check_bk (c : bkcase) : bool :=
  match c with
  | BkCase d changed =>
      let fuel := S (length d) in
      let predicted := map (fun i => match nth_error d i, newid fuel d i with
                                     | Some x, Some t => negb (idt_eqb t (d_id x))
                                     | _, _ => true end) (seq 0 (length d)) in
      (fix eqb (a b : list bool) : bool :=
         match a, b with [], [] => true | x :: a', y :: b' => Bool.eqb x y && eqb a' b' | _, _ => false end) predicted changed
  end.

Fixpoint bmism (i : Z) (l : list bkcase) : list Z :=
  match l with [] => [] | c :: r => if check_bk c then bmism (i + 1)%Z r else i :: bmism (i + 1)%Z r end.
Definition mismatches (l : list bkcase) : list Z := bmism 0%Z l.
