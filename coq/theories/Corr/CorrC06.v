(* Correspondence evaluator for C06: schedules of explicit transactions executed on a real node, with every
   read result, operation result, commit result and the non-transactional view after every step. *)
From Coq Require Import List ZArith Arith Bool.
From Verif Require Export Mvcc.
Import ListNotations.

Record tcase := mkTC { tc_docs : nat; tc_steps : list (top * list value) }.

Definition val_eqb (a b : value) : bool :=
  match a, b with None, None => true | Some x, Some y => Z.eqb x y | _, _ => false end.

Definition observed (o : top) : pred :=
  match o with
  | TRead _ _ r => PVal r
  | TWrite _ _ _ ok | TCreate _ _ _ ok | TDelete _ _ ok | TCommit _ ok => POk ok
  | TList _ l => PList l
  | _ => PNone
  end.
Fixpoint ln_eqb (a b : list nat) : bool :=
  match a, b with [], [] => true | x :: a', y :: b' => Nat.eqb x y && ln_eqb a' b' | _, _ => false end.
Definition pred_eqb (a b : pred) : bool :=
  match a, b with
  | PNone, PNone => true | PVal x, PVal y => val_eqb x y | POk x, POk y => Bool.eqb x y | PList x, PList y => ln_eqb x y
  | _, _ => false end.

(* documents probed: 0..n-1 then the created ones in order of first appearance in the schedule *)
Fixpoint created (l : list (top * list value)) (seen : list nat) : list nat :=
  match l with
  | [] => []
  | (TCreate _ d _ _, _) :: r => if existsb (Nat.eqb d) seen then created r seen else d :: created r (d :: seen)
  | _ :: r => created r seen
  end.

Fixpoint probe_ok (cur : dmap) (ds : list nat) (vs : list value) : bool :=
  match ds, vs with
  | d :: ds', v :: vs' => val_eqb (dget d cur) v && probe_ok cur ds' vs'
  | _, _ => true
  end.

(* One observed step.  A commit that the real node refused is always acceptable (the store may detect conflicts
   conservatively, e.g. through keys touched by an iterator): the model then aborts that transaction, whatever its
   own conflict rule says, and the observations that follow must match this outcome (no effect of the refused
   transaction).  A commit the real node accepted must be one the model accepts: otherwise an update was lost. *)
Definition step_obs (s : mv) (o : top) : mv * bool :=
  match o with
  | TCommit t false =>
      let x := gettx s t in
      (settx s t (mkTx (t_snap x) (t_start x) (t_reads x) (t_writes x) false), true)
  | _ => let '(s', p) := mstep s o in (s', pred_eqb p (observed o))
  end.

Fixpoint run_case (s : mv) (ds : list nat) (l : list (top * list value)) (i : Z) : option Z :=
  match l with
  | [] => None
  | (o, probe) :: r =>
      let '(s', ok) := step_obs s o in
      if ok && probe_ok (m_cur s') ds probe then run_case s' ds r (i + 1)%Z else Some i
  end.

Definition init_docs (n : nat) : dmap := map (fun d => (d, Some (Z.of_nat d))) (seq 0 n).

Definition check_case (c : tcase) : option Z :=
  let base := seq 0 (tc_docs c) in
  run_case (minit (init_docs (tc_docs c))) (base ++ created (tc_steps c) base) (tc_steps c) 0%Z.

Fixpoint mism (i : Z) (l : list tcase) : list Z :=
  match l with
  | [] => []
  | c :: r => match check_case c with None => mism (i + 1)%Z r | Some _ => i :: mism (i + 1)%Z r end
  end.
Definition mismatches (l : list tcase) : list Z := mism 0%Z l.
