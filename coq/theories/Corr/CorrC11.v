(* Correspondence evaluator for C11: the encryption flag of every field block written by a real node, commit by
   commit = the model. *)
From Coq Require Import List ZArith Arith Bool.
From Verif Require Export Encrypt.
Import ListNotations.

Inductive enccase := EncCase (docenc : bool) (listed : list nat) (steps : list (bool * list nat)) (obs : list (list bool)).

Fixpoint lb_eqb (a b : list bool) : bool :=
  match a, b with [], [] => true | x :: a', y :: b' => Bool.eqb x y && lb_eqb a' b' | _, _ => false end.
Fixpoint llb_eqb (a b : list (list bool)) : bool :=
  match a, b with [], [] => true | x :: a', y :: b' => lb_eqb x y && llb_eqb a' b' | _, _ => false end.

Definition check_enc (c : enccase) : bool :=
  match c with EncCase d l steps obs => llb_eqb (flags {| doc_enc := d; enc_fields := l |} steps) obs end.

Fixpoint emism (i : Z) (l : list enccase) : list Z :=
  match l with [] => [] | c :: r => if check_enc c then emism (i + 1)%Z r else i :: emism (i + 1)%Z r end.
Definition mismatches (l : list enccase) : list Z := emism 0%Z l.
