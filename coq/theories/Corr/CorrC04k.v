(* Correspondence evaluator for the head-key model (C04): the raw keys of the head store of one document (the part
   after /d/<docID>/, i.e. <fieldID>/<cid>, as bytes), and for some field identifiers the number of heads the node
   reports for that field. The model lists the keys by the prefix <fieldID>/ . *)
From Coq Require Import List ZArith Bool.
From Verif Require Export Bytes Sem HeadKeys.
Import ListNotations.
Open Scope Z_scope.

Record kcase := KCase { k_keys : list (list Z); k_fields : list (list Z * Z) }.   (* field id bytes, reported heads *)

Definition listed (field : list Z) (keys : list (list Z)) : Z :=
  Z.of_nat (length (filter (fun k => is_prefix (field ++ [sep]) k) keys)).

Definition check_kcase (c : kcase) : bool :=
  forallb (fun fh => Z.eqb (listed (fst fh) (k_keys c)) (snd fh)) (k_fields c).

Fixpoint kmism (i : Z) (l : list kcase) : list Z :=
  match l with [] => [] | c :: r => if check_kcase c then kmism (i + 1) r else i :: kmism (i + 1) r end.
Definition mismatches (l : list kcase) : list Z := kmism 0 l.
