(* Correspondence evaluator for C01/C02/C04: a history observed on real nodes (blocks as decoded from the
   block store, every local write / delivery with the row, head set and merge result observed right
   after it) is replayed on the operational model of Crdt/Model.v. *)
From Coq Require Import List ZArith Arith Bool.
From Verif Require Export GoSem Bytes Model Exact Versioned.
Import ListNotations.
Local Open Scope nat_scope.

Inductive skind := SLocal | SDeliver | SNoop | SVersioned | SLocalQ.
Inductive fobs := OReg (v : list Z) | OCtr (v : Z).

Record sstep := mkS {
  s_kind : skind; s_node : nat; s_cid : Z; s_err : bool;
  s_row : option (bool * list fobs);       (* None: document not present; deleted flag, fields 0..n-1 *)
  s_heads : list nat }.

Record hcase := mkH { h_nodes : nat; h_blocks : list blk; h_steps : list sstep }.

Fixpoint lz_eqb (a b : list Z) : bool :=
  match a, b with
  | [], [] => true
  | x :: a', y :: b' => Z.eqb x y && lz_eqb a' b'
  | _, _ => false
  end.

Fixpoint check_fields (vs : vstate) (i : Z) (l : list fobs) : bool :=
  match l with
  | [] => true
  | OReg v :: r => lz_eqb (snd (get_reg i (v_regs vs))) v && check_fields vs (i + 1) r
  | OCtr z :: r => Z.eqb (i64 (get_ctr i (v_ctrs vs))) z && check_fields vs (i + 1) r
  end.

Definition check_row (vs : vstate) (row : option (bool * list fobs)) : bool :=
  match v_marker vs, row with
  | None, None => true
  | Some d, Some (d', fs) => Bool.eqb d d' && check_fields vs 0 fs
  | _, _ => false
  end.

Fixpoint set_nth {A} (n : nat) (x : A) (l : list A) : list A :=
  match n, l with
  | O, _ :: r => x :: r
  | S n', y :: r => y :: set_nth n' x r
  | _, [] => []
  end.

(* one step: returns the new replica list and whether the observation agrees *)
(* time-travel read at commit c: replay of c and its ancestors into an empty replica (Crdt/Versioned.v) *)
Definition run_step (u : universe) (rs : list rstate) (st : sstep) : list rstate * bool :=
  let s := nth (s_node st) rs rinit in
  let c := Z.to_nat (s_cid st) in
  match s_kind st with
  | SVersioned => (rs, check_row (r_vs (versioned u c)) (s_row st))
  | SLocalQ => (set_nth (s_node st) (local u s c) rs, local_ok u s c)   (* written inside a transaction: state not observable yet *)
  | _ =>
  let '(s', pre) :=
    match s_kind st with
    | SLocal => (local u s c, local_ok u s c)
    | SDeliver => (deliver u s c, true)
    | _ => (s, true)
    end in
  let ok := pre && negb (s_err st) && check_row (r_vs s') (s_row st) && same_set (r_heads s') (s_heads st) in
  (set_nth (s_node st) s' rs, ok)
  end.

Fixpoint run_steps (u : universe) (rs : list rstate) (l : list sstep) (i : Z) : option Z :=
  match l with
  | [] => None
  | st :: r => let '(rs', ok) := run_step u rs st in
               if ok then run_steps u rs' r (i + 1) else Some i
  end.

(* None = agreement on every step; Some i = first disagreeing step *)
Definition check_case (h : hcase) : option Z :=
  if wfb (h_blocks h)       (* the hypothesis of every theorem, checked on the blocks the implementation wrote *)
  then run_steps (h_blocks h) (repeat rinit (h_nodes h)) (h_steps h) 0
  else Some (-1)%Z.

Fixpoint mism (i : Z) (l : list hcase) : list Z :=
  match l with
  | [] => []
  | c :: r => match check_case c with None => mism (i + 1) r | Some _ => i :: mism (i + 1) r end
  end.
Definition mismatches (l : list hcase) : list Z := mism 0 l.
