(* Correspondence evaluator for C13: (a) the key order found in the bytes hashed for a document id = the model's
   canonical order of the given keys; (b) the grouping of schemas into sets derived from the ids assigned by the
   real setSchemaIDs = the model's grouping. *)
From Coq Require Import List ZArith Arith Bool.
From Verif Require Export DocId SchemaSets.
Import ListNotations.

Inductive icase :=
| KeyCase (given observed : list (list Z))
| SetCase (schemas : list (nat * list nat)) (observed : list (nat * list nat)).

Fixpoint lz_eqb (a b : list Z) : bool :=
  match a, b with [], [] => true | x :: a', y :: b' => Z.eqb x y && lz_eqb a' b' | _, _ => false end.
Fixpoint llz_eqb (a b : list (list Z)) : bool :=
  match a, b with [], [] => true | x :: a', y :: b' => lz_eqb x y && llz_eqb a' b' | _, _ => false end.
Fixpoint ln_eqb (a b : list nat) : bool :=
  match a, b with [], [] => true | x :: a', y :: b' => Nat.eqb x y && ln_eqb a' b' | _, _ => false end.
Fixpoint grp_eqb (a b : list (nat * list nat)) : bool :=
  match a, b with
  | [], [] => true
  | (x, l) :: a', (y, m) :: b' => Nat.eqb x y && ln_eqb l m && grp_eqb a' b'
  | _, _ => false
  end.

Definition check_icase (c : icase) : bool :=
  match c with
  | KeyCase given observed => llz_eqb (canon_keys given) observed
  | SetCase schemas observed => grp_eqb (groups schemas) observed
  end.

Fixpoint imism (i : Z) (l : list icase) : list Z :=
  match l with [] => [] | c :: r => if check_icase c then imism (i + 1)%Z r else i :: imism (i + 1)%Z r end.
Definition mismatches (l : list icase) : list Z := imism 0%Z l.
