(* Correspondence evaluator for the replicator routing model (C14, peer configuration): a history of SetReplicator /
   DeleteReplicator calls and restarts executed on a real node A with two possible targets, followed by one new
   document per collection; observed: which target received which collection's document, and the collections
   GetAllReplicators reports for each target. *)
From Coq Require Import List ZArith Arith Bool.
From Verif Require Export Routing.
Import ListNotations.

Record rcase := RCase { r_ops : list cop;
                        r_delivered : list (coll * peer * bool);      (* did p receive the new document of c *)
                        r_config : list (peer * list coll) }.         (* GetAllReplicators, collections sorted *)

Fixpoint ins_nat (x : nat) (l : list nat) : list nat :=
  match l with [] => [x] | y :: r => if Nat.leb x y then x :: l else y :: ins_nat x r end.
Definition sort_nat (l : list nat) : list nat := fold_right ins_nat [] l.
Fixpoint ln_eqb (a b : list nat) : bool :=
  match a, b with [], [] => true | x :: a', y :: b' => Nat.eqb x y && ln_eqb a' b' | _, _ => false end.

Definition check_rcase (c : rcase) : bool :=
  let n := crun (r_ops c) in
  forallb (fun o => Bool.eqb (routes (tab n) (fst (fst o)) (snd (fst o))) (snd o)) (r_delivered c) &&
  forallb (fun pc => ln_eqb (sort_nat (lookup (fst pc) (cfg n))) (snd pc)) (r_config c).

Fixpoint rmism (i : Z) (l : list rcase) : list Z :=
  match l with [] => [] | c :: r => if check_rcase c then rmism (i + 1)%Z r else i :: rmism (i + 1)%Z r end.
Definition mismatches (l : list rcase) : list Z := rmism 0%Z l.
