(* Correspondence evaluator for C19: what node A shows for its documents under its newest version after a generated
   history of patches, switches and writes = view of the model after the same operations. *)
From Coq Require Import List ZArith Arith Bool.
From Verif Require Export Model Order Evolve.
Import ListNotations.

Inductive evcase := EvCase (ops : list op) (obs : list (nat * nat * list Z)).

Fixpoint lz_eqb (a b : list Z) : bool :=
  match a, b with [], [] => true | x :: a', y :: b' => Z.eqb x y && lz_eqb a' b' | _, _ => false end.

Definition node0 : node := {| versions := [[0; 1]]; active := 0; log := [] |}.

Definition check_ev (c : evcase) : bool :=
  match c with
  | EvCase ops obs =>
      let n := run node0 ops in
      forallb (fun o => match o with (d, f, v) =>
                 match view n d f with Some r => lz_eqb (snd r) v | None => false end end) obs
  end.

Fixpoint vmism (i : Z) (l : list evcase) : list Z :=
  match l with [] => [] | c :: r => if check_ev c then vmism (i + 1)%Z r else i :: vmism (i + 1)%Z r end.
Definition mismatches (l : list evcase) : list Z := vmism 0%Z l.
