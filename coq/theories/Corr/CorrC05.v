(* Correspondence evaluator for C05: the store operations one real API call issued (logged at the corekv boundary,
   keys and values interned to integers whose order is the byte order of the keys) are replayed on the model
   transaction of Kv/Txn.v: every read must return what snapshot + own writes predict, the committed write sets
   must produce exactly the store contents observed afterwards, and a call that reported an error must have left
   the store unchanged and published nothing. *)
From Coq Require Import List ZArith Bool.
From Verif Require Export Txn.
Import ListNotations.
Local Open Scope Z_scope.

Inductive kvop :=
| KGet (t k : Z) (r : option Z) | KHas (t k : Z) (b : bool) | KSet (t k v : Z) | KDel (t k : Z)
| KIter (t lo hi : Z) | KNext (t : Z) (r : option Z) | KCommit (t : Z) | KDiscard (t : Z).

Record fcase := mkF { f_init : list (Z * Z); f_ops : list kvop; f_final : list (Z * Z); f_ok : bool; f_events : Z }.

Definition amap := list (Z * option Z).          (* latest binding first *)
Fixpoint alook (k : Z) (m : amap) : option (option Z) :=
  match m with [] => None | (k', v) :: r => if Z.eqb k' k then Some v else alook k r end.
Definition aget (k : Z) (m : amap) : option Z := match alook k m with Some v => v | None => None end.

Record mtxn := mkMT { mt_id : Z; mt_snap : amap; mt_writes : amap }.
Record mstate := mkMS { committed : amap; txns : list mtxn }.

Fixpoint find_txn (t : Z) (l : list mtxn) : option mtxn :=
  match l with [] => None | x :: r => if Z.eqb (mt_id x) t then Some x else find_txn t r end.
Fixpoint drop_txn (t : Z) (l : list mtxn) : list mtxn :=
  match l with [] => [] | x :: r => if Z.eqb (mt_id x) t then r else x :: drop_txn t r end.

(* a transaction takes its snapshot when it is first seen *)
Definition get_txn (s : mstate) (t : Z) : mtxn :=
  match find_txn t (txns s) with Some x => x | None => mkMT t (committed s) [] end.
Definition put_txn (s : mstate) (x : mtxn) : mstate :=
  mkMS (committed s) (x :: drop_txn (mt_id x) (txns s)).

Definition view (s : mstate) (t k : Z) : option Z :=
  if Z.eqb t 0 then aget k (committed s)
  else let x := get_txn s t in
       match alook k (mt_writes x) with Some v => v | None => aget k (mt_snap x) end.

Definition opt_eqb (a b : option Z) : bool :=
  match a, b with None, None => true | Some x, Some y => Z.eqb x y | _, _ => false end.

Definition write (s : mstate) (t k : Z) (v : option Z) : mstate :=
  if Z.eqb t 0 then mkMS ((k, v) :: committed s) (txns s)
  else let x := get_txn s t in put_txn s (mkMT t (mt_snap x) ((k, v) :: mt_writes x)).

Definition step_op (s : mstate) (o : kvop) : mstate * bool :=
  match o with
  | KGet t k r => (if Z.eqb t 0 then s else put_txn s (get_txn s t), opt_eqb (view s t k) r)
  | KHas t k b => (if Z.eqb t 0 then s else put_txn s (get_txn s t), Bool.eqb (match view s t k with Some _ => true | None => false end) b)
  | KSet t k v => (write s t k (Some v), true)
  | KDel t k => (write s t k None, true)
  | KIter t lo hi => (if Z.eqb t 0 then s else put_txn s (get_txn s t), Z.leb lo hi)
  | KNext t None => (s, true)
  | KNext t (Some k) =>
      (* the key an iterator yields exists in the transaction's snapshot or among its own writes *)
      (s, if Z.eqb t 0 then (match aget k (committed s) with Some _ => true | None => false end)
          else let x := get_txn s t in
               match aget k (mt_snap x), alook k (mt_writes x) with
               | Some _, _ => true | None, Some (Some _) => true | _, _ => false end)
  | KCommit t =>
      let x := get_txn s t in
      (mkMS (rev (mt_writes x) ++ [] ++ committed s) (drop_txn t (txns s)), true)
  | KDiscard t => (mkMS (committed s) (drop_txn t (txns s)), true)
  end.

(* commit applies the write set oldest first: as the association list is latest-first, prepend the writes as they are *)
Definition step_op' (s : mstate) (o : kvop) : mstate * bool :=
  match o with
  | KCommit t => let x := get_txn s t in (mkMS (mt_writes x ++ committed s) (drop_txn t (txns s)), true)
  | _ => step_op s o
  end.

Fixpoint run_ops (s : mstate) (l : list kvop) (i : Z) : mstate * option Z :=
  match l with
  | [] => (s, None)
  | o :: r => let '(s', ok) := step_op' s o in if ok then run_ops s' r (i + 1) else (s', Some i)
  end.

Definition to_amap (l : list (Z * Z)) : amap := map (fun kv => (fst kv, Some (snd kv))) l.

Definition same_map (m : amap) (l : list (Z * Z)) : bool :=
  forallb (fun kv => opt_eqb (aget (fst kv) m) (Some (snd kv))) l &&
  forallb (fun kv => opt_eqb (aget (fst kv) m) (aget (fst kv) (to_amap l))) m.

(* None = the trace is a run of the model; Some i = first operation the model does not explain,
   Some (-1) = final contents differ, Some (-2) = error reported but the store changed or events were published *)
Definition check_case (c : fcase) : option Z :=
  let '(s, bad) := run_ops (mkMS (to_amap (f_init c)) []) (f_ops c) 0 in
  match bad with
  | Some i => Some i
  | None =>
    if negb (same_map (committed s) (f_final c)) then Some (-1)
    else if negb (f_ok c) && negb (same_map (to_amap (f_init c)) (f_final c) && Z.eqb (f_events c) 0) then Some (-2)
    else None
  end.

Fixpoint mism (i : Z) (l : list fcase) : list Z :=
  match l with
  | [] => []
  | c :: r => match check_case c with None => mism (i + 1) r | Some _ => i :: mism (i + 1) r end
  end.
Definition mismatches (l : list fcase) : list Z := mism 0 l.
