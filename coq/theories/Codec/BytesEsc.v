(* Escaped byte-string key codec: hand transcription of EncodeBytesAscending/Descending and
   decodeBytesInternal (internal/encoding/bytes.go); constants from the generated file. *)
From Coq Require Import List ZArith Lia Bool.
From Verif Require Import GoSem GenEnc Bytes.
Import ListNotations.
Open Scope Z_scope.

(* encodeBytesAscendingWithoutTerminatorOrPrefix: every [escape] byte becomes escape,escaped00 *)
Fixpoint esc_body (data : list Z) : list Z :=
  match data with
  | [] => []
  | x :: r => if x =? G_escape then G_escape :: G_escaped00 :: esc_body r else x :: esc_body r
  end.

Definition enc_bytes_a (data : list Z) : list Z :=
  G_bytesMarker :: esc_body data ++ [G_escape; G_escapedTerm].

(* EncodeBytesDescending: ascending encoding, marker replaced, everything after it complemented *)
Definition enc_bytes_d (data : list Z) : list Z :=
  G_bytesDescMarker :: map not_u8 (esc_body data ++ [G_escape; G_escapedTerm]).

(* decodeBytesInternal with (escape, escapedTerm, escaped00, escapedFF); fuel = length of input *)
Fixpoint dec_body (fuel : nat) (esc term e00 eFF : Z) (b acc : list Z) : option (list Z * list Z) :=
  match fuel with
  | O => None
  | S fuel' =>
    match b with
    | [] => None                                   (* terminator not found *)
    | x :: r =>
      if x =? esc then
        match r with
        | [] => None                               (* malformed escape *)
        | v :: r' =>
          if v =? term then Some (r', rev acc)
          else if v =? e00 then dec_body fuel' esc term e00 eFF r' (eFF :: acc)
          else None                                (* unknown escape sequence *)
        end
      else dec_body fuel' esc term e00 eFF r (x :: acc)
    end
  end.

Definition dec_bytes_a (b : list Z) : option (list Z * list Z) :=
  match b with
  | m :: r => if m =? G_bytesMarker
              then dec_body (S (length r)) G_escape G_escapedTerm G_escaped00 G_escapedFF r []
              else None
  | [] => None
  end.

Definition dec_bytes_d (b : list Z) : option (list Z * list Z) :=
  match b with
  | m :: r => if m =? G_bytesDescMarker
              then match dec_body (S (length r)) G_escapeDesc G_escapedTermDesc G_escaped00Desc G_escapedFFDesc r [] with
                   | Some (rest, v) => Some (rest, map not_u8 v)
                   | None => None
                   end
              else None
  | [] => None
  end.
