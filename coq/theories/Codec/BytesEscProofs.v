(* Order preservation of the escaped byte-string key codec (strings, blobs and the string part of composite keys):
   for byte strings a, b the encodings compare like a and b themselves; the descending encoding reverses the order.
   The constants (escape 0x00, escaped 0x00 -> 0xFF, terminator 0x01) come from the generated file, so a change of
   them in internal/encoding breaks these proofs. *)
From Coq Require Import List ZArith Lia Bool.
From Verif Require Import GoSem GenEnc Bytes BytesEsc.
Import ListNotations.
Open Scope Z_scope.

Definition body_t (d : list Z) : list Z := esc_body d ++ [G_escape; G_escapedTerm].

Lemma consts : G_escape = 0 /\ G_escapedTerm = 1 /\ G_escaped00 = 255.
Proof. repeat split; reflexivity. Qed.

Lemma body_order a : forall b, bytes a -> bytes b -> bcmp (body_t a) (body_t b) = bcmp a b.
Proof.
  destruct consts as [Ce [Ct C0]].
  induction a as [|x a IH]; intros [|y b] Ha Hb; unfold body_t; cbn [esc_body app bcmp].
  - rewrite Ce, Ct. reflexivity.
  - inversion Hb as [|? ? Hy Hb']; subst. unfold is_byte in Hy. rewrite Ce, Ct, C0.
    destruct (Z.eqb_spec y 0) as [->|Hne]; cbn [app bcmp]; [reflexivity|].
    destruct (Z.compare_spec 0 y); [lia|reflexivity|lia].
  - inversion Ha as [|? ? Hx Ha']; subst. unfold is_byte in Hx. rewrite Ce, Ct, C0.
    destruct (Z.eqb_spec x 0) as [->|Hne]; cbn [app bcmp]; [reflexivity|].
    destruct (Z.compare_spec x 0); [lia|lia|reflexivity].
  - inversion Ha as [|? ? Hx Ha']; inversion Hb as [|? ? Hy Hb']; subst. unfold is_byte in Hx, Hy.
    specialize (IH b Ha' Hb'). unfold body_t in IH. rewrite Ce, Ct in IH. rewrite Ce, Ct, C0.
    destruct (Z.eqb_spec x 0) as [->|Hx0], (Z.eqb_spec y 0) as [->|Hy0]; cbn [app bcmp].
    + rewrite !Z.compare_refl. exact IH.
    + destruct (Z.compare_spec 0 y); [lia|reflexivity|lia].
    + destruct (Z.compare_spec x 0); [lia|lia|reflexivity].
    + destruct (Z.compare_spec x y); auto.
Qed.

Theorem enc_bytes_a_order : forall a b, bytes a -> bytes b -> bcmp (enc_bytes_a a) (enc_bytes_a b) = bcmp a b.
Proof.
  intros a b Ha Hb. unfold enc_bytes_a. cbn [bcmp]. rewrite Z.compare_refl.
  change (esc_body a ++ [G_escape; G_escapedTerm]) with (body_t a).
  change (esc_body b ++ [G_escape; G_escapedTerm]) with (body_t b). now apply body_order.
Qed.

(* distinct values have encodings neither of which is a prefix of the other: complementing every byte then reverses
   the comparison *)
Lemma bcmp_not_prefix_free a : forall b, bytes a -> bytes b ->
  (forall p, a <> b ++ p) -> (forall p, b <> a ++ p) ->
  bcmp (map not_u8 a) (map not_u8 b) = CompOpp (bcmp a b).
Proof.
  induction a as [|x a IH]; intros [|y b] Ha Hb H1 H2; cbn [map bcmp].
  - exfalso. apply (H1 []). reflexivity.
  - exfalso. apply (H2 (y :: b)). reflexivity.
  - exfalso. apply (H1 (x :: a)). reflexivity.
  - inversion Ha as [|? ? Hx Ha']; inversion Hb as [|? ? Hy Hb']; subst. unfold is_byte in Hx, Hy.
    unfold not_u8.
    destruct (Z.compare_spec x y) as [E|E|E].
    + subst y. rewrite Z.compare_refl. apply IH; auto.
      * intros p Hp. apply (H1 p). cbn. now rewrite Hp.
      * intros p Hp. apply (H2 p). cbn. now rewrite Hp.
    + cbn [CompOpp]. destruct (Z.compare_spec (255 - x) (255 - y)); [lia|lia|reflexivity].
    + cbn [CompOpp]. destruct (Z.compare_spec (255 - x) (255 - y)); [lia|reflexivity|lia].
Qed.

Lemma body_bytes a : bytes a -> bytes (body_t a).
Proof.
  destruct consts as [Ce [Ct C0]]. unfold body_t. rewrite Ce, Ct.
  assert (B0 : is_byte 0) by (unfold is_byte; lia).
  assert (B1 : is_byte 1) by (unfold is_byte; lia).
  assert (B255 : is_byte 255) by (unfold is_byte; lia).
  induction a as [|x a IH]; intros Ha; cbn [esc_body app].
  - constructor; [exact B0|constructor; [exact B1|constructor]].
  - inversion Ha as [|? ? Hx Ha']; subst. rewrite Ce, C0.
    destruct (Z.eqb_spec x 0); cbn [app].
    + constructor; [exact B0|constructor; [exact B255|apply IH; exact Ha']].
    + constructor; [exact Hx|apply IH; exact Ha'].
Qed.

Lemma body_prefix_free a : forall b p, bytes a -> bytes b -> body_t a = body_t b ++ p -> a = b.
Proof.
  destruct consts as [Ce [Ct C0]].
  induction a as [|x a IH]; intros [|y b] p Ha Hb H; unfold body_t in H; cbn [esc_body app] in H; auto.
  - rewrite Ce, Ct, C0 in H. destruct (Z.eqb_spec y 0) as [->|Hne]; cbn [app] in H; inversion H; congruence.
  - rewrite Ce, Ct, C0 in H. destruct (Z.eqb_spec x 0) as [->|Hne]; cbn [app] in H; inversion H; congruence.
  - inversion Ha as [|? ? Hx Ha']; inversion Hb as [|? ? Hy Hb']; subst.
    rewrite Ce, Ct, C0 in H.
    assert (IH' : forall p, esc_body a ++ [0; 1] = (esc_body b ++ [0; 1]) ++ p -> a = b).
    { intros q Hq. apply (IH b q); auto. }
    destruct (Z.eqb_spec x 0) as [->|Hx0], (Z.eqb_spec y 0) as [->|Hy0]; cbn [app] in H.
    + f_equal. apply (IH' p).
      assert (E : tl (tl (0 :: 255 :: esc_body a ++ [0; 1])) = tl (tl (0 :: 255 :: (esc_body b ++ [0; 1]) ++ p))) by (now rewrite H).
      cbn [tl] in E. exact E.
    + exfalso. assert (E : hd 7 (0 :: 255 :: esc_body a ++ [0; 1]) = hd 7 (y :: (esc_body b ++ [0; 1]) ++ p)) by (now rewrite H).
      cbn [hd] in E. congruence.
    + exfalso. assert (E : hd 7 (x :: esc_body a ++ [0; 1]) = hd 7 (0 :: 255 :: (esc_body b ++ [0; 1]) ++ p)) by (now rewrite H).
      cbn [hd] in E. congruence.
    + assert (E : hd 7 (x :: esc_body a ++ [0; 1]) = hd 7 (y :: (esc_body b ++ [0; 1]) ++ p)) by (now rewrite H).
      cbn [hd] in E. subst y. f_equal. apply (IH' p).
      assert (E2 : tl (x :: esc_body a ++ [0; 1]) = tl (x :: (esc_body b ++ [0; 1]) ++ p)) by (now rewrite H).
      cbn [tl] in E2. exact E2.
Qed.

Theorem enc_bytes_d_order : forall a b, bytes a -> bytes b -> a <> b ->
  bcmp (enc_bytes_d a) (enc_bytes_d b) = CompOpp (bcmp a b).
Proof.
  intros a b Ha Hb Hne. unfold enc_bytes_d. cbn [bcmp]. rewrite Z.compare_refl.
  change (esc_body a ++ [G_escape; G_escapedTerm]) with (body_t a).
  change (esc_body b ++ [G_escape; G_escapedTerm]) with (body_t b).
  rewrite bcmp_not_prefix_free; try (now apply body_bytes).
  - now rewrite body_order.
  - intros p Hp. apply Hne. eapply body_prefix_free; eauto.
  - intros p Hp. apply Hne. symmetry. eapply body_prefix_free; eauto.
Qed.
