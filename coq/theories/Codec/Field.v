(* Field values and index keys: EncodeFieldValue / EncodeIndexDataStoreKey (field_value.go,
   keys/datastore_index.go).  Integer, float, bool, null and time encoders are the GENERATED
   functions; byte strings use the hand transcription of BytesEsc.v. *)
From Coq Require Import List ZArith Lia Bool.
From Verif Require Import GoSem GenEnc Bytes BytesEsc VarintDec.
Import ListNotations.
Open Scope Z_scope.

Inductive fval :=
| FNull
| FBool (b : bool)
| FInt (v : Z)                 (* int64 *)
| FF64 (bits : Z)              (* IEEE binary64 bit pattern *)
| FF32 (bits : Z)
| FStr (s : list Z)
| FTime (sec nanos : Z).       (* t.Unix(), t.Nanosecond() *)

Definition enc_field (b : list Z) (v : fval) (desc : bool) : list Z :=
  match v with
  | FNull => if desc then G_EncodeNullDescending b else G_EncodeNullAscending b
  | FBool x => if desc then G_EncodeBoolDescending b x else G_EncodeBoolAscending b x
  | FInt x => if desc then G_EncodeVarintDescending b x else G_EncodeVarintAscending b x
  | FF64 x => if desc then G_EncodeFloat64Descending b x else G_EncodeFloat64Ascending b x
  | FF32 x => if desc then G_EncodeFloat32Descending b x else G_EncodeFloat32Ascending b x
  | FStr s => b ++ (if desc then enc_bytes_d s else enc_bytes_a s)
  | FTime s n => if desc then G_encodeTime b (not_i64 s) (not_i64 n) else G_encodeTime b s n
  end.

(* EncodeIndexDataStoreKey: "/" col "/" index ("/" field)*  *)
Definition slash : Z := 47.
Definition enc_index_key (col idx : Z) (fields : list (fval * bool)) : list Z :=
  if col =? 0 then []
  else
    let b := G_EncodeUvarintAscending [slash] col in
    if idx =? 0 then b
    else
      let b := G_EncodeUvarintAscending (b ++ [slash]) idx in
      fold_left (fun acc f => enc_field (acc ++ [slash]) (fst f) (snd f)) fields b.

(* bytesPrefixEnd *)
Fixpoint prefix_end_rev (r : list Z) : option (list Z) :=   (* on the reversed string *)
  match r with
  | [] => None
  | x :: r' => if x =? 255 then prefix_end_rev r' else Some ((x + 1) :: r')
  end.
Definition prefix_end (b : list Z) : list Z :=
  match prefix_end_rev (rev b) with Some r => rev r | None => b end.

(* DecodeFieldValue (without JSON), errors as None; value kinds as the decoder reports them *)
Definition dec_f64a (b : list Z) : option (list Z * Z) :=
  match b with
  | m :: r =>
    if (m =? G_float64NaN) || (m =? G_float64NaNDesc) then Some (r, 9221120237041090561) (* math.NaN() *)
    else if m =? G_float64Zero then Some (r, 0)
    else if (m =? G_float64Neg) || (m =? G_float64Pos) then
      if Z.of_nat (length r) <? 8 then None
      else let u := be_val (firstn 8 r) 0 in
           Some (skipn 8 r, if m =? G_float64Neg then not_u64 u else u)
    else None
  | [] => None
  end.

Definition dec_field (b : list Z) (desc : bool) : option (list Z * fval) :=
  let t := G_PeekType b in
  if t =? G_Null then Some (tl b, FNull)
  else if t =? G_Bool then
    match b with m :: r => Some (r, FBool (xorb desc (m =? G_trueMarker))) | [] => None end
  else if t =? G_Int then
    match (if desc then dec_vd b else dec_va b) with Some (r, v) => Some (r, FInt v) | None => None end
  else if t =? G_Float64 then
    match dec_f64a b with
    | Some (r, u) => Some (r, FF64 (if desc then f64_neg u else u))
    | None => None end
  else if (t =? G_Bytes) || (t =? G_BytesDesc) then
    match (if desc then dec_bytes_d b else dec_bytes_a b) with Some (r, s) => Some (r, FStr s) | None => None end
  else if t =? G_Time then
    match b with
    | _ :: r => match dec_va r with
                | Some (r1, s) => match dec_va r1 with
                                  | Some (r2, n) => Some (r2, if desc then FTime (not_i64 s) (not_i64 n) else FTime s n)
                                  | None => None end
                | None => None end
    | [] => None end
  else None.
