(* Order-preserving integer key codec: theorems about the functions GENERATED from
   internal/encoding/int.go (gen/GenEnc.v), through shape lemmas "tag :: big-endian payload". *)
From Coq Require Import List ZArith Lia Bool ZifyBool.
From Verif Require Import GoSem GenEnc Bytes.
Import ListNotations.
Open Scope Z_scope.

Ltac Zify.zify_post_hook ::= Z.div_mod_to_equations.

Ltac destruct_ifs :=
  repeat match goal with |- context [if ?c then _ else _] => destruct c eqn:? end.

Definition u64_range (v : Z) : Prop := 0 <= v < 18446744073709551616.
Definition i64_range (v : Z) : Prop := -9223372036854775808 <= v < 9223372036854775808.

(* --- generic "tag :: payload" comparison ---------------------------------------------- *)

Definition tp (t : Z) (w : nat) (p : Z) : list Z := t :: be_bytes w p.

Lemma tagged_lt ta wa pa tb wb pb r s :
  (ta < tb \/ (ta = tb /\ wa = wb /\ 0 <= pa < pb /\ pb < 256 ^ Z.of_nat wa)) ->
  bcmp (tp ta wa pa ++ r) (tp tb wb pb ++ s) = Lt.
Proof.
  intros [Hlt | (Ht & Hw & Hp & Hb)]; unfold tp; cbn [app bcmp].
  - apply Z.compare_lt_iff in Hlt. rewrite Hlt. reflexivity.
  - subst tb wb. rewrite Z.compare_refl.
    rewrite bcmp_app_eqlen by (rewrite ?be_bytes_length; auto using be_bytes_range).
    rewrite (bcmp_be _ _ ltac:(rewrite !be_bytes_length; reflexivity)
                     (be_bytes_range _ _) (be_bytes_range _ _) 0 ltac:(lia)).
    rewrite !be_bytes_val by lia. rewrite !Z.mod_small by lia.
    assert (E : (pa ?= pb) = Lt) by (apply Z.compare_lt_iff; lia). rewrite E. reflexivity.
Qed.

(* --- unsigned ascending ------------------------------------------------------------------ *)

Definition uw (v : Z) : nat :=
  if v <=? 255 then 1%nat else if v <=? 65535 then 2%nat else if v <=? 16777215 then 3%nat
  else if v <=? 4294967295 then 4%nat else if v <=? 1099511627775 then 5%nat
  else if v <=? 281474976710655 then 6%nat else if v <=? 72057594037927935 then 7%nat else 8%nat.

Definition uva_tag (v : Z) : Z := if v <=? G_intSmall then G_intZero + v else G_IntMax - 8 + Z.of_nat (uw v).
Definition uva_w (v : Z) : nat := if v <=? G_intSmall then 0%nat else uw v.
Definition enc_uva (v : Z) : list Z := tp (uva_tag v) (uva_w v) v.

Lemma shr_div v k : 0 <= k -> shr v k = v / 2 ^ k.
Proof. intros; unfold shr; apply Z.shiftr_div_pow2; auto. Qed.

Ltac norm_div :=
  repeat match goal with |- context [ (?a / ?b) / ?c ] => rewrite (Z.div_div a b c) by lia end.

Ltac bridge_tac :=
  cbn [be_bytes app]; unfold u8; rewrite ?shr_div by lia; norm_div; repeat f_equal; try reflexivity.

Theorem G_uvarint_asc_shape b v : u64_range v -> G_EncodeUvarintAscending b v = b ++ enc_uva v.
Proof.
  unfold u64_range; intros Hv. unfold G_EncodeUvarintAscending, enc_uva, tp, uva_tag, uva_w, uw.
  destruct_ifs; f_equal.
  { cbn [be_bytes app]. f_equal. unfold u8, G_intSmall, G_intZero, G_IntMax, G_IntMin, G_intMaxWidth in *. lia. }
  all: bridge_tac.
Qed.

Lemma uw_bound v : 255 < v -> u64_range v ->
  256 ^ (Z.of_nat (uw v) - 1) <= v < 256 ^ Z.of_nat (uw v).
Proof. unfold u64_range, uw; intros; destruct_ifs; cbn; lia. Qed.

Lemma uw_small v : 0 <= v <= 255 -> uw v = 1%nat.
Proof. unfold uw; intros; destruct_ifs; try reflexivity; lia. Qed.

Lemma uw_range v : (1 <= uw v <= 8)%nat.
Proof. unfold uw; destruct_ifs; lia. Qed.

Lemma uw_mono a b : 0 <= a <= b -> (uw a <= uw b)%nat.
Proof. unfold uw; intros; destruct_ifs; lia. Qed.

Lemma uw_fits v : u64_range v -> v < 256 ^ Z.of_nat (uw v).
Proof. unfold u64_range, uw; intros; destruct_ifs; cbn; lia. Qed.

Lemma uw_same_lower a b : 0 <= a -> 0 <= b -> uw a = uw b -> True. Proof. auto. Qed.

Lemma enc_uva_lt a b r s : u64_range a -> u64_range b -> a < b ->
  bcmp (enc_uva a ++ r) (enc_uva b ++ s) = Lt.
Proof.
  intros Ha Hb Hab. unfold enc_uva. apply tagged_lt.
  unfold uva_tag, uva_w, G_intSmall, G_intZero, G_IntMax, G_IntMin, G_intMaxWidth.
  pose proof (uw_range a). pose proof (uw_range b).
  pose proof (uw_mono a b ltac:(unfold u64_range in *; lia)) as Hm.
  destruct (a <=? _) eqn:Ea, (b <=? _) eqn:Eb; try lia.
  destruct (Nat.eq_dec (uw a) (uw b)) as [E|NE]; [right|left; lia].
  repeat split; try lia; unfold u64_range in *; try lia.
  rewrite E. apply uw_fits; assumption.
Qed.

Definition sd_order {A} (cmp : A -> A -> comparison) (enc : A -> list Z) (dom : A -> Prop) : Prop :=
  forall a b r s, dom a -> dom b ->
    bcmp (enc a ++ r) (enc b ++ s) = match cmp a b with Eq => bcmp r s | c => c end.

Lemma sd_order_of_lt (enc : Z -> list Z) (dom : Z -> Prop) :
  (forall a b r s, dom a -> dom b -> a < b -> bcmp (enc a ++ r) (enc b ++ s) = Lt) ->
  sd_order Z.compare enc dom.
Proof.
  intros H a b r s Ha Hb. destruct (Z.compare_spec a b) as [->|Hl|Hg].
  - apply bcmp_app_same.
  - apply H; assumption.
  - rewrite bcmp_antisym, (H b a s r Hb Ha Hg). reflexivity.
Qed.

Lemma sd_order_of_gt (enc : Z -> list Z) (dom : Z -> Prop) :
  (forall a b r s, dom a -> dom b -> a < b -> bcmp (enc b ++ r) (enc a ++ s) = Lt) ->
  sd_order (fun a b => Z.compare b a) enc dom.
Proof.
  intros H a b r s Ha Hb. destruct (Z.compare_spec b a) as [->|Hl|Hg].
  - apply bcmp_app_same.
  - apply H; assumption.
  - rewrite bcmp_antisym, (H a b s r Ha Hb Hg). reflexivity.
Qed.

Theorem enc_uva_order : sd_order Z.compare enc_uva u64_range.
Proof. apply sd_order_of_lt. intros; apply enc_uva_lt; assumption. Qed.

(* --- unsigned descending ---------------------------------------------------------------- *)

Definition uvd_tag (v : Z) : Z := if v =? 0 then G_IntMin + 8 else G_IntMin + 8 - Z.of_nat (uw v).
Definition uvd_w (v : Z) : nat := if v =? 0 then 0%nat else uw v.
Definition enc_uvd (v : Z) : list Z := tp (uvd_tag v) (uvd_w v) (256 ^ Z.of_nat (uvd_w v) - 1 - v).
Definition enc_uvd_raw (v : Z) : list Z := tp (uvd_tag v) (uvd_w v) (not_u64 v).

Lemma enc_uvd_raw_eq v : u64_range v -> enc_uvd_raw v = enc_uvd v.
Proof.
  unfold u64_range; intros Hv. unfold enc_uvd_raw, enc_uvd, tp. f_equal.
  rewrite <- be_bytes_mod. f_equal. unfold uvd_w, uw, not_u64.
  destruct_ifs; cbn [Z.of_nat Pos.of_succ_nat Pos.succ Z.pow Z.pow_pos Pos.iter Z.mul Pos.mul]; lia.
Qed.

Theorem G_uvarint_desc_shape b v : u64_range v -> G_EncodeUvarintDescending b v = b ++ enc_uvd v.
Proof.
  intros Hv. rewrite <- enc_uvd_raw_eq by assumption. unfold u64_range in Hv.
  unfold G_EncodeUvarintDescending, enc_uvd_raw, tp, uvd_tag, uvd_w, uw.
  destruct_ifs; try lia; f_equal; bridge_tac.
Qed.

Lemma enc_uvd_lt a b r s : u64_range a -> u64_range b -> a < b ->
  bcmp (enc_uvd b ++ r) (enc_uvd a ++ s) = Lt.
Proof.
  intros Ha Hb Hab. unfold enc_uvd. apply tagged_lt.
  unfold uvd_tag, uvd_w, G_IntMin.
  pose proof (uw_range a). pose proof (uw_range b).
  pose proof (uw_mono a b ltac:(unfold u64_range in *; lia)) as Hm.
  unfold u64_range in *.
  destruct (a =? 0) eqn:Ea, (b =? 0) eqn:Eb; try lia.
  destruct (Nat.eq_dec (uw a) (uw b)) as [E|NE]; [right|left; lia].
  pose proof (uw_fits a ltac:(unfold u64_range; lia)). pose proof (uw_fits b ltac:(unfold u64_range; lia)).
  rewrite E in *. repeat split; try lia.
Qed.

Theorem enc_uvd_order : sd_order (fun a b => Z.compare b a) enc_uvd u64_range.
Proof. apply sd_order_of_gt. intros; apply enc_uvd_lt; assumption. Qed.

(* --- signed ascending ------------------------------------------------------------------- *)

Definition nw (v : Z) : nat :=   (* width class of a negative value *)
  if v >=? -255 then 1%nat else if v >=? -65535 then 2%nat else if v >=? -16777215 then 3%nat
  else if v >=? -4294967295 then 4%nat else if v >=? -1099511627775 then 5%nat
  else if v >=? -281474976710655 then 6%nat else if v >=? -72057594037927935 then 7%nat else 8%nat.

Definition enc_va (v : Z) : list Z :=
  if v <? 0 then tp (G_IntMin + 8 - Z.of_nat (nw v)) (nw v) (v + 256 ^ Z.of_nat (nw v))
  else enc_uva v.

Lemma be_bytes_neg w v : - 256 ^ Z.of_nat w <= v < 0 -> be_bytes w v = be_bytes w (v + 256 ^ Z.of_nat w).
Proof.
  intros Hv. rewrite <- (be_bytes_mod w v). f_equal.
  symmetry. apply Z.mod_unique with (q := -1); lia.
Qed.

Theorem G_varint_asc_shape b v : i64_range v -> G_EncodeVarintAscending b v = b ++ enc_va v.
Proof.
  unfold i64_range; intros Hv. unfold G_EncodeVarintAscending, enc_va.
  destruct (v <? 0) eqn:Hneg.
  - unfold tp. rewrite <- be_bytes_neg by (unfold nw; destruct_ifs; cbn; lia).
    unfold nw. destruct_ifs; f_equal; bridge_tac.
  - rewrite <- G_uvarint_asc_shape by (unfold u64_range, u64; lia).
    f_equal. unfold u64. lia.
Qed.

Lemma nw_range v : (1 <= nw v <= 8)%nat.
Proof. unfold nw; destruct_ifs; lia. Qed.
Lemma nw_mono a b : a <= b < 0 -> (nw b <= nw a)%nat.
Proof. unfold nw; intros; destruct_ifs; lia. Qed.
Lemma nw_fits v : i64_range v -> v < 0 -> 0 <= v + 256 ^ Z.of_nat (nw v).
Proof. unfold i64_range, nw; intros; destruct_ifs; cbn; lia. Qed.

Lemma enc_va_lt a b r s : i64_range a -> i64_range b -> a < b ->
  bcmp (enc_va a ++ r) (enc_va b ++ s) = Lt.
Proof.
  intros Ha Hb Hab. unfold enc_va.
  destruct (a <? 0) eqn:Ea, (b <? 0) eqn:Eb; try lia.
  - apply tagged_lt. unfold G_IntMin.
    pose proof (nw_range a). pose proof (nw_range b). pose proof (nw_mono a b ltac:(lia)).
    destruct (Nat.eq_dec (nw a) (nw b)) as [E|NE]; [right|left; lia].
    pose proof (nw_fits a Ha ltac:(lia)). rewrite E in *. repeat split; try lia.
  - unfold enc_uva. apply tagged_lt. left.
    pose proof (nw_range a). pose proof (uw_range b).
    unfold uva_tag, G_intSmall, G_intZero, G_IntMax, G_IntMin, G_intMaxWidth.
    destruct (b <=? _); lia.
  - apply enc_uva_lt; unfold u64_range, i64_range in *; lia.
Qed.

Theorem enc_va_order : sd_order Z.compare enc_va i64_range.
Proof. apply sd_order_of_lt. intros; apply enc_va_lt; assumption. Qed.

(* --- signed descending ------------------------------------------------------------------ *)

Definition enc_vd (v : Z) : list Z := enc_va (not_i64 v).

Theorem G_varint_desc_shape b v : i64_range v -> G_EncodeVarintDescending b v = b ++ enc_vd v.
Proof.
  intros Hv. unfold G_EncodeVarintDescending, enc_vd. apply G_varint_asc_shape.
  unfold i64_range, not_i64 in *. lia.
Qed.

Theorem enc_vd_order : sd_order (fun a b => Z.compare b a) enc_vd i64_range.
Proof.
  apply sd_order_of_gt. intros a b r s Ha Hb Hab. unfold enc_vd.
  apply enc_va_lt; unfold i64_range, not_i64 in *; lia.
Qed.
