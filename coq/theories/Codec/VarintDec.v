(* Decoders for the integer key codec: hand transcription of DecodeUvarintAscending/Descending and
   DecodeVarintAscending/Descending (internal/encoding/int.go), errors as None.  Tied to the code by
   the C17 correspondence run; round-trip theorems against the GENERATED encoders' shapes. *)
From Coq Require Import List ZArith Lia Bool ZifyBool.
From Verif Require Import GoSem GenEnc Bytes Varint.
Import ListNotations.
Open Scope Z_scope.
Ltac Zify.zify_post_hook ::= Z.div_mod_to_equations.

Definition dec_uva (b : list Z) : option (list Z * Z) :=
  match b with
  | [] => None
  | t :: r =>
    let len := t - G_intZero in
    if len <=? G_intSmall then Some (r, u64 len)
    else
      let len := len - G_intSmall in
      if (len <? 0) || (len >? 8) then None
      else if Z.of_nat (length r) <? len then None
      else Some (skipn (Z.to_nat len) r, be_val (firstn (Z.to_nat len) r) 0)
  end.

Definition dec_uvd (b : list Z) : option (list Z * Z) :=
  match b with
  | [] => None
  | t :: r =>
    let len := G_intZero - t in
    if (len <? 0) || (len >? 8) then None
    else if Z.of_nat (length r) <? len then None
    else Some (skipn (Z.to_nat len) r, be_val (map not_u8 (firstn (Z.to_nat len) r)) 0)
  end.

Definition max_int64 : Z := 9223372036854775807.

Definition dec_va (b : list Z) : option (list Z * Z) :=
  match b with
  | [] => None
  | t :: r =>
    let len := t - G_intZero in
    if len <? 0 then
      let len := - len in
      if Z.of_nat (length r) <? len then None
      else Some (skipn (Z.to_nat len) r,
                 not_i64 (fold_left (fun acc x => i64 (acc * 256) + not_u8 x) (firstn (Z.to_nat len) r) 0))
    else match dec_uva b with
         | None => None
         | Some (r', v) => if v >? max_int64 then None else Some (r', v)
         end
  end.

Definition dec_vd (b : list Z) : option (list Z * Z) :=
  match dec_va b with None => None | Some (r, v) => Some (r, not_i64 v) end.

Lemma take_payload w p rest :
  firstn (Z.to_nat (Z.of_nat w)) (be_bytes w p ++ rest) = be_bytes w p /\
  skipn (Z.to_nat (Z.of_nat w)) (be_bytes w p ++ rest) = rest.
Proof.
  rewrite Nat2Z.id. pose proof (be_bytes_length w p) as E.
  split.
  - rewrite <- E at 1. apply firstn_app_exact.
  - rewrite <- E at 1. apply skipn_app_exact.
Qed.

Theorem dec_uva_roundtrip v rest : u64_range v -> dec_uva (enc_uva v ++ rest) = Some (rest, v).
Proof.
  unfold u64_range; intros Hv. unfold enc_uva, tp, dec_uva. cbn [app].
  unfold uva_tag, uva_w. pose proof (uw_range v) as Hw.
  unfold G_intSmall, G_intZero, G_IntMax, G_IntMin, G_intMaxWidth in *.
  destruct (v <=? 253 - (128 + 8) - 8) eqn:Es.
  - replace (128 + 8 + v - (128 + 8)) with v by lia. rewrite Es. cbn [be_bytes app].
    f_equal. f_equal. unfold u64. lia.
  - replace (253 - 8 + Z.of_nat (uw v) - (128 + 8)) with (109 + Z.of_nat (uw v)) by lia.
    destruct (109 + Z.of_nat (uw v) <=? 253 - (128 + 8) - 8) eqn:E1; [lia|].
    replace (109 + Z.of_nat (uw v) - (253 - (128 + 8) - 8)) with (Z.of_nat (uw v)) by lia.
    destruct ((Z.of_nat (uw v) <? 0) || (Z.of_nat (uw v) >? 8)) eqn:E2; [lia|].
    rewrite app_length, be_bytes_length.
    destruct (Z.of_nat (uw v + length rest) <? Z.of_nat (uw v)) eqn:E3; [lia|].
    destruct (take_payload (uw v) v rest) as [-> ->].
    rewrite be_bytes_val by lia. rewrite Z.mod_small; [reflexivity|].
    pose proof (uw_fits v ltac:(unfold u64_range; lia)). lia.
Qed.

Lemma be_val_map_not w p : 0 <= p < 256 ^ Z.of_nat w ->
  be_val (map not_u8 (be_bytes w p)) 0 = 256 ^ Z.of_nat w - 1 - p.
Proof.
  revert p; induction w as [|w IH]; intros p Hp.
  - cbn in *. lia.
  - cbn [be_bytes]. rewrite map_app, be_val_app. cbn [map be_val].
    rewrite Nat2Z.inj_succ, Z.pow_succ_r in * by lia.
    assert (Hq : 0 < 256 ^ Z.of_nat w) by (apply Z.pow_pos_nonneg; lia).
    rewrite IH by (split; [apply Z.div_pos; lia | apply Z.div_lt_upper_bound; lia]).
    unfold not_u8. lia.
Qed.

Theorem dec_uvd_roundtrip v rest : u64_range v -> dec_uvd (enc_uvd v ++ rest) = Some (rest, v).
Proof.
  unfold u64_range; intros Hv. unfold enc_uvd, tp, dec_uvd. cbn [app].
  unfold uvd_tag, uvd_w. pose proof (uw_range v) as Hw.
  unfold G_intZero, G_IntMin, G_intMaxWidth in *.
  destruct (v =? 0) eqn:Ez.
  - replace (128 + 8 - (128 + 8)) with 0 by lia. cbn [be_bytes Z.of_nat app].
    change ((0 <? 0) || (0 >? 8)) with false. cbv iota.
    destruct (Z.of_nat (length rest) <? 0) eqn:E3; [lia|].
    cbn. f_equal. f_equal. lia.
  - replace (128 + 8 - (128 + 8 - Z.of_nat (uw v))) with (Z.of_nat (uw v)) by lia.
    destruct ((Z.of_nat (uw v) <? 0) || (Z.of_nat (uw v) >? 8)) eqn:E2; [lia|].
    rewrite app_length, be_bytes_length.
    destruct (Z.of_nat (uw v + length rest) <? Z.of_nat (uw v)) eqn:E3; [lia|].
    destruct (take_payload (uw v) (256 ^ Z.of_nat (uw v) - 1 - v) rest) as [-> ->].
    pose proof (uw_fits v ltac:(unfold u64_range; lia)).
    rewrite be_val_map_not by lia. f_equal. f_equal. lia.
Qed.

Theorem dec_va_roundtrip v rest : i64_range v -> dec_va (enc_va v ++ rest) = Some (rest, v).
Proof.
  intros Hv. unfold enc_va. destruct (v <? 0) eqn:Hneg.
  - unfold tp, dec_va. cbn [app]. pose proof (nw_range v) as Hw.
    unfold G_intZero, G_IntMin, G_intMaxWidth.
    replace (128 + 8 - Z.of_nat (nw v) - (128 + 8)) with (- Z.of_nat (nw v)) by lia.
    destruct (- Z.of_nat (nw v) <? 0) eqn:E1; [|lia].
    rewrite Z.opp_involutive, app_length, be_bytes_length.
    destruct (Z.of_nat (nw v + length rest) <? Z.of_nat (nw v)) eqn:E3; [lia|].
    destruct (take_payload (nw v) (v + 256 ^ Z.of_nat (nw v)) rest) as [-> ->].
    pose proof (nw_fits v Hv ltac:(lia)) as Hf.
    assert (Hup : 256 ^ Z.of_nat (nw v) <= 18446744073709551616).
    { unfold nw; destruct_ifs; cbn; lia. }
    assert (Hlo : 256 ^ Z.of_nat (nw v) - 1 - (v + 256 ^ Z.of_nat (nw v)) < 9223372036854775808).
    { unfold i64_range in Hv. lia. }
    (* the running value never exceeds -v-1 < 2^63: show via the closed form *)
    assert (Hfold : fold_left (fun acc x => i64 (acc * 256) + not_u8 x) (be_bytes (nw v) (v + 256 ^ Z.of_nat (nw v))) 0
                    = - v - 1).
    { revert Hf Hup Hlo. generalize (nw v) as w. intros w Hf Hup Hlo.
      assert (G : forall w p, 0 <= p < 256 ^ Z.of_nat w -> 256 ^ Z.of_nat w - 1 - p < 9223372036854775808 ->
                  fold_left (fun acc x => i64 (acc * 256) + not_u8 x) (be_bytes w p) 0 = 256 ^ Z.of_nat w - 1 - p).
      { clear. induction w as [|w IH]; intros p Hp Hs.
        - cbn in *. lia.
        - cbn [be_bytes]. rewrite fold_left_app. cbn [fold_left].
          rewrite Nat2Z.inj_succ, Z.pow_succ_r in * by lia.
          assert (Hq : 0 < 256 ^ Z.of_nat w) by (apply Z.pow_pos_nonneg; lia).
          rewrite IH; [| split; [apply Z.div_pos; lia | apply Z.div_lt_upper_bound; lia] | lia].
          unfold not_u8, i64. lia. }
      rewrite G by lia. lia. }
    rewrite Hfold. unfold not_i64. f_equal. f_equal. lia.
  - unfold dec_va. unfold enc_uva at 1, tp at 1. cbn [app].
    assert (Hu : u64_range v) by (unfold u64_range, i64_range in *; lia).
    pose proof (uw_range v) as Hw.
    assert (Htag : (uva_tag v - G_intZero <? 0) = false).
    { unfold uva_tag, G_intSmall, G_intZero, G_IntMax, G_IntMin, G_intMaxWidth.
      destruct (v <=? _); lia. }
    rewrite Htag.
    change (uva_tag v :: be_bytes (uva_w v) v ++ rest) with (enc_uva v ++ rest).
    rewrite dec_uva_roundtrip by assumption.
    unfold max_int64, i64_range in *. destruct (v >? _) eqn:E; [lia|reflexivity].
Qed.

Theorem dec_vd_roundtrip v rest : i64_range v -> dec_vd (enc_vd v ++ rest) = Some (rest, v).
Proof.
  intros Hv. unfold dec_vd, enc_vd. rewrite dec_va_roundtrip by (unfold i64_range, not_i64 in *; lia).
  f_equal. f_equal. unfold not_i64. lia.
Qed.

(* ---- statements directly about the generated Go functions ---- *)
Theorem G_varint_asc_order : sd_order Z.compare (G_EncodeVarintAscending []) i64_range.
Proof. intros a b r s Ha Hb. rewrite !G_varint_asc_shape by assumption. apply enc_va_order; assumption. Qed.
Theorem G_varint_desc_order : sd_order (fun a b => Z.compare b a) (G_EncodeVarintDescending []) i64_range.
Proof. intros a b r s Ha Hb. rewrite !G_varint_desc_shape by assumption. apply enc_vd_order; assumption. Qed.
Theorem G_uvarint_asc_order : sd_order Z.compare (G_EncodeUvarintAscending []) u64_range.
Proof. intros a b r s Ha Hb. rewrite !G_uvarint_asc_shape by assumption. apply enc_uva_order; assumption. Qed.
Theorem G_uvarint_desc_order : sd_order (fun a b => Z.compare b a) (G_EncodeUvarintDescending []) u64_range.
Proof. intros a b r s Ha Hb. rewrite !G_uvarint_desc_shape by assumption. apply enc_uvd_order; assumption. Qed.

Theorem G_varint_asc_roundtrip v rest : i64_range v -> dec_va (G_EncodeVarintAscending [] v ++ rest) = Some (rest, v).
Proof. intros H. rewrite G_varint_asc_shape by assumption. apply dec_va_roundtrip; assumption. Qed.
Theorem G_varint_desc_roundtrip v rest : i64_range v -> dec_vd (G_EncodeVarintDescending [] v ++ rest) = Some (rest, v).
Proof. intros H. rewrite G_varint_desc_shape by assumption. apply dec_vd_roundtrip; assumption. Qed.
Theorem G_uvarint_asc_roundtrip v rest : u64_range v -> dec_uva (G_EncodeUvarintAscending [] v ++ rest) = Some (rest, v).
Proof. intros H. rewrite G_uvarint_asc_shape by assumption. apply dec_uva_roundtrip; assumption. Qed.
Theorem G_uvarint_desc_roundtrip v rest : u64_range v -> dec_uvd (G_EncodeUvarintDescending [] v ++ rest) = Some (rest, v).
Proof. intros H. rewrite G_uvarint_desc_shape by assumption. apply dec_uvd_roundtrip; assumption. Qed.
