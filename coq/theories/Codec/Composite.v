(* Composite index keys: the key of a tuple is the concatenation "/" field1 "/" field2 ...; because every field
   encoding is self-delimiting and order preserving (sd_order), byte order of the keys is the lexicographic order of
   the tuples - for integer and byte-string (string / blob) components, ascending. *)
From Coq Require Import List ZArith Lia Bool.
From Verif Require Import GoSem GenEnc Bytes Varint VarintDec BytesEsc BytesEscProofs.
Import ListNotations.
Open Scope Z_scope.

(* the escaped byte-string encoding is self-delimiting: comparison continues with what follows the terminator *)
Lemma body_order_k a : forall b r s, bytes a -> bytes b ->
  bcmp (body_t a ++ r) (body_t b ++ s) = match bcmp a b with Eq => bcmp r s | c => c end.
Proof.
  destruct consts as [Ce [Ct C0]].
  induction a as [|x a IH]; intros [|y b] r s Ha Hb; unfold body_t; cbn [esc_body app bcmp].
  - rewrite Ce, Ct. cbn [app bcmp]. rewrite !Z.compare_refl. reflexivity.
  - inversion Hb as [|? ? Hy Hb']; subst. unfold is_byte in Hy. rewrite Ce, Ct, C0.
    destruct (Z.eqb_spec y 0) as [->|Hne]; cbn [app bcmp]; [reflexivity|].
    destruct (Z.compare_spec 0 y); [lia|reflexivity|lia].
  - inversion Ha as [|? ? Hx Ha']; subst. unfold is_byte in Hx. rewrite Ce, Ct, C0.
    destruct (Z.eqb_spec x 0) as [->|Hne]; cbn [app bcmp]; [reflexivity|].
    destruct (Z.compare_spec x 0); [lia|lia|reflexivity].
  - inversion Ha as [|? ? Hx Ha']; inversion Hb as [|? ? Hy Hb']; subst. unfold is_byte in Hx, Hy.
    specialize (IH b r s Ha' Hb'). unfold body_t in IH. rewrite Ce, Ct in IH. rewrite Ce, Ct, C0.
    destruct (Z.eqb_spec x 0) as [->|Hx0], (Z.eqb_spec y 0) as [->|Hy0]; cbn [app bcmp].
    + rewrite !Z.compare_refl. exact IH.
    + destruct (Z.compare_spec 0 y); [lia|reflexivity|lia].
    + destruct (Z.compare_spec x 0); [lia|lia|reflexivity].
    + destruct (Z.compare_spec x y); auto.
Qed.

Theorem enc_bytes_a_sd : sd_order bcmp enc_bytes_a bytes.
Proof.
  intros a b r s Ha Hb. unfold enc_bytes_a. cbn [app bcmp]. rewrite Z.compare_refl.
  change (esc_body a ++ [G_escape; G_escapedTerm]) with (body_t a).
  change (esc_body b ++ [G_escape; G_escapedTerm]) with (body_t b). now apply body_order_k.
Qed.

(* key components *)
Inductive kval := KInt (v : Z) | KStr (s : list Z).

Definition kdom (v : kval) : Prop := match v with KInt z => i64_range z | KStr s => bytes s end.
Definition kenc (v : kval) : list Z :=
  match v with KInt z => G_EncodeVarintAscending [] z | KStr s => enc_bytes_a s end.
Definition same_kind (a b : kval) : Prop :=
  match a, b with KInt _, KInt _ => True | KStr _, KStr _ => True | _, _ => False end.
Definition kcmp (a b : kval) : comparison :=
  match a, b with KInt x, KInt y => Z.compare x y | KStr x, KStr y => bcmp x y | _, _ => Eq end.

Lemma kenc_sd a b r s : same_kind a b -> kdom a -> kdom b ->
  bcmp (kenc a ++ r) (kenc b ++ s) = match kcmp a b with Eq => bcmp r s | c => c end.
Proof.
  destruct a as [x|x], b as [y|y]; cbn [same_kind kdom kenc kcmp]; try contradiction; intros _ Ha Hb.
  - now apply G_varint_asc_order.
  - now apply enc_bytes_a_sd.
Qed.

Definition slash : Z := 47.
Fixpoint key_of (t : list kval) : list Z :=
  match t with [] => [] | v :: r => slash :: kenc v ++ key_of r end.

Fixpoint lexcmp (a b : list kval) : comparison :=
  match a, b with
  | x :: a', y :: b' => match kcmp x y with Eq => lexcmp a' b' | c => c end
  | _, _ => Eq
  end.

Fixpoint same_shape (a b : list kval) : Prop :=
  match a, b with
  | [], [] => True
  | x :: a', y :: b' => same_kind x y /\ same_shape a' b'
  | _, _ => False
  end.

(* tuples over the same index (same component kinds): byte order of the keys = lexicographic order of the tuples;
   what follows the key (the document id) decides between equal tuples *)
Theorem composite_key_order : forall a b r s, same_shape a b -> Forall kdom a -> Forall kdom b ->
  bcmp (key_of a ++ r) (key_of b ++ s) = match lexcmp a b with Eq => bcmp r s | c => c end.
Proof.
  induction a as [|x a IH]; intros [|y b] r s Hs Ha Hb; cbn [same_shape] in Hs; try contradiction; cbn [key_of lexcmp app].
  - reflexivity.
  - destruct Hs as [Hk Hs]. inversion Ha as [|? ? Hx Ha']; inversion Hb as [|? ? Hy Hb']; subst.
    cbn [bcmp]. rewrite Z.compare_refl. rewrite <- !app_assoc.
    rewrite (kenc_sd x y _ _ Hk Hx Hy). destruct (kcmp x y); auto.
Qed.

(* ---- time values: marker, seconds, nanoseconds (both varints): order = lexicographic order on (seconds, nanos) ---- *)
Lemma encodeTime_shape b s n : i64_range s -> i64_range n ->
  G_encodeTime b s n = b ++ [G_timeMarker] ++ enc_va s ++ enc_va n.
Proof.
  intros Hs Hn. unfold G_encodeTime. cbv zeta.
  rewrite (G_varint_asc_shape _ s Hs), (G_varint_asc_shape _ n Hn). now rewrite <- !app_assoc.
Qed.

Definition time_cmp (a b : Z * Z) : comparison :=
  match Z.compare (fst a) (fst b) with Eq => Z.compare (snd a) (snd b) | c => c end.

Theorem encodeTime_order : forall s1 n1 s2 n2 r t,
  i64_range s1 -> i64_range n1 -> i64_range s2 -> i64_range n2 ->
  bcmp (G_encodeTime [] s1 n1 ++ r) (G_encodeTime [] s2 n2 ++ t)
  = match time_cmp (s1, n1) (s2, n2) with Eq => bcmp r t | c => c end.
Proof.
  intros s1 n1 s2 n2 r t H1 H2 H3 H4. rewrite !encodeTime_shape by assumption.
  cbn [app bcmp]. rewrite Z.compare_refl. rewrite <- !app_assoc.
  rewrite (enc_va_order s1 s2 _ _ H1 H3). unfold time_cmp. cbn [fst snd].
  destruct (s1 ?= s2); auto. apply enc_va_order; assumption.
Qed.

(* booleans and null: one marker byte each; false sorts before true, null before everything typed *)
Theorem bool_order : forall a b r s,
  bcmp (G_EncodeBoolAscending [] a ++ r) (G_EncodeBoolAscending [] b ++ s)
  = match Bool.compare a b with Eq => bcmp r s | c => c end.
Proof. intros [|] [|] r s; reflexivity. Qed.
