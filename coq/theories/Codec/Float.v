(* Float key codec on IEEE bit patterns: theorems about the GENERATED G_EncodeFloat64/32*. *)
From Coq Require Import List ZArith Lia Bool ZifyBool.
From Verif Require Import GoSem GenEnc Bytes Varint.
Import ListNotations.
Open Scope Z_scope.
Ltac Zify.zify_post_hook ::= Z.div_mod_to_equations.

Lemma land_pow2_hi u n : 0 <= n -> 0 <= u < 2 ^ (n + 1) ->
  Z.land u (2 ^ n) = if u <? 2 ^ n then 0 else 2 ^ n.
Proof.
  intros Hn Hu. assert (Hp : 0 < 2 ^ n) by (apply Z.pow_pos_nonneg; lia).
  apply Z.bits_inj'. intros m Hm. rewrite Z.land_spec.
  destruct (Z.eq_dec m n) as [->|Hne].
  - rewrite Z.pow2_bits_true by lia. rewrite andb_true_r.
    destruct (u <? 2 ^ n) eqn:E.
    + rewrite Z.bits_0. destruct (Z.eq_dec u 0) as [->|Hu0]; [apply Z.bits_0|].
      apply Z.bits_above_log2; [lia|]. apply Z.log2_lt_pow2; lia.
    + rewrite Z.pow2_bits_true by lia. apply Z.testbit_true; [lia|].
      rewrite Z.pow_add_r in Hu by lia. change (2 ^ 1) with 2 in Hu.
      assert (u / 2 ^ n = 1) by (symmetry; apply Z.div_unique with (r := u - 2 ^ n); lia).
      lia.
  - rewrite Z.pow2_bits_false by lia. rewrite andb_false_r.
    destruct (u <? 2 ^ n); [rewrite Z.bits_0 | rewrite Z.pow2_bits_false by lia]; reflexivity.
Qed.

Lemma land_sign64 u : 0 <= u < 18446744073709551616 ->
  Z.land u 9223372036854775808 = if u <? 9223372036854775808 then 0 else 9223372036854775808.
Proof. intros H. exact (land_pow2_hi u 63 ltac:(lia) H). Qed.
Lemma land_sign32 u : 0 <= u < 4294967296 ->
  Z.land u 2147483648 = if u <? 2147483648 then 0 else 2147483648.
Proof. intros H. exact (land_pow2_hi u 31 ltac:(lia) H). Qed.

Definition f64_range (u : Z) : Prop := 0 <= u < 18446744073709551616.
Definition f32_range (u : Z) : Prop := 0 <= u < 4294967296.

Lemma G_u64_shape b x : G_EncodeUint64Ascending b x = b ++ be_bytes 8 x.
Proof. unfold G_EncodeUint64Ascending. f_equal. bridge_tac. Qed.
Lemma G_u32_shape b x : G_EncodeUint32Ascending b x = b ++ be_bytes 4 x.
Proof. unfold G_EncodeUint32Ascending. f_equal. bridge_tac. Qed.

(* ---- binary64 ---- *)
Definition enc_f64a (u : Z) : list Z :=
  if f64_is_nan u then [G_float64NaN]
  else if f64_is_zero u then [G_float64Zero]
  else if u <? f64_sign then tp G_float64Pos 8 u
  else tp G_float64Neg 8 (not_u64 u).

Definition enc_f64d (u : Z) : list Z :=
  if f64_is_nan u then [G_float64NaNDesc] else enc_f64a (f64_neg u).

Theorem G_float64_asc_shape b u : f64_range u -> G_EncodeFloat64Ascending b u = b ++ enc_f64a u.
Proof.
  unfold f64_range; intros Hu. unfold G_EncodeFloat64Ascending, enc_f64a.
  destruct (f64_is_nan u); [reflexivity|]. destruct (f64_is_zero u); [reflexivity|].
  rewrite (land_sign64 u Hu). unfold f64_sign.
  destruct (u <? 9223372036854775808) eqn:E; cbn [negb Z.eqb]; rewrite G_u64_shape, <- app_assoc; reflexivity.
Qed.

Theorem G_float64_desc_shape b u : f64_range u -> G_EncodeFloat64Descending b u = b ++ enc_f64d u.
Proof.
  intros Hu. unfold G_EncodeFloat64Descending, enc_f64d. destruct (f64_is_nan u); [reflexivity|].
  apply G_float64_asc_shape. unfold f64_range, f64_neg, f64_sign in *. destruct (u <? _) eqn:E; lia.
Qed.

(* total order used by the index: NaN lowest, then numeric order with -0 = +0 *)
Definition f64_okey (u : Z) : Z := if f64_is_nan u then - f64_sign else f64_key u.

Lemma f64_mag_eq u : f64_range u -> f64_mag u = if u <? f64_sign then u else u - f64_sign.
Proof. unfold f64_range, f64_mag, f64_sign. intros. destruct (u <? _) eqn:E; lia. Qed.

Ltac f64_unfold :=
  unfold f64_okey, enc_f64a, f64_key, f64_is_nan, f64_is_zero;
  repeat match goal with
  | H : f64_range ?u |- context [f64_mag ?u] => rewrite (f64_mag_eq u H)
  end;
  unfold f64_range, f64_sign, f64_inf, not_u64 in *;
  unfold G_float64NaN, G_float64Zero, G_float64Pos, G_float64Neg.

Lemma enc_f64a_lt a b r s : f64_range a -> f64_range b -> f64_okey a < f64_okey b ->
  bcmp (enc_f64a a ++ r) (enc_f64a b ++ s) = Lt.
Proof.
  intros Ha Hb. f64_unfold.
  destruct (a <? 9223372036854775808) eqn:Sa; destruct (b <? 9223372036854775808) eqn:Sb;
  destruct_ifs; intros Hk; try lia;
  try (cbn [app bcmp Z.compare Pos.compare Pos.compare_cont]; reflexivity);
  try (change [1] with (tp 1 0 0); apply tagged_lt; left; lia);
  try (change [3] with (tp 3 0 0); apply tagged_lt; left; lia);
  try (apply tagged_lt; right; change (256 ^ Z.of_nat 8) with 18446744073709551616; lia).
Qed.

Lemma enc_f64a_eq a b : f64_range a -> f64_range b -> f64_okey a = f64_okey b -> enc_f64a a = enc_f64a b.
Proof.
  intros Ha Hb. f64_unfold.
  destruct (a <? 9223372036854775808) eqn:Sa; destruct (b <? 9223372036854775808) eqn:Sb;
  destruct_ifs; intros Hk; try lia; try reflexivity;
  f_equal; f_equal; lia.
Qed.

Theorem enc_f64a_order :
  sd_order (fun a b => Z.compare (f64_okey a) (f64_okey b)) enc_f64a f64_range.
Proof.
  intros a b r s Ha Hb. destruct (Z.compare_spec (f64_okey a) (f64_okey b)) as [E|L|G].
  - rewrite (enc_f64a_eq a b Ha Hb E). apply bcmp_app_same.
  - apply enc_f64a_lt; assumption.
  - rewrite bcmp_antisym, (enc_f64a_lt b a s r Hb Ha G). reflexivity.
Qed.

(* descending: NaN last, numeric order reversed *)
Definition f64_okey_d (u : Z) : Z := if f64_is_nan u then f64_sign else - f64_key u.

Lemma f64_okey_neg u : f64_range u -> f64_is_nan u = false ->
  f64_range (f64_neg u) /\ f64_is_nan (f64_neg u) = false /\ f64_okey (f64_neg u) = - f64_key u.
Proof.
  intros Hu. unfold f64_okey, f64_is_nan, f64_key.
  assert (Hr : f64_range (f64_neg u)).
  { unfold f64_range, f64_neg, f64_sign in *. destruct (u <? _) eqn:E; lia. }
  rewrite (f64_mag_eq u Hu), (f64_mag_eq _ Hr).
  assert (Hn' : f64_neg u = if u <? 9223372036854775808 then u + 9223372036854775808 else u - 9223372036854775808) by reflexivity.
  revert Hr Hn'. generalize (f64_neg u) as n. intros n Hr Hn'.
  unfold f64_range, f64_sign, f64_inf in *. intros Hn.
  destruct (u <? 9223372036854775808) eqn:E; subst n.
  all: destruct_ifs; repeat split; lia.
Qed.

Lemma enc_f64a_head u : f64_is_nan u = false ->
  exists t rest, enc_f64a u = t :: rest /\ 2 <= t <= 4.
Proof.
  intros Hn. unfold enc_f64a. rewrite Hn. unfold tp, G_float64Zero, G_float64Pos, G_float64Neg.
  destruct (f64_is_zero u); [|destruct (u <? f64_sign)]; eexists; eexists; (split; [reflexivity|lia]).
Qed.

Lemma d_nn a b r s : f64_range a -> f64_range b -> f64_is_nan a = false -> f64_is_nan b = false ->
  bcmp (enc_f64a (f64_neg a) ++ r) (enc_f64a (f64_neg b) ++ s) =
  match - f64_key a ?= - f64_key b with Eq => bcmp r s | c => c end.
Proof.
  intros Ha Hb Na Nb.
  destruct (f64_okey_neg a Ha Na) as (Ra & Na' & Ka). destruct (f64_okey_neg b Hb Nb) as (Rb & Nb' & Kb).
  rewrite <- Ka, <- Kb.
  exact (enc_f64a_order (f64_neg a) (f64_neg b) r s Ra Rb).
Qed.
Lemma f64_key_bound u : f64_range u -> - f64_sign < f64_key u < f64_sign.
Proof. unfold f64_key, f64_sign, f64_range. intros. destruct (u <? _) eqn:E; lia. Qed.

Lemma d_nan_l (a : Z) b r s : f64_range b -> f64_is_nan b = false ->
  bcmp ([G_float64NaNDesc] ++ r) (enc_f64a (f64_neg b) ++ s) = Gt.
Proof.
  intros Hb Nb. destruct (f64_okey_neg b Hb Nb) as (Rb & Nb' & Kb).
  destruct (enc_f64a_head _ Nb') as (t & rest & -> & Ht). unfold G_float64NaNDesc. cbn [app bcmp].
  assert (E5 : (5 ?= t) = Gt) by (apply Z.compare_gt_iff; lia). rewrite E5. reflexivity.
Qed.

Theorem enc_f64d_order :
  sd_order (fun a b => Z.compare (f64_okey_d a) (f64_okey_d b)) enc_f64d f64_range.
Proof.
  intros a b r s Ha Hb. unfold enc_f64d, f64_okey_d.
  destruct (f64_is_nan a) eqn:Na, (f64_is_nan b) eqn:Nb.
  - rewrite Z.compare_refl. apply bcmp_app_same.
  - pose proof (f64_key_bound b Hb).
    assert (E : (f64_sign ?= - f64_key b) = Gt) by (apply Z.compare_gt_iff; lia). rewrite E.
    apply (d_nan_l a); assumption.
  - pose proof (f64_key_bound a Ha).
    assert (E : (- f64_key a ?= f64_sign) = Lt) by (apply Z.compare_lt_iff; lia). rewrite E.
    rewrite bcmp_antisym, (d_nan_l b a s r Ha Na). reflexivity.
  - apply d_nn; assumption.
Qed.

Theorem G_float64_asc_order :
  sd_order (fun a b => Z.compare (f64_okey a) (f64_okey b)) (G_EncodeFloat64Ascending []) f64_range.
Proof. intros a b r s Ha Hb. rewrite !G_float64_asc_shape by assumption. apply enc_f64a_order; assumption. Qed.
Theorem G_float64_desc_order :
  sd_order (fun a b => Z.compare (f64_okey_d a) (f64_okey_d b)) (G_EncodeFloat64Descending []) f64_range.
Proof. intros a b r s Ha Hb. rewrite !G_float64_desc_shape by assumption. apply enc_f64d_order; assumption. Qed.
