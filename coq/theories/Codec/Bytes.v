(* Byte strings as [list Z] (each element in [0,256)), lexicographic comparison as
   Go's bytes.Compare, big-endian values. *)
From Coq Require Import List ZArith Lia Bool.
Import ListNotations.
Open Scope Z_scope.

Definition is_byte (x : Z) : Prop := 0 <= x < 256.
Definition bytes (l : list Z) : Prop := Forall is_byte l.

Fixpoint bcmp (a b : list Z) : comparison :=
  match a, b with
  | [], [] => Eq
  | [], _ => Lt
  | _, [] => Gt
  | x :: a', y :: b' => match x ?= y with Eq => bcmp a' b' | c => c end
  end.

Lemma bcmp_refl a : bcmp a a = Eq.
Proof. induction a as [|x a IH]; cbn [bcmp]; auto. rewrite Z.compare_refl; auto. Qed.

Lemma bcmp_antisym a b : bcmp b a = CompOpp (bcmp a b).
Proof.
  revert b; induction a as [|x a IH]; intros [|y b]; cbn [bcmp]; auto.
  rewrite (Z.compare_antisym x y). destruct (x ?= y); cbn; auto.
Qed.

Lemma bcmp_app_same p a b : bcmp (p ++ a) (p ++ b) = bcmp a b.
Proof. induction p as [|x p IH]; cbn [app bcmp]; auto. rewrite Z.compare_refl; auto. Qed.

Lemma bcmp_eq a b : bcmp a b = Eq -> a = b.
Proof.
  revert b; induction a as [|x a IH]; intros [|y b]; cbn [bcmp]; try discriminate; auto.
  destruct (x ?= y) eqn:E; try discriminate. apply Z.compare_eq in E. intros H; f_equal; auto.
Qed.

(* big-endian: the low n bytes of v, and the value of a byte string *)
Fixpoint be_bytes (n : nat) (v : Z) : list Z :=
  match n with
  | O => []
  | S n' => be_bytes n' (v / 256) ++ [v mod 256]
  end.

Fixpoint be_val (l : list Z) (acc : Z) : Z :=
  match l with [] => acc | x :: l' => be_val l' (acc * 256 + x) end.

Lemma be_val_app l1 l2 acc : be_val (l1 ++ l2) acc = be_val l2 (be_val l1 acc).
Proof. revert acc; induction l1; simpl; auto. Qed.

Lemma be_bytes_length n v : length (be_bytes n v) = n.
Proof. revert v; induction n; simpl; intros; auto. rewrite app_length, IHn; simpl; lia. Qed.

Lemma be_bytes_val n v : 0 <= v -> be_val (be_bytes n v) 0 = v mod 256 ^ Z.of_nat n.
Proof.
  revert v; induction n; intros v Hv.
  - simpl. rewrite Z.mod_1_r. reflexivity.
  - cbn [be_bytes]. rewrite be_val_app. cbn [be_val]. rewrite IHn by (apply Z.div_pos; lia).
    rewrite Nat2Z.inj_succ, Z.pow_succ_r by lia.
    rewrite Z.rem_mul_r by lia. lia.
Qed.

Lemma be_bytes_range n v : bytes (be_bytes n v).
Proof.
  revert v; induction n; intros; simpl; [constructor|].
  apply Forall_app; split; [apply IHn|]. constructor; [|constructor]. apply Z.mod_pos_bound; lia.
Qed.

Lemma be_bytes_mod n v : be_bytes n (v mod 256 ^ Z.of_nat n) = be_bytes n v.
Proof.
  revert v; induction n; intros v; [reflexivity|].
  cbn [be_bytes]. rewrite Nat2Z.inj_succ, Z.pow_succ_r by lia.
  assert (Hp : 0 < 256 ^ Z.of_nat n) by (apply Z.pow_pos_nonneg; lia).
  rewrite Z.rem_mul_r by lia.
  pose proof (Z.mod_pos_bound v 256 ltac:(lia)) as Hm.
  set (X := (v / 256) mod 256 ^ Z.of_nat n).
  assert (E1 : (v mod 256 + 256 * X) / 256 = X).
  { symmetry. apply Z.div_unique with (r := v mod 256); [left; exact Hm | lia]. }
  assert (E2 : (v mod 256 + 256 * X) mod 256 = v mod 256).
  { symmetry. apply Z.mod_unique with (q := X); [left; exact Hm | lia]. }
  rewrite E1, E2. unfold X. rewrite IHn. reflexivity.
Qed.

Lemma be_val_bound l : bytes l -> forall acc, 0 <= acc ->
  acc * 256 ^ Z.of_nat (length l) <= be_val l acc < (acc + 1) * 256 ^ Z.of_nat (length l).
Proof.
  induction 1 as [|x l Hx Hl IH]; intros acc Hacc.
  - simpl. lia.
  - cbn [be_val length]. rewrite Nat2Z.inj_succ, Z.pow_succ_r by lia. unfold is_byte in Hx.
    specialize (IH (acc * 256 + x) ltac:(lia)). nia.
Qed.

Lemma bcmp_be a b : length a = length b -> bytes a -> bytes b ->
  forall acc, 0 <= acc -> bcmp a b = (be_val a acc ?= be_val b acc).
Proof.
  revert b; induction a as [|x a IH]; intros [|y b] Hlen Ha Hb acc Hacc; try discriminate.
  - simpl. symmetry. apply Z.compare_refl.
  - inversion Ha as [|? ? Hx Ha']; inversion Hb as [|? ? Hy Hb']; subst.
    cbn [bcmp be_val]. injection Hlen as Hlen. unfold is_byte in *.
    destruct (Z.compare_spec x y) as [->|Hlt|Hgt].
    + apply IH; auto; lia.
    + symmetry. apply Z.compare_lt_iff.
      pose proof (be_val_bound a Ha' (acc*256+x) ltac:(lia)).
      pose proof (be_val_bound b Hb' (acc*256+y) ltac:(lia)). rewrite Hlen in *.
      assert (0 < 256 ^ Z.of_nat (length b)) by (apply Z.pow_pos_nonneg; lia). nia.
    + symmetry. apply Z.compare_gt_iff.
      pose proof (be_val_bound a Ha' (acc*256+x) ltac:(lia)).
      pose proof (be_val_bound b Hb' (acc*256+y) ltac:(lia)). rewrite Hlen in *.
      assert (0 < 256 ^ Z.of_nat (length b)) by (apply Z.pow_pos_nonneg; lia). nia.
Qed.

(* comparing (tag :: payload ++ rest) strings whose payload length is a function of the tag *)
Lemma bcmp_app_eqlen a b r s : length a = length b -> bytes a -> bytes b ->
  bcmp (a ++ r) (b ++ s) = match bcmp a b with Eq => bcmp r s | c => c end.
Proof.
  revert b; induction a as [|x a IH]; intros [|y b] Hlen Ha Hb; try discriminate; cbn [app bcmp]; auto.
  inversion Ha; inversion Hb; subst. injection Hlen as Hlen.
  destruct (x ?= y); auto.
Qed.

Lemma firstn_app_exact {A} (l r : list A) : firstn (length l) (l ++ r) = l.
Proof. induction l; simpl; f_equal; auto. Qed.
Lemma skipn_app_exact {A} (l r : list A) : skipn (length l) (l ++ r) = r.
Proof. induction l; simpl; auto. Qed.
