(* Ordering and aggregates that reach through a relation (planner/type_join.go, order.go, sum.go / count.go over a
   joined sub-selection). The children are the rows of the link table; a child's sort key is its parent's field, null
   (lowest) when it has no parent. Whatever plan lists the children - a scan of the children followed by a sort, or a
   walk over the parents in index order - a listing that is complete and ordered shows one and the same sequence of
   sort keys; per-parent aggregates are aggregates over the children selected from the child side. *)
From Coq Require Import List ZArith Arith Bool Lia Permutation Sorted.
From Verif Require Import Bytes Sem SemProofs Index Join.
Import ListNotations.

(* ---- ordering ---- *)
Definition ocmp (a b : option Z) : comparison :=
  match a, b with
  | None, None => Eq
  | None, Some _ => Lt
  | Some _, None => Gt
  | Some x, Some y => (x ?= y)%Z
  end.
Definition dcmp (desc : bool) (a b : option Z) : comparison := if desc then CompOpp (ocmp a b) else ocmp a b.

(* the sort key of a child: the parent's field *)
Definition ck (key : nat -> option Z) (l : nat * option nat) : option Z :=
  match snd l with Some p => key p | None => None end.
Definition lcmp (desc : bool) (key : nat -> option Z) (a b : nat * option nat) : comparison :=
  dcmp desc (ck key a) (ck key b).
Definition order_children (desc : bool) (key : nat -> option Z) (ls : links) : links := sort_by (lcmp desc key) ls.

Definition kle (desc : bool) (a b : option Z) : Prop := dcmp desc a b <> Gt.
Definition ordered (desc : bool) (key : nat -> option Z) (l : links) : Prop :=
  StronglySorted (fun a b => kle desc (ck key a) (ck key b)) l.

Lemma ocmp_antisym a b : ocmp b a = CompOpp (ocmp a b).
Proof. destruct a, b; cbn; auto. apply Z.compare_antisym. Qed.
Lemma dcmp_antisym d a b : dcmp d b a = CompOpp (dcmp d a b).
Proof. unfold dcmp. destruct d; rewrite ocmp_antisym; auto. Qed.
Lemma ocmp_eq a b : ocmp a b = Eq -> a = b.
Proof. destruct a, b; cbn; intros H; try discriminate; auto. apply Z.compare_eq in H. now subst. Qed.
Lemma ocmp_le_trans a b c : ocmp a b <> Gt -> ocmp b c <> Gt -> ocmp a c <> Gt.
Proof.
  destruct a as [x|], b as [y|], c as [z|]; cbn; try congruence.
  intros H1 H2. destruct (Z.compare_spec x y), (Z.compare_spec y z), (Z.compare_spec x z); try congruence; lia.
Qed.
Lemma ocmp_ge_trans a b c : ocmp a b <> Lt -> ocmp b c <> Lt -> ocmp a c <> Lt.
Proof.
  destruct a as [x|], b as [y|], c as [z|]; cbn; try congruence.
  intros H1 H2. destruct (Z.compare_spec x y), (Z.compare_spec y z), (Z.compare_spec x z); try congruence; lia.
Qed.
Lemma kle_trans d a b c : kle d a b -> kle d b c -> kle d a c.
Proof.
  unfold kle, dcmp. destruct d.
  - intros H1 H2. assert (G1 : ocmp a b <> Lt) by (destruct (ocmp a b); cbn in H1; congruence).
    assert (G2 : ocmp b c <> Lt) by (destruct (ocmp b c); cbn in H2; congruence).
    pose proof (ocmp_ge_trans a b c G1 G2) as G. destruct (ocmp a c); cbn; congruence.
  - apply ocmp_le_trans.
Qed.
Lemma kle_antisym d a b : kle d a b -> kle d b a -> a = b.
Proof.
  unfold kle. intros H1 H2. rewrite dcmp_antisym in H2.
  assert (E : dcmp d a b = Eq) by (destruct (dcmp d a b); cbn in H2; congruence).
  unfold dcmp in E. destruct d; [|now apply ocmp_eq].
  apply ocmp_eq. destruct (ocmp a b); cbn in E; congruence.
Qed.

(* the sorted listing keeps every child - the ones without a parent included - and is ordered *)
Theorem order_children_complete desc key ls : Permutation (order_children desc key ls) ls.
Proof. apply sort_by_perm. Qed.

Theorem order_children_ordered desc key ls : ordered desc key (order_children desc key ls).
Proof.
  unfold ordered, order_children.
  apply (sort_by_sorted (lcmp desc key) (fun _ => True)).
  - intros x y. unfold lcmp. apply dcmp_antisym.
  - intros x y z _ _ _. unfold SemProofs.le, lcmp. apply kle_trans.
  - apply Forall_forall. auto.
Qed.

Lemma sorted_map desc key l : ordered desc key l -> StronglySorted (kle desc) (map (ck key) l).
Proof.
  unfold ordered. induction 1 as [|a l Hs IH Hf]; cbn [map]; constructor; auto.
  rewrite Forall_forall in *. intros k Hk. apply in_map_iff in Hk. destruct Hk as [b [<- Hb]]. auto.
Qed.

(* a multiset of keys has one sorted arrangement *)
Lemma sorted_perm_unique desc (l1 : list (option Z)) : forall l2,
  StronglySorted (kle desc) l1 -> StronglySorted (kle desc) l2 -> Permutation l1 l2 -> l1 = l2.
Proof.
  induction l1 as [|a t1 IH]; intros l2 S1 S2 HP.
  - apply Permutation_nil in HP. now subst.
  - destruct l2 as [|b t2]; [apply Permutation_sym, Permutation_nil in HP; discriminate|].
    inversion S1 as [|? ? S1' F1]; inversion S2 as [|? ? S2' F2]; subst.
    rewrite Forall_forall in F1, F2.
    assert (Hab : a = b).
    { assert (Ha : In a (b :: t2)) by (apply (Permutation_in _ HP); left; reflexivity).
      assert (Hb : In b (a :: t1)) by (apply (Permutation_in _ (Permutation_sym HP)); left; reflexivity).
      destruct Ha as [Ha|Ha]; [now subst|]. destruct Hb as [Hb|Hb]; [now subst|].
      apply (kle_antisym desc); auto. }
    subst b. f_equal. apply IH; auto. apply Permutation_cons_inv in HP. exact HP.
Qed.

(* whichever plan produced them, two complete and ordered listings of the children show the same sequence of sort
   keys; in particular every plan agrees with the scan-and-sort plan *)
Theorem order_keys_unique desc key ls l1 l2 :
  Permutation l1 ls -> Permutation l2 ls -> ordered desc key l1 -> ordered desc key l2 ->
  map (ck key) l1 = map (ck key) l2.
Proof.
  intros P1 P2 O1 O2. apply (sorted_perm_unique desc); try (now apply sorted_map).
  apply Permutation_map. eapply Permutation_trans; [exact P1 | apply Permutation_sym; exact P2].
Qed.

Corollary any_plan_agrees_with_sort desc key ls l :
  Permutation l ls -> ordered desc key l -> map (ck key) l = map (ck key) (order_children desc key ls).
Proof.
  intros HP HO. apply (order_keys_unique desc key ls); auto.
  - apply order_children_complete.
  - apply order_children_ordered.
Qed.

(* a listing that leaves out a child is not the answer: its length differs *)
Corollary dropped_child_detected key (ls l : links) :
  Permutation l ls -> length (map (ck key) l) = length ls.
Proof. intros HP. rewrite map_length. apply Permutation_length. exact HP. Qed.

(* children without a parent come first ascending and last descending *)
Lemma orphan_lowest key a b : snd a = None -> kle false (ck key a) (ck key b).
Proof. unfold kle, dcmp, ck. intros ->. destruct (match snd b with Some p => key p | None => None end); cbn; congruence. Qed.
Lemma orphan_highest key a b : snd b = None -> kle true (ck key a) (ck key b).
Proof. unfold kle, dcmp, ck. intros ->. destruct (match snd a with Some p => key p | None => None end); cbn; congruence. Qed.

(* ---- aggregates ---- *)
Definition wsum (w : nat -> Z) (cs : list nat) : Z := fold_right Z.add 0%Z (map w cs).
Definition wcount (cs : list nat) : Z := Z.of_nat (length cs).

(* the children of p seen from the parent side are the children selected from the child side by "parent = p" *)
Theorem children_from_child_side ls p : children ls p = children_with (fun q => Nat.eqb q p) ls.
Proof.
  reflexivity.
Qed.

Corollary aggregates_direction_independent (agg : list nat -> Z) ls p :
  agg (children ls p) = agg (children_with (fun q => Nat.eqb q p) ls).
Proof. now rewrite children_from_child_side. Qed.

(* totals: summing the per-parent aggregate over the parents = the aggregate over the children linked to one of them *)
Fixpoint total (f : nat -> Z) (ps : list nat) : Z := match ps with [] => 0%Z | p :: r => (f p + total f r)%Z end.
Definition linked_in (ps : list nat) (l : nat * option nat) : bool :=
  match snd l with Some p => existsb (Nat.eqb p) ps | None => false end.

Lemma children_cons l ls p :
  children (l :: ls) p = if points_to p l then fst l :: children ls p else children ls p.
Proof. unfold children. cbn [filter]. destruct (points_to p l); reflexivity. Qed.

Lemma total_step (x : Z) (g : nat -> Z) l ps : NoDup ps ->
  total (fun p => if points_to p l then (x + g p)%Z else g p) ps = ((if linked_in ps l then x else 0) + total g ps)%Z.
Proof.
  unfold linked_in, points_to. destruct (snd l) as [q|].
  - induction ps as [|p ps IH]; intros ND; cbn [total existsb]; [reflexivity|].
    inversion ND as [|? ? Hnin ND']; subst. specialize (IH ND').
    destruct (Nat.eqb_spec q p) as [->|Hne]; cbn [orb].
    + rewrite IH. assert (E : existsb (Nat.eqb p) ps = false).
      { apply not_true_is_false. intros H. apply existsb_exists in H. destruct H as [z [Hz Ez]].
        apply Nat.eqb_eq in Ez. subst z. contradiction. }
      rewrite E. lia.
    + rewrite IH. lia.
  - intros _. induction ps as [|p ps IH]; cbn [total]; [reflexivity|]. rewrite IH. lia.
Qed.

Theorem totals_agree w ps ls : NoDup ps ->
  total (fun p => wsum w (children ls p)) ps = wsum w (map fst (filter (linked_in ps) ls)).
Proof.
  intros ND. induction ls as [|l ls IH].
  - cbn. induction ps as [|p ps IHp]; cbn [total]; [reflexivity|]. inversion ND; subst. rewrite IHp; auto.
  - cbn [filter].
    assert (E : forall p, wsum w (children (l :: ls) p) =
                          if points_to p l then (w (fst l) + wsum w (children ls p))%Z else wsum w (children ls p)).
    { intros p. rewrite children_cons. destruct (points_to p l); reflexivity. }
    assert (E2 : total (fun p => wsum w (children (l :: ls) p)) ps =
                 total (fun p => if points_to p l then (w (fst l) + wsum w (children ls p))%Z else wsum w (children ls p)) ps).
    { clear -E. induction ps as [|p ps IHp]; cbn [total]; [reflexivity|]. now rewrite E, IHp. }
    rewrite E2, (total_step (w (fst l)) (fun p => wsum w (children ls p)) l ps ND), IH.
    destruct (linked_in ps l); cbn [map wsum fold_right]; unfold wsum; lia.
Qed.

Example order_nonvacuous :
  let key := fun p : nat => match p with 0%nat => Some 3%Z | 1%nat => Some 1%Z | _ => None end in
  let ls := [(0, Some 0); (1, None); (2, Some 1); (3, Some 0)]%nat in
  map fst (order_children false key ls) = [1; 2; 0; 3]%nat /\ map fst (order_children true key ls) = [0; 3; 2; 1]%nat /\
  total (fun p => wsum (fun c => Z.of_nat c) (children ls p)) [0; 1]%nat = 5%Z.
Proof. vm_compute. repeat split. Qed.
