(* Query semantics: values, filters (connor), the order comparator (base.Compare), stable ordering, limit/offset,
   aggregates.  [eval_*] follow the operator descriptions the product ships and the code of internal/connor;
   [order_coded] follows planner/values.go as it is coded (only the first order key is consulted - finding F7),
   [order_doc] is the documented lexicographic ordering. *)
From Coq Require Import List ZArith Arith Bool Lia.
From Verif Require Import Bytes.
Import ListNotations.
Local Open Scope Z_scope.

Inductive val :=
| VNull | VBool (b : bool) | VInt (z : Z)
| VFlt (z8 : Z)              (* a float that is a multiple of 1/8, scaled by 8 *)
| VStr (s : list Z).

Definition num (v : val) : option Z := match v with VInt z => Some (8 * z) | VFlt z => Some z | _ => None end.
Definition is_null (v : val) : bool := match v with VNull => true | _ => false end.

Fixpoint lz_eqb (a b : list Z) : bool :=
  match a, b with
  | [], [] => true
  | x :: a', y :: b' => Z.eqb x y && lz_eqb a' b'
  | _, _ => false
  end.

(* eq.go *)
Definition veq (c d : val) : bool :=
  match c, d with
  | VNull, VNull => true
  | VBool x, VBool y => Bool.eqb x y
  | VStr x, VStr y => lz_eqb x y
  | _, _ => match num c, num d with Some x, Some y => Z.eqb x y | _, _ => false end
  end.

Inductive cmpop := OEq | ONe | OGt | OGe | OLt | OLe.

(* gt.go ge.go lt.go le.go ne.go: comparisons against null data are false, a null condition has its own rules *)
Definition eval_cmp (op : cmpop) (c d : val) : bool :=
  match op with
  | OEq => veq c d
  | ONe => negb (veq c d)
  | OGt => if is_null c then negb (is_null d) else match num c, num d with Some x, Some y => y >? x | _, _ => false end
  | OGe => if is_null c then true else match num c, num d with Some x, Some y => y >=? x | _, _ => false end
  | OLt => if is_null c then false else match num c, num d with Some x, Some y => y <? x | _, _ => false end
  | OLe => if is_null c then is_null d else match num c, num d with Some x, Some y => y <=? x | _, _ => false end
  end.

(* like.go, with the pattern pre-classified by the position of '%' *)
Inductive lpat := LExact (p : list Z) | LPrefix (p : list Z) | LSuffix (p : list Z) | LContains (p : list Z) | LPrefSuf (a b : list Z).

Fixpoint is_prefix (p s : list Z) : bool :=
  match p, s with
  | [], _ => true
  | x :: p', y :: s' => Z.eqb x y && is_prefix p' s'
  | _, [] => false
  end.
Fixpoint contains (p s : list Z) : bool :=
  is_prefix p s || match s with [] => false | _ :: s' => contains p s' end.
Definition is_suffix (p s : list Z) : bool := is_prefix (rev p) (rev s).
Definition lower (c : Z) : Z := if (65 <=? c) && (c <=? 90) then c + 32 else c.

Definition like_str (pt : lpat) (s : list Z) : bool :=
  match pt with
  | LExact p => lz_eqb p s
  | LPrefix p => is_prefix p s
  | LSuffix p => is_suffix p s
  | LContains p => contains p s
  | LPrefSuf a b => is_prefix a s && is_suffix b s
  end.

Inductive cond :=
| CCmp (op : cmpop) (c : val)
| CIn (vs : list val) | CNin (vs : list val)
| CLike (pt : lpat) (neg ci : bool).     (* _like _nlike _ilike _nilike; for ci the pattern is already lower case *)

Definition eval_cond (c : cond) (d : val) : bool :=
  match c with
  | CCmp op v => eval_cmp op v d
  | CIn vs => existsb (fun v => veq v d) vs
  | CNin vs => negb (existsb (fun v => veq v d) vs)
  | CLike pt neg ci =>
      let m := match d with VStr s => like_str pt (if ci then map lower s else s) | _ => false end in
      if neg then negb m else m
  end.

Inductive qfilter :=
| FTrue
| FField (f : nat) (c : cond)
| FAnd (l : list qfilter)
| FOr (l : list qfilter)
| FNot (g : qfilter).

Definition doc := list val.
Definition field (d : doc) (f : nat) : val := nth f d VNull.

Fixpoint eval_filter (g : qfilter) (d : doc) : bool :=
  match g with
  | FTrue => true
  | FField f c => eval_cond c (field d f)
  | FAnd l => (fix all (l : list qfilter) := match l with [] => true | x :: r => eval_filter x d && all r end) l
  | FOr l => (fix any (l : list qfilter) := match l with [] => false | x :: r => eval_filter x d || any r end) l
  | FNot h => negb (eval_filter h d)
  end.

(* base.Compare: nil lowest, then the natural order of the kind *)
Definition vcmp (a b : val) : comparison :=
  match a, b with
  | VNull, VNull => Eq
  | VNull, _ => Lt
  | _, VNull => Gt
  | VBool x, VBool y => match x, y with false, true => Lt | true, false => Gt | _, _ => Eq end
  | VStr x, VStr y => bcmp x y
  | _, _ => match num a, num b with Some x, Some y => x ?= y | _, _ => Eq end
  end.

Definition okey := (nat * bool)%type.                 (* field, descending *)

(* a < b under one key *)
Definition key_cmp (k : okey) (a b : doc) : comparison :=
  let c := vcmp (field a (fst k)) (field b (fst k)) in if snd k then CompOpp c else c.

(* documented ordering: first key, ties by each following key *)
Fixpoint lex_cmp (ks : list okey) (a b : doc) : comparison :=
  match ks with
  | [] => Eq
  | k :: r => match key_cmp k a b with Eq => lex_cmp r a b | c => c end
  end.
(* as coded in docValueLess: the loop returns in its first iteration *)
Definition coded_cmp (ks : list okey) (a b : doc) : comparison :=
  match ks with [] => Eq | k :: _ => key_cmp k a b end.

(* stable insertion sort: x goes after every element that is not greater *)
Fixpoint insert_by {A} (cmp : A -> A -> comparison) (x : A) (l : list A) : list A :=
  match l with
  | [] => [x]
  | y :: r => match cmp x y with Lt => x :: l | _ => y :: insert_by cmp x r end
  end.
Definition sort_by {A} (cmp : A -> A -> comparison) (l : list A) : list A :=
  fold_left (fun acc x => insert_by cmp x acc) l [].

Definition order_doc {I} (ks : list okey) (l : list (I * doc)) : list (I * doc) :=
  sort_by (fun a b => lex_cmp ks (snd a) (snd b)) l.
Definition order_coded {I} (ks : list okey) (l : list (I * doc)) : list (I * doc) :=
  sort_by (fun a b => coded_cmp ks (snd a) (snd b)) l.

(* limit / offset: a limit of zero is ignored *)
Definition slice {A} (offset limit : nat) (l : list A) : list A :=
  let r := skipn offset l in match limit with O => r | _ => firstn limit r end.

Record query := mkQy { q_filter : qfilter; q_order : list okey; q_offset : nat; q_limit : nat }.

Definition run_query {I} (q : query) (docs : list (I * doc)) : list (I * doc) :=
  slice (q_offset q) (q_limit q)
        (match q_order q with [] => (fun l => l) | ks => order_coded ks end
           (filter (fun x => eval_filter (q_filter q) (snd x)) docs)).

(* aggregates over a field of the filtered documents *)
Definition agg_count {I} (g : qfilter) (docs : list (I * doc)) : Z :=
  Z.of_nat (length (filter (fun x => eval_filter g (snd x)) docs)).
Definition nums_of {I} (g : qfilter) (f : nat) (docs : list (I * doc)) : list Z :=
  flat_map (fun x => match num (field (snd x) f) with Some z => [z] | None => [] end)
           (filter (fun x => eval_filter g (snd x)) docs).
Definition agg_sum {I} (g : qfilter) (f : nat) (docs : list (I * doc)) : Z := fold_right Z.add 0 (nums_of g f docs).
Definition agg_min {I} (g : qfilter) (f : nat) (docs : list (I * doc)) : option Z :=
  match nums_of g f docs with [] => None | x :: r => Some (fold_right Z.min x r) end.
Definition agg_max {I} (g : qfilter) (f : nat) (docs : list (I * doc)) : option Z :=
  match nums_of g f docs with [] => None | x :: r => Some (fold_right Z.max x r) end.
