(* Document access control: every source of documents in a plan applies the read check between fetch and filter
   (permissionedFetcher; and, after the F9 repair, dagScanNode).  Non-interference: for every plan built from checked
   sources a requester sees exactly what it would see if the unreadable documents did not exist. *)
From Coq Require Import List ZArith Arith Bool Lia Permutation.
From Verif Require Import Bytes Sem SemProofs Index.
Import ListNotations.

Definition db := list (nat * doc).
Definition perm := nat -> bool.                       (* may the requester read document id? *)

Inductive plan :=
| PScan                                               (* primary scan *)
| PIndex (f : nat) (c : cond)                         (* index scan: candidates of a condition *)
| PFilter (g : qfilter) (p : plan)
| POrder (ks : list okey) (p : plan)
| PSlice (o l : nat) (p : plan).

Definition readable (can : perm) (d : db) : db := filter (fun x => can (fst x)) d.

(* checked sources: the permission check sits between the fetch and everything else *)
Fixpoint eval (can : perm) (d : db) (p : plan) : db :=
  match p with
  | PScan => readable can d
  | PIndex f c => readable can (filter (fun x => cand_cond c (field (snd x) f)) d)
  | PFilter g q => filter (fun x => eval_filter g (snd x)) (eval can d q)
  | POrder ks q => order_coded ks (eval can d q)
  | PSlice o l q => slice o l (eval can d q)
  end.

Definition everyone : perm := fun _ => true.

Lemma readable_everyone d : readable everyone d = d.
Proof. unfold readable, everyone. induction d as [|x d IH]; cbn; [reflexivity|]. rewrite IH. reflexivity. Qed.

Lemma filter_comm {A} (f g : A -> bool) l : filter f (filter g l) = filter g (filter f l).
Proof.
  induction l as [|x l IH]; [reflexivity|]. cbn [filter].
  destruct (f x) eqn:Ef, (g x) eqn:Eg; cbn [filter]; rewrite ?Ef, ?Eg, IH; reflexivity.
Qed.

(* what the requester gets from the real database is what anyone would get from the database without the
   documents the requester may not read: rows, order, slices - hence also every aggregate computed from them *)
Theorem noninterference can d p : eval can d p = eval everyone (readable can d) p.
Proof.
  induction p as [|f c|g q IH|ks q IH|o l q IH]; cbn [eval].
  - rewrite readable_everyone. reflexivity.
  - rewrite readable_everyone. unfold readable. apply filter_comm.
  - rewrite IH. reflexivity.
  - rewrite IH. reflexivity.
  - rewrite IH. reflexivity.
Qed.

(* two databases that differ only in unreadable documents are indistinguishable *)
Corollary indistinguishable can d1 d2 p : readable can d1 = readable can d2 -> eval can d1 p = eval can d2 p.
Proof. intros H. rewrite (noninterference can d1), (noninterference can d2), H. reflexivity. Qed.

(* an unchecked source leaks: the commits query before the F9 repair *)
Definition eval_unchecked (d : db) : db := d.
Example unchecked_source_refuted :
  let d := [(0%nat, [VInt 1]); (1%nat, [VInt 2])] in
  let can := fun i => Nat.eqb i 0 in
  map fst (eval_unchecked d) = [0%nat; 1%nat] /\ map fst (eval can d PScan) = [0%nat].
Proof. vm_compute. split; reflexivity. Qed.

(* ---- writes are guarded; grants and revocations are immediate ---- *)
Definition rels := list (nat * nat).                  (* (actor, document): actor holds a relation that grants the permission *)
Definition holds (r : rels) (a i : nat) : bool := existsb (fun e => Nat.eqb (fst e) a && Nat.eqb (snd e) i) r.

Definition guarded_update (r : rels) (a i : nat) (f : doc -> doc) (d : db) : db :=
  if holds r a i then map (fun x => if Nat.eqb (fst x) i then (fst x, f (snd x)) else x) d else d.
Definition guarded_delete (r : rels) (a i : nat) (d : db) : db :=
  if holds r a i then filter (fun x => negb (Nat.eqb (fst x) i)) d else d.

Theorem writes_guarded r a i f d : holds r a i = false ->
  guarded_update r a i f d = d /\ guarded_delete r a i d = d.
Proof. intros H. unfold guarded_update, guarded_delete. rewrite H. split; reflexivity. Qed.

Definition grant (r : rels) (a i : nat) : rels := (a, i) :: r.
Definition revoke (r : rels) (a i : nat) : rels := filter (fun e => negb (Nat.eqb (fst e) a && Nat.eqb (snd e) i)) r.

Theorem grant_revoke_immediate r a i :
  holds (grant r a i) a i = true /\ holds (revoke r a i) a i = false /\
  (forall b j, (b, j) <> (a, i) -> holds (grant r a i) b j = holds r b j /\ holds (revoke r a i) b j = holds r b j).
Proof.
  split; [|split].
  - unfold holds, grant. cbn. rewrite !Nat.eqb_refl. reflexivity.
  - unfold holds, revoke. induction r as [|e r IH]; [reflexivity|]. cbn [filter].
    destruct (Nat.eqb (fst e) a && Nat.eqb (snd e) i) eqn:E; cbn [negb]; [exact IH|]. cbn [existsb]. rewrite E. exact IH.
  - intros b j Hne. assert (Hb : (Nat.eqb a b && Nat.eqb i j) = false).
    { destruct (Nat.eqb_spec a b), (Nat.eqb_spec i j); subst; auto. exfalso. apply Hne. reflexivity. }
    split.
    + unfold holds, grant. cbn [existsb fst snd]. rewrite Hb. reflexivity.
    + unfold holds, revoke. induction r as [|e r IH]; [reflexivity|]. cbn [filter existsb].
      destruct (Nat.eqb (fst e) a && Nat.eqb (snd e) i) eqn:E; cbn [negb existsb].
      * apply andb_prop in E. destruct E as [E1 E2]. apply Nat.eqb_eq in E1, E2.
        assert (Hx : (Nat.eqb (fst e) b && Nat.eqb (snd e) j) = false) by (rewrite E1, E2; exact Hb).
        rewrite Hx. exact IH.
      * rewrite IH. reflexivity.
Qed.
