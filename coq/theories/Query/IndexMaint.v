(* Index maintenance: the documents of a collection and the entries of one secondary index on a scalar field, under
   every write path that touches them (create, update, delete by id, delete by filter, index creation after the
   data, index removal). In the implementation the two are written by separate code (collection.go / collection_delete.go
   write the document, index.go Save / Update / Delete and collection_index.go indexExistingDocs write the entries); the
   model keeps them as two lists updated by separate functions and the theorems say they never drift apart:
   every live document has exactly one entry carrying its current value, there are no other entries, and therefore a
   lookup through the index returns what the scan returns. *)
From Coq Require Import List Arith Bool Lia Permutation.
Import ListNotations.

Section Maint.
Variable V : Type.

Record ist := mkI { live : list (nat * V); entries : list (nat * V); indexed : bool }.

Definition has (id : nat) (l : list (nat * V)) : bool := existsb (fun e => Nat.eqb (fst e) id) l.
Definition drop (id : nat) (l : list (nat * V)) : list (nat * V) := filter (fun e => negb (Nat.eqb (fst e) id)) l.
Definition keep_not (P : V -> bool) (l : list (nat * V)) : list (nat * V) := filter (fun e => negb (P (snd e))) l.

Inductive mop :=
| MCreate (id : nat) (v : V)
| MUpdate (id : nat) (v : V)
| MDelete (id : nat)
| MDeleteWhere (P : V -> bool)
| MIndex
| MUnindex.

(* documents *)
Definition step_docs (l : list (nat * V)) (o : mop) : list (nat * V) :=
  match o with
  | MCreate id v => if has id l then l else (id, v) :: l
  | MUpdate id v => if has id l then (id, v) :: drop id l else l
  | MDelete id => drop id l
  | MDeleteWhere P => keep_not P l
  | MIndex | MUnindex => l
  end.

(* index entries; [l] is the document list before the operation (index creation reads it, the write paths consult it
   to know whether the document exists) *)
Definition step_entries (on : bool) (l es : list (nat * V)) (o : mop) : list (nat * V) :=
  match o with
  | MCreate id v => if has id l then es else if on then (id, v) :: es else es
  | MUpdate id v => if has id l then (if on then (id, v) :: drop id es else es) else es
  | MDelete id => if on then drop id es else es
  | MDeleteWhere P => if on then keep_not P es else es
  | MIndex => if on then es else l
  | MUnindex => []
  end.

Definition mstep (s : ist) (o : mop) : ist :=
  mkI (step_docs (live s) o) (step_entries (indexed s) (live s) (entries s) o)
      (match o with MIndex => true | MUnindex => false | _ => indexed s end).

Definition init : ist := mkI [] [] false.
Definition run (ops : list mop) : ist := fold_left mstep ops init.

Definition Inv (s : ist) : Prop :=
  NoDup (map fst (live s)) /\ entries s = (if indexed s then live s else []).

Lemma has_false_notin id l : has id l = false -> ~ In id (map fst l).
Proof.
  unfold has. intros H Hin. apply in_map_iff in Hin. destruct Hin as [e [<- He]].
  assert (G : existsb (fun e0 => Nat.eqb (fst e0) (fst e)) l = true).
  { apply existsb_exists. exists e. split; auto. apply Nat.eqb_refl. }
  congruence.
Qed.

Lemma drop_notin id l : ~ In id (map fst (drop id l)).
Proof.
  unfold drop. intros Hin. apply in_map_iff in Hin. destruct Hin as [e [<- He]].
  apply filter_In in He. destruct He as [_ He]. rewrite Nat.eqb_refl in He. discriminate.
Qed.

Lemma nodup_filter_fst (f : nat * V -> bool) l : NoDup (map fst l) -> NoDup (map fst (filter f l)).
Proof.
  induction l as [|e l IH]; cbn [map filter]; intros ND; [constructor|].
  inversion ND as [|? ? Hn ND']; subst. destruct (f e); cbn [map]; auto.
  constructor; auto. intros Hin. apply Hn. apply in_map_iff in Hin. destruct Hin as [x [E Hx]].
  apply filter_In in Hx. apply in_map_iff. exists x. tauto.
Qed.

Lemma step_inv s o : Inv s -> Inv (mstep s o).
Proof.
  intros [ND E]. unfold Inv, mstep. cbn [live entries indexed]. rewrite E. clear E.
  destruct o as [id v|id v|id|P| |]; cbn [step_docs step_entries].
  - destruct (has id (live s)) eqn:H; [split; auto|].
    split; [cbn [map]; constructor; auto; now apply has_false_notin | destruct (indexed s); reflexivity].
  - destruct (has id (live s)) eqn:H; [|split; auto].
    split; [cbn [map]; constructor; [apply drop_notin | now apply nodup_filter_fst] | destruct (indexed s); reflexivity].
  - split; [now apply nodup_filter_fst | destruct (indexed s); reflexivity].
  - split; [now apply nodup_filter_fst | destruct (indexed s); reflexivity].
  - split; auto. destruct (indexed s); reflexivity.
  - split; auto.
Qed.

(* for every history of writes and index creations / removals *)
Theorem maintained ops : Inv (run ops).
Proof.
  unfold run. assert (G : forall s, Inv s -> Inv (fold_left mstep ops s)).
  { induction ops as [|o ops IH]; intros s H; cbn [fold_left]; auto. apply IH. now apply step_inv. }
  apply G. split; [constructor | reflexivity].
Qed.

(* what a request sees *)
Definition lookup_index (P : V -> bool) (s : ist) : list nat := map fst (filter (fun e => P (snd e)) (entries s)).
Definition lookup_scan (P : V -> bool) (s : ist) : list nat := map fst (filter (fun e => P (snd e)) (live s)).

Theorem index_lookup_is_scan ops P : indexed (run ops) = true -> lookup_index P (run ops) = lookup_scan P (run ops).
Proof.
  intros H. destruct (maintained ops) as [_ E]. unfold lookup_index, lookup_scan. rewrite E, H. reflexivity.
Qed.

(* one entry per live document, none for any other *)
Theorem entries_are_the_live_documents ops :
  indexed (run ops) = true -> map fst (entries (run ops)) = map fst (live (run ops)) /\ NoDup (map fst (entries (run ops))).
Proof.
  intros H. destruct (maintained ops) as [ND E]. rewrite E, H. auto.
Qed.

(* a deleted document leaves no entry behind: its value can be taken again under a unique index *)
Theorem deleted_leaves_no_entry ops id : ~ In id (map fst (entries (mstep (run ops) (MDelete id)))).
Proof.
  destruct (step_inv (run ops) (MDelete id) (maintained ops)) as [_ E]. rewrite E.
  cbn [mstep indexed live step_docs]. destruct (indexed (run ops)); [apply drop_notin | cbn; auto].
Qed.

Theorem deleted_by_filter_leaves_no_entry ops P e :
  In e (entries (mstep (run ops) (MDeleteWhere P))) -> P (snd e) = false.
Proof.
  destruct (step_inv (run ops) (MDeleteWhere P) (maintained ops)) as [_ E]. rewrite E.
  cbn [mstep indexed live step_docs]. destruct (indexed (run ops)); [|intros []].
  unfold keep_not. intros H. apply filter_In in H. destruct H as [_ H]. now apply negb_true_iff in H.
Qed.
End Maint.

(* forgetting the entries on one write path breaks the invariant: the model of the pinned DeleteWithFilter *)
Example forgotten_path_refuted :
  let s := run nat [MCreate nat 1 7; MIndex nat] in
  let bad := mkI nat (step_docs nat (live nat s) (MDeleteWhere nat (fun v => Nat.eqb v 7))) (entries nat s) true in
  ~ Inv nat bad.
Proof. cbn. intros [_ E]. discriminate. Qed.

Example maint_nonvacuous :
  let s := run nat [MCreate nat 1 7; MCreate nat 2 8; MIndex nat; MUpdate nat 1 9; MDelete nat 2; MCreate nat 3 8] in
  indexed nat s = true /\ lookup_index nat (fun v => Nat.eqb v 8) s = [3] /\ map fst (entries nat s) = [3; 1].
Proof. vm_compute. repeat split. Qed.

(* building the index from the documents its creator may read (the pinned indexExistingDocs on a collection under
   access control) breaks it as well: the other documents exist and have no entry *)
Example index_built_from_callers_view_refuted :
  let s := run nat [MCreate nat 1 7; MCreate nat 2 8] in
  let may_read := fun id => Nat.eqb id 1 in
  let bad := mkI nat (live nat s) (filter (fun e => may_read (fst e)) (live nat s)) true in
  ~ Inv nat bad /\ lookup_index nat (fun v => Nat.eqb v 8) bad <> lookup_scan nat (fun v => Nat.eqb v 8) bad.
Proof. cbn. split; [intros [_ E]; discriminate | discriminate]. Qed.
