(* Relations: the primary side stores the foreign key; every way of reading the relation is a view of the same
   link table (planner/type_join.go: typeIndexJoin in both directions). *)
From Coq Require Import List ZArith Arith Bool Lia Permutation.
From Verif Require Import Bytes Sem Index.
Import ListNotations.

Definition links := list (nat * option nat).          (* child id, parent id it points to *)

Definition points_to (p : nat) (l : nat * option nat) : bool :=
  match snd l with Some q => Nat.eqb q p | None => false end.
Definition children (ls : links) (p : nat) : list nat := map fst (filter (points_to p) ls).
Definition pairs_from_parent (ps : list nat) (ls : links) : list (nat * nat) :=
  flat_map (fun p => map (fun c => (p, c)) (children ls p)) ps.
Definition pairs_from_child (ls : links) : list (nat * nat) :=
  flat_map (fun l => match snd l with Some p => [(p, fst l)] | None => [] end) ls.

(* a child appears among the related documents of P exactly when its own relation field points to P *)
Theorem membership ls p c : In c (children ls p) <-> In (c, Some p) ls.
Proof.
  unfold children. rewrite in_map_iff. split.
  - intros [[c' o] [Hc Hin]]. cbn in Hc. subst c'. apply filter_In in Hin. destruct Hin as [Hin Hp].
    unfold points_to in Hp. cbn in Hp. destruct o as [q|]; [|discriminate]. apply Nat.eqb_eq in Hp. subst. exact Hin.
  - intros Hin. exists (c, Some p). split; auto. apply filter_In. split; auto. unfold points_to. cbn. apply Nat.eqb_refl.
Qed.

(* the pairs listed from the parent side and from the child side are the same *)
Theorem direction_independent ps ls p c :
  In (p, c) (pairs_from_parent ps ls) <-> (In p ps /\ In (p, c) (pairs_from_child ls)).
Proof.
  unfold pairs_from_parent, pairs_from_child. rewrite !in_flat_map. split.
  - intros [q [Hq Hin]]. apply in_map_iff in Hin. destruct Hin as [c' [E Hc]]. inversion E; subst.
    split; auto. apply membership in Hc. exists (c, Some p). split; auto. cbn. left; reflexivity.
  - intros [Hp [[c' o] [Hin Hx]]]. cbn in Hx. destruct o as [q|]; [|destruct Hx].
    destruct Hx as [E|[]]. inversion E; subst. exists p. split; auto. apply in_map_iff. exists c. split; auto.
    apply membership. exact Hin.
Qed.

(* filters through the relation are views of the same pair set, whichever side the query starts from *)
Definition parents_with (P : nat -> bool) (ps : list nat) (ls : links) : list nat :=
  filter (fun p => existsb P (children ls p)) ps.
Definition children_with (Q : nat -> bool) (ls : links) : list nat :=
  map fst (filter (fun l => match snd l with Some p => Q p | None => false end) ls).

Theorem parents_with_spec P ps ls p :
  In p (parents_with P ps ls) <-> In p ps /\ exists c, In (p, c) (pairs_from_child ls) /\ P c = true.
Proof.
  unfold parents_with. rewrite filter_In, existsb_exists. split.
  - intros [Hp [c [Hc HP]]]. split; auto. exists c. split; auto.
    apply (direction_independent [p] ls p c). unfold pairs_from_parent. cbn [flat_map]. rewrite app_nil_r.
    apply in_map_iff. exists c. auto.
  - intros [Hp [c [Hc HP]]]. split; auto. exists c. split; auto.
    assert (H : In (p, c) (pairs_from_parent [p] ls)) by (apply direction_independent; split; [left; reflexivity | exact Hc]).
    unfold pairs_from_parent in H. cbn [flat_map] in H. rewrite app_nil_r in H. apply in_map_iff in H.
    destruct H as [c' [E Hin]]. inversion E; subst. exact Hin.
Qed.

Theorem children_with_spec Q ls c :
  In c (children_with Q ls) <-> exists p, In (c, Some p) ls /\ Q p = true.
Proof.
  unfold children_with. rewrite in_map_iff. split.
  - intros [[c' o] [E Hin]]. cbn in E. subst. apply filter_In in Hin. destruct Hin as [Hin HQ]. cbn in HQ.
    destruct o as [p|]; [|discriminate]. exists p. auto.
  - intros [p [Hin HQ]]. exists (c, Some p). split; auto. apply filter_In. split; auto.
Qed.

(* one-to-one: the link value behaves as a unique index on the primary side *)
Definition one_to_one_ok (s : list (nat * val)) : Prop := unique_ok s.
Theorem one_to_one_unique ops : one_to_one_ok (fold_left (fun s o => fst (ustep s o)) ops []).
Proof. apply unique_enforced. Qed.
