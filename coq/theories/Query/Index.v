(* Secondary indexes: an index-backed plan fetches the documents whose indexed value passes the iterator range /
   matcher derived from ONE conjunct of the filter (indexer_iterators.go, indexer_matchers.go), then re-applies the
   whole filter (filteredFetcher).  Transparency: the result is the scan result.  Unique indexes: insert/update are
   rejected exactly when they would leave two live documents sharing a non-null value. *)
From Coq Require Import List ZArith Arith Bool Lia Permutation.
From Verif Require Import Bytes Sem SemProofs.
Import ListNotations.
Local Open Scope Z_scope.

(* which index entries the iterator + matcher let through, by operator (value level; the key level is C17) *)
Definition cand_cond (c : cond) (v : val) : bool :=
  match c with
  | CCmp op cv =>
      if is_null cv then
        match op with
        | OEq => is_null v                       (* nilMatcher{matchNil: true} *)
        | ONe | OGt => negb (is_null v)          (* nilMatcher{matchNil: false} *)
        | _ => true                              (* _ge/_le/_lt null: no usable range, every entry is a candidate *)
        end
      else
        match op with
        | OEq => veq cv v
        | ONe => negb (veq cv v)                 (* comparing matcher OR nil *)
        | OGt => match vcmp v cv with Gt => true | _ => false end
        | OGe => match vcmp v cv with Lt => false | _ => true end
        | OLt => match vcmp v cv with Lt => true | _ => false end        (* null sorts first: inside the range *)
        | OLe => match vcmp v cv with Gt => false | _ => true end
        end
  | CIn vs => existsb (fun x => veq x v) vs
  | CNin vs => negb (existsb (fun x => veq x v) vs)
  | CLike pt neg ci =>
      match v with
      | VNull => neg                                                        (* repaired F24 *)
      | VStr s => let m := like_str pt (if ci then map lower s else s) in if neg then negb m else m
      | _ => neg                                                            (* not reachable on a String field *)
      end
  end.

(* the candidates never lose a matching value *)
Lemma num_vcmp a b x y : num a = Some x -> num b = Some y -> vcmp a b = (x ?= y).
Proof. destruct a, b; cbn; intros; try discriminate; congruence. Qed.

Theorem cand_complete c v : eval_cond c v = true -> cand_cond c v = true.
Proof.
  destruct c as [op cv|vs|vs|pt neg ci]; cbn [eval_cond cand_cond]; auto.
  - destruct (is_null cv) eqn:En.
    + destruct cv; try discriminate. destruct op, v; cbn; auto.
    + destruct op; cbn [eval_cmp]; rewrite ?En; auto.
      * destruct (num cv) as [x|] eqn:Ec, (num v) as [y|] eqn:Ev; try discriminate.
        rewrite (num_vcmp v cv y x Ev Ec). intros H. apply Z.gtb_lt in H. apply Z.compare_gt_iff in H. rewrite H. reflexivity.
      * destruct (num cv) as [x|] eqn:Ec, (num v) as [y|] eqn:Ev; try discriminate.
        rewrite (num_vcmp v cv y x Ev Ec). intros H. apply Z.geb_le in H. destruct (Z.compare_spec y x); auto; lia.
      * destruct (num cv) as [x|] eqn:Ec, (num v) as [y|] eqn:Ev; try discriminate.
        rewrite (num_vcmp v cv y x Ev Ec). intros H. apply Z.ltb_lt in H. apply Z.compare_lt_iff in H. rewrite H. reflexivity.
      * destruct (num cv) as [x|] eqn:Ec, (num v) as [y|] eqn:Ev; try discriminate.
        rewrite (num_vcmp v cv y x Ev Ec). intros H. apply Z.leb_le in H. destruct (Z.compare_spec y x); auto; lia.
  - destruct v; auto; destruct neg; auto.
Qed.

(* re-applying the whole filter to a complete, duplicate-free set of candidates gives the scan result *)
Theorem refilter_superset {I} (docs cands : list (I * doc)) g :
  NoDup docs -> NoDup cands -> (forall x, In x cands -> In x docs) ->
  (forall x, In x docs -> eval_filter g (snd x) = true -> In x cands) ->
  Permutation (sel g cands) (sel g docs).
Proof.
  intros Hd Hc Hsub Hcompl. unfold sel. apply NoDup_Permutation.
  - apply NoDup_filter; assumption.
  - apply NoDup_filter; assumption.
  - intros x. rewrite !filter_In. split.
    + intros [H1 H2]. split; auto.
    + intros [H1 H2]. split; auto.
Qed.

(* an index on field f used for the conjunct (f, c) of a conjunctive filter *)
Definition index_plan {I} (f : nat) (c : cond) (rest : list qfilter) (docs : list (I * doc)) : list (I * doc) :=
  sel (FAnd (FField f c :: rest)) (filter (fun x => cand_cond c (field (snd x) f)) docs).

Theorem index_transparent {I} f c rest (docs : list (I * doc)) : NoDup docs ->
  Permutation (index_plan f c rest docs) (sel (FAnd (FField f c :: rest)) docs).
Proof.
  intros Hd. unfold index_plan. apply refilter_superset; auto.
  - apply NoDup_filter; assumption.
  - intros x Hx. apply filter_In in Hx. tauto.
  - intros x Hx Hg. apply filter_In. split; auto. apply cand_complete.
    rewrite eval_and in Hg. cbn [forallb] in Hg. apply andb_prop in Hg. destruct Hg as [Hg _]. exact Hg.
Qed.

(* a conjunct found under _or must not drive the index: documents matching only another branch are lost (F34) *)
Example index_under_or_refuted :
  let docs := [(0%nat, [VInt 1; VStr [97]]); (1%nat, [VInt 2; VStr [98]])] in
  let g := FOr [FField 0 (CCmp OEq (VInt 1)); FField 1 (CCmp OEq (VStr [98]))] in
  map fst (sel g (filter (fun x => cand_cond (CCmp OEq (VInt 1)) (field (snd x) 0)) docs)) = [0%nat] /\
  map fst (sel g docs) = [0%nat; 1%nat].
Proof. vm_compute. split; reflexivity. Qed.

(* ---- unique index ---- *)
Definition ustate := list (nat * val).           (* live documents: id, indexed value *)
Definition clash (s : ustate) (id : nat) (v : val) : bool :=
  negb (is_null v) && existsb (fun e => negb (Nat.eqb (fst e) id) && veq (snd e) v) s.

Inductive uop := UPut (id : nat) (v : val) | UDel (id : nat).   (* create or update / delete *)

Definition ustep (s : ustate) (o : uop) : ustate * bool :=
  match o with
  | UPut id v => if clash s id v then (s, false)
                 else ((id, v) :: filter (fun e => negb (Nat.eqb (fst e) id)) s, true)
  | UDel id => (filter (fun e => negb (Nat.eqb (fst e) id)) s, true)
  end.

Definition unique_ok (s : ustate) : Prop :=
  forall i j v w, In (i, v) s -> In (j, w) s -> i <> j -> is_null v = false -> veq v w = false.

Lemma lz_eqb_sym a : forall b, lz_eqb a b = lz_eqb b a.
Proof. induction a as [|x a IH]; intros [|y b]; cbn; auto. rewrite Z.eqb_sym, IH. reflexivity. Qed.

Lemma veq_sym a b : veq a b = veq b a.
Proof.
  destruct a as [|x|x|x|x], b as [|y|y|y|y]; cbn; auto; try apply Z.eqb_sym; try apply lz_eqb_sym.
  destruct x, y; reflexivity.
Qed.

Lemma ustep_ok s o : unique_ok s -> unique_ok (fst (ustep s o)).
Proof.
  intros H. destruct o as [id v|id]; cbn [ustep].
  - destruct (clash s id v) eqn:E; cbn [fst]; auto.
    intros i j a b Hi Hj Hne Hn. cbn [In] in Hi, Hj.
    unfold clash in E. apply andb_false_iff in E.
    destruct Hi as [Hi|Hi], Hj as [Hj|Hj].
    + congruence.
    + inversion Hi; subst. apply filter_In in Hj. destruct Hj as [Hj Hf]. cbn in Hf.
      destruct E as [E|E]; [rewrite Hn in E; discriminate|].
      destruct (veq a b) eqn:Ev; auto.
      assert (existsb (fun e => negb (Nat.eqb (fst e) i) && veq (snd e) a) s = true).
      { apply existsb_exists. exists (j, b). split; auto. cbn. rewrite Hf. cbn. rewrite veq_sym. exact Ev. }
      congruence.
    + inversion Hj; subst. apply filter_In in Hi. destruct Hi as [Hi Hf]. cbn in Hf.
      destruct (veq a b) eqn:Ev; auto.
      destruct E as [E|E].
      * (* the new value is null: a non-null value is never equal to null *)
        destruct b; try discriminate. destruct a; cbn in *; congruence.
      * assert (existsb (fun e => negb (Nat.eqb (fst e) j) && veq (snd e) b) s = true).
        { apply existsb_exists. exists (i, a). split; auto. cbn. rewrite Hf. cbn. exact Ev. }
        congruence.
    + apply filter_In in Hi, Hj. eapply H; [exact (proj1 Hi) | exact (proj1 Hj) | |]; auto.
  - cbn [fst]. intros i j a b Hi Hj. apply filter_In in Hi, Hj. eapply H; [exact (proj1 Hi) | exact (proj1 Hj)].
Qed.

(* after any history of local writes no two live documents share a non-null indexed value *)
Theorem unique_enforced ops : unique_ok (fold_left (fun s o => fst (ustep s o)) ops []).
Proof.
  assert (G : forall s, unique_ok s -> unique_ok (fold_left (fun s o => fst (ustep s o)) ops s)).
  { induction ops as [|o l IH]; intros s H; cbn [fold_left]; auto. apply IH. apply ustep_ok. exact H. }
  apply G. intros i j v w [].
Qed.

(* and a write is rejected exactly when it would create such a pair *)
Theorem unique_rejects_exactly s id v :
  snd (ustep s (UPut id v)) = false <->
  (is_null v = false /\ exists j w, In (j, w) s /\ j <> id /\ veq w v = true).
Proof.
  cbn [ustep]. destruct (clash s id v) eqn:E; cbn [snd]; unfold clash in E.
  - split; auto. intros _. apply andb_prop in E. destruct E as [E1 E2]. apply negb_true_iff in E1.
    split; auto. apply existsb_exists in E2. destruct E2 as [[j w] [Hin Hc]]. cbn in Hc.
    apply andb_prop in Hc. destruct Hc as [Hc1 Hc2]. exists j, w. repeat split; auto.
    apply negb_true_iff in Hc1. apply Nat.eqb_neq in Hc1. exact Hc1.
  - split; [discriminate|]. intros [Hn [j [w [Hin [Hne Hv]]]]]. exfalso.
    apply andb_false_iff in E. destruct E as [E|E]; [rewrite Hn in E; discriminate|].
    assert (existsb (fun e => negb (Nat.eqb (fst e) id) && veq (snd e) v) s = true).
    { apply existsb_exists. exists (j, w). split; auto. cbn. apply Nat.eqb_neq in Hne. rewrite Hne. cbn. exact Hv. }
    congruence.
Qed.
