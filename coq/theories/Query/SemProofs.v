(* Properties of the query semantics, for all documents and all queries. *)
From Coq Require Import List ZArith Arith Bool Lia Permutation Sorted.
From Verif Require Import Bytes Sem Order.
Import ListNotations.
Local Open Scope Z_scope.

(* ---- filters ---- *)
Lemma eval_and l d : eval_filter (FAnd l) d = forallb (fun g => eval_filter g d) l.
Proof. induction l as [|g l IH]; [reflexivity|]. cbn [eval_filter forallb] in *. rewrite <- IH. reflexivity. Qed.
Lemma eval_or l d : eval_filter (FOr l) d = existsb (fun g => eval_filter g d) l.
Proof. induction l as [|g l IH]; [reflexivity|]. cbn [eval_filter existsb] in *. rewrite <- IH. reflexivity. Qed.
Lemma eval_not g d : eval_filter (FNot g) d = negb (eval_filter g d).
Proof. reflexivity. Qed.

Definition sel {I} (g : qfilter) (docs : list (I * doc)) := filter (fun x => eval_filter g (snd x)) docs.

(* a filter and its negation partition the collection *)
Theorem filter_partition {I} g (docs : list (I * doc)) :
  Permutation (sel g docs ++ sel (FNot g) docs) docs /\
  (forall x, In x (sel g docs) -> In x (sel (FNot g) docs) -> False) /\
  (length (sel g docs) + length (sel (FNot g) docs) = length docs)%nat.
Proof.
  unfold sel. split; [|split].
  - induction docs as [|x docs IH]; [constructor|]. cbn [filter]. rewrite eval_not.
    destruct (eval_filter g (snd x)); cbn [negb app].
    + constructor. exact IH.
    + apply Permutation_sym. eapply Permutation_trans; [|apply Permutation_middle]. constructor. apply Permutation_sym. exact IH.
  - intros x H1 H2. apply filter_In in H1, H2. destruct H1 as [_ H1], H2 as [_ H2]. rewrite eval_not, H1 in H2. discriminate.
  - induction docs as [|x docs IH]; [reflexivity|]. cbn [filter]. rewrite eval_not.
    destruct (eval_filter g (snd x)); cbn [negb length]; lia.
Qed.

Theorem filter_exact {I} g (docs : list (I * doc)) x :
  In x (sel g docs) <-> In x docs /\ eval_filter g (snd x) = true.
Proof. unfold sel. apply filter_In. Qed.

Theorem filter_and_intersection {I} l (docs : list (I * doc)) x :
  In x (sel (FAnd l) docs) <-> In x docs /\ forall g, In g l -> In x (sel g docs).
Proof.
  rewrite filter_exact, eval_and, forallb_forall. split.
  - intros [Hx H]. split; auto. intros g Hg. apply filter_exact. auto.
  - intros [Hx H]. split; auto. intros g Hg. specialize (H g Hg). apply filter_exact in H. exact (proj2 H).
Qed.
Theorem filter_or_union {I} l (docs : list (I * doc)) x :
  In x (sel (FOr l) docs) <-> exists g, In g l /\ In x (sel g docs).
Proof.
  rewrite filter_exact, eval_or, existsb_exists. split.
  - intros [Hx [g [Hg He]]]. exists g. split; auto. apply filter_exact. auto.
  - intros [g [Hg Hs]]. apply filter_exact in Hs. destruct Hs. split; auto. exists g. auto.
Qed.

(* ---- stable insertion sort under a total preorder ---- *)
Section Sort.
Context {A : Type} (cmp : A -> A -> comparison) (P : A -> Prop).
Definition le (x y : A) : Prop := cmp x y <> Gt.
Hypothesis cmp_antisym : forall x y, cmp y x = CompOpp (cmp x y).
Hypothesis le_trans : forall x y z, P x -> P y -> P z -> le x y -> le y z -> le x z.

Lemma insert_perm x l : Permutation (insert_by cmp x l) (x :: l).
Proof.
  induction l as [|y l IH]; [constructor; constructor|]. cbn [insert_by].
  destruct (cmp x y); try apply Permutation_refl.
  - eapply Permutation_trans; [constructor; exact IH | apply perm_swap].
  - eapply Permutation_trans; [constructor; exact IH | apply perm_swap].
Qed.

Lemma sort_perm l : forall acc, Permutation (fold_left (fun acc x => insert_by cmp x acc) l acc) (acc ++ l).
Proof.
  induction l as [|x l IH]; intros acc; cbn [fold_left]; [rewrite app_nil_r; apply Permutation_refl|].
  eapply Permutation_trans; [apply IH|].
  eapply Permutation_trans; [apply Permutation_app_tail; apply insert_perm|].
  cbn [app]. apply Permutation_middle.
Qed.

Theorem sort_by_perm l : Permutation (sort_by cmp l) l.
Proof. unfold sort_by. apply (sort_perm l []). Qed.

Lemma insert_sorted x l : P x -> Forall P l -> StronglySorted le l -> StronglySorted le (insert_by cmp x l).
Proof.
  intros Px Pl. induction 1 as [|y l Hs IH Hf]; cbn [insert_by]; [repeat constructor|].
  inversion Pl as [|? ? Py Pl']; subst.
  destruct (cmp x y) eqn:E.
  - constructor; auto. apply Forall_forall. intros z Hz.
    apply (Permutation_in _ (insert_perm x l)) in Hz. destruct Hz as [<-|Hz].
    + unfold le. rewrite cmp_antisym, E. discriminate.
    + rewrite Forall_forall in Hf. auto.
  - constructor; [constructor; auto|]. constructor.
    + unfold le. rewrite E. discriminate.
    + rewrite Forall_forall in *. intros z Hz. apply le_trans with y; auto; unfold le; rewrite E; discriminate.
  - constructor; auto. apply Forall_forall. intros z Hz.
    apply (Permutation_in _ (insert_perm x l)) in Hz. destruct Hz as [<-|Hz].
    + unfold le. rewrite cmp_antisym, E. discriminate.
    + rewrite Forall_forall in Hf. auto.
Qed.

Theorem sort_by_sorted l : Forall P l -> StronglySorted le (sort_by cmp l).
Proof.
  unfold sort_by.
  assert (G : forall l acc, Forall P l -> Forall P acc -> StronglySorted le acc ->
                StronglySorted le (fold_left (fun acc x => insert_by cmp x acc) l acc)).
  { clear l. induction l as [|x l IH]; intros acc Hl Hacc H; cbn [fold_left]; auto.
    inversion Hl; subst. apply IH; auto.
    - apply Forall_forall. intros z Hz. apply (Permutation_in _ (insert_perm x acc)) in Hz.
      destruct Hz as [<-|Hz]; auto. rewrite Forall_forall in Hacc. auto.
    - apply insert_sorted; auto. }
  intros Hl. apply G; auto. constructor.
Qed.
End Sort.

(* ---- the order comparator is a total preorder ---- *)
Lemma zcmp_antisym x y : (y ?= x) = CompOpp (x ?= y).
Proof. apply Z.compare_antisym. Qed.

Lemma vcmp_antisym a b : vcmp b a = CompOpp (vcmp a b).
Proof.
  destruct a as [|x|x|x|x], b as [|y|y|y|y]; cbn [vcmp num]; try reflexivity;
    try apply Z.compare_antisym; try apply bcmp_antisym.
  destruct x, y; reflexivity.
Qed.

Definition vle (a b : val) : Prop := vcmp a b <> Gt.

(* base.Compare is only ever applied to two values of one field: same kind, or null *)
Definition kind (v : val) : nat := match v with VNull => 0 | VBool _ => 1 | VInt _ | VFlt _ => 2 | VStr _ => 3 end%nat.
Definition compat (a b : val) : Prop := kind a = 0%nat \/ kind b = 0%nat \/ kind a = kind b.

Lemma bcmp_le_trans a b c : bcmp a b <> Gt -> bcmp b c <> Gt -> bcmp a c <> Gt.
Proof.
  intros H1 H2 H3.
  destruct (bcmp a b) eqn:E1; [apply bcmp_eq in E1; subst; contradiction | | contradiction].
  destruct (bcmp b c) eqn:E2; [apply bcmp_eq in E2; subst; congruence | | contradiction].
  rewrite (bcmp_lt_trans _ _ _ E1 E2) in H3. discriminate.
Qed.

Lemma vle_trans a b c : compat a b -> compat b c -> compat a c -> vle a b -> vle b c -> vle a c.
Proof.
  unfold vle, compat.
  assert (G1 : forall p q, (p ?= q) <> Gt -> p <= q) by (intros p q G; destruct (Z.compare_spec p q); try lia; congruence).
  destruct a as [|x|x|x|x], b as [|y|y|y|y], c as [|z|z|z|z]; cbn [vcmp num kind]; intros C1 C2 C3 H1 H2;
    try discriminate; try congruence; try lia;
    try (intros H3; apply Z.compare_gt_iff in H3; apply G1 in H1; apply G1 in H2; lia);
    try (destruct x, y, z; cbn in *; congruence).
  eapply bcmp_le_trans; eauto.
Qed.

Lemma key_cmp_antisym k a b : key_cmp k b a = CompOpp (key_cmp k a b).
Proof. unfold key_cmp. rewrite (vcmp_antisym (field a (fst k)) (field b (fst k))). destruct (snd k); [|reflexivity]. destruct (vcmp _ _); reflexivity. Qed.

(* documents typed by a schema: each field holds null or a value of the field's kind *)
Definition wt (ty : nat -> nat) (d : doc) : Prop := forall f, kind (field d f) = 0%nat \/ kind (field d f) = ty f.
Lemma wt_compat ty a b f : wt ty a -> wt ty b -> compat (field a f) (field b f).
Proof. unfold wt, compat. intros Ha Hb. destruct (Ha f), (Hb f); auto. right; right; congruence. Qed.

Lemma key_le_trans ty k a b c : wt ty a -> wt ty b -> wt ty c ->
  key_cmp k a b <> Gt -> key_cmp k b c <> Gt -> key_cmp k a c <> Gt.
Proof.
  intros Wa Wb Wc. unfold key_cmp.
  pose proof (wt_compat ty a b (fst k) Wa Wb) as Cab. pose proof (wt_compat ty b c (fst k) Wb Wc) as Cbc.
  pose proof (wt_compat ty a c (fst k) Wa Wc) as Cac.
  destruct (snd k).
  - intros H1 H2 H3.
    assert (G : forall x y, CompOpp (vcmp x y) <> Gt -> vle y x).
    { intros x y G. unfold vle. rewrite (vcmp_antisym x y). destruct (vcmp x y); cbn in *; congruence. }
    apply G in H1. apply G in H2.
    assert (Ccb : compat (field c (fst k)) (field b (fst k))) by (unfold compat in *; intuition congruence).
    assert (Cba : compat (field b (fst k)) (field a (fst k))) by (unfold compat in *; intuition congruence).
    assert (Cca : compat (field c (fst k)) (field a (fst k))) by (unfold compat in *; intuition congruence).
    pose proof (vle_trans _ _ _ Ccb Cba Cca H2 H1) as H4. unfold vle in H4.
    rewrite (vcmp_antisym (field a (fst k)) (field c (fst k))) in H4. destruct (vcmp (field a (fst k)) (field c (fst k))); cbn in *; congruence.
  - apply vle_trans; auto.
Qed.

Lemma key_eq_trans ty k a b c : wt ty a -> wt ty b -> wt ty c -> key_cmp k a b = Eq -> key_cmp k b c = key_cmp k a c.
Proof.
  intros Wa Wb Wc H. destruct (key_cmp k b c) eqn:E2, (key_cmp k a c) eqn:E3; try reflexivity; exfalso.
  all: try (assert (G1 : key_cmp k a c <> Gt) by (apply (key_le_trans ty k a b c); auto; congruence); congruence).
  all: try (assert (G2 : key_cmp k b c <> Gt) by (apply (key_le_trans ty k b a c); auto; [rewrite key_cmp_antisym, H; discriminate | congruence]); congruence).
  all: try (assert (G3 : key_cmp k c a <> Gt) by (apply (key_le_trans ty k c b a); auto; [rewrite key_cmp_antisym, E2; discriminate | rewrite key_cmp_antisym, H; discriminate]);
            rewrite key_cmp_antisym, E3 in G3; cbn in G3; congruence).
  all: try (assert (G4 : key_cmp k c b <> Gt) by (apply (key_le_trans ty k c a b); auto; [rewrite key_cmp_antisym, E3; discriminate | congruence]);
            rewrite key_cmp_antisym, E2 in G4; cbn in G4; congruence).
Qed.

Lemma lex_antisym ks a b : lex_cmp ks b a = CompOpp (lex_cmp ks a b).
Proof.
  induction ks as [|k ks IH]; [reflexivity|]. cbn [lex_cmp]. rewrite (key_cmp_antisym k a b).
  destruct (key_cmp k a b); cbn; auto.
Qed.

Lemma lex_le_trans ty ks : forall a b c, wt ty a -> wt ty b -> wt ty c ->
  lex_cmp ks a b <> Gt -> lex_cmp ks b c <> Gt -> lex_cmp ks a c <> Gt.
Proof.
  induction ks as [|k ks IH]; intros a b c Wa Wb Wc; [cbn; congruence|]. cbn [lex_cmp].
  destruct (key_cmp k a b) eqn:E1.
  - rewrite <- (key_eq_trans ty k a b c Wa Wb Wc E1). destruct (key_cmp k b c); auto. apply IH; auto.
  - intros _. destruct (key_cmp k b c) eqn:E2.
    + intros _. assert (E3 : key_cmp k a c = Lt).
      { assert (Hcb : key_cmp k c b = Eq) by (rewrite key_cmp_antisym, E2; reflexivity).
        pose proof (key_eq_trans ty k c b a Wc Wb Wa Hcb) as G. rewrite (key_cmp_antisym k a b), E1 in G. cbn in G.
        rewrite (key_cmp_antisym k a c) in G. destruct (key_cmp k a c); cbn in G; congruence. }
      rewrite E3. discriminate.
    + intros _. assert (G : key_cmp k a c <> Gt) by (apply (key_le_trans ty k a b c); auto; congruence).
      destruct (key_cmp k a c) eqn:E3; try congruence.
      exfalso. assert (Hca : key_cmp k c a = Eq) by (rewrite key_cmp_antisym, E3; reflexivity).
      pose proof (key_eq_trans ty k c a b Wc Wa Wb Hca) as G2. rewrite E1 in G2. rewrite (key_cmp_antisym k b c), E2 in G2. discriminate.
    + congruence.
  - congruence.
Qed.

(* ---- ordering: the documented semantics sorts by the first key and breaks ties by each following key ---- *)
Theorem order_doc_sorted {I} ty ks (l : list (I * doc)) : Forall (fun x => wt ty (snd x)) l ->
  StronglySorted (fun a b => lex_cmp ks (snd a) (snd b) <> Gt) (order_doc ks l) /\ Permutation (order_doc ks l) l.
Proof.
  intros Hwt. unfold order_doc. split.
  - apply (sort_by_sorted (fun a b : I * doc => lex_cmp ks (snd a) (snd b)) (fun x => wt ty (snd x))); auto.
    + intros x y. apply lex_antisym.
    + intros x y z Px Py Pz. apply (lex_le_trans ty ks); auto.
  - apply sort_by_perm.
Qed.

(* the coded ordering consults only the first key: it differs from the documented one (finding F7) *)
Example order_coded_refuted :
  let docs := [(0%nat, [VInt 1; VInt 2]); (1%nat, [VInt 1; VInt 1])] in
  map fst (order_doc [(0%nat, false); (1%nat, false)] docs) = [1%nat; 0%nat] /\
  map fst (order_coded [(0%nat, false); (1%nat, false)] docs) = [0%nat; 1%nat].
Proof. vm_compute. split; reflexivity. Qed.

(* ---- limit / offset ---- *)
Theorem slice_spec {A} (o l : nat) (xs : list A) :
  slice o l xs = match l with O => skipn o xs | _ => firstn l (skipn o xs) end.
Proof. reflexivity. Qed.

Theorem limit_is_prefix {A} (l : nat) (xs : list A) : exists rest, xs = slice 0 l xs ++ rest.
Proof. unfold slice. cbn [skipn]. destruct l; [exists []; rewrite app_nil_r; reflexivity|]. exists (skipn (S l) xs). symmetry. apply firstn_skipn. Qed.

(* ---- aggregates ---- *)
Theorem count_spec {I} g (docs : list (I * doc)) : agg_count g docs = Z.of_nat (length (sel g docs)).
Proof. reflexivity. Qed.

Theorem min_max_spec {I} g f (docs : list (I * doc)) :
  match agg_min g f docs, agg_max g f docs with
  | Some mn, Some mx => In mn (nums_of g f docs) /\ In mx (nums_of g f docs) /\ forall z, In z (nums_of g f docs) -> mn <= z <= mx
  | None, None => nums_of g f docs = []
  | _, _ => False
  end.
Proof.
  unfold agg_min, agg_max. destruct (nums_of g f docs) as [|x r]; [reflexivity|].
  assert (G : forall r x, (In (fold_right Z.min x r) (x :: r) /\ forall z, In z (x :: r) -> fold_right Z.min x r <= z) /\
                          (In (fold_right Z.max x r) (x :: r) /\ forall z, In z (x :: r) -> z <= fold_right Z.max x r)).
  { clear. induction r as [|y r IH]; intros x; cbn [fold_right].
    - repeat split; auto; try (left; reflexivity); intros z [<-|[]]; lia.
    - destruct (IH x) as [[H1 H2] [H3 H4]]. repeat split.
      + destruct (Z.min_spec y (fold_right Z.min x r)) as [[_ ->]|[_ ->]]; [right; left; reflexivity|].
        destruct H1 as [H1|H1]; [left; auto | right; right; auto].
      + intros z [<-|[<-|Hz]]; [specialize (H2 x (or_introl eq_refl)); lia | lia | specialize (H2 z (or_intror Hz)); lia].
      + destruct (Z.max_spec y (fold_right Z.max x r)) as [[_ ->]|[_ ->]]; [|right; left; reflexivity].
        destruct H3 as [H3|H3]; [left; auto | right; right; auto].
      + intros z [<-|[<-|Hz]]; [specialize (H4 x (or_introl eq_refl)); lia | lia | specialize (H4 z (or_intror Hz)); lia]. }
  destruct (G r x) as [[H1 H2] [H3 H4]]. repeat split; auto.
Qed.
