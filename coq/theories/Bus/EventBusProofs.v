From Coq Require Import List Arith Bool Lia.
From Verif Require Import EventBus.
Import ListNotations.

Lemma track_id c s : s_id (track c s) = s_id s.
Proof. destruct c as [j ns|j|n p]; cbn [track]; auto; [destruct (Nat.eqb j (s_id s))|destruct (s_open s && wants (s_names s) n)]; auto. Qed.
Lemma track_names c s : s_names (track c s) = s_names s.
Proof. destruct c as [j ns|j|n p]; cbn [track]; auto; [destruct (Nat.eqb j (s_id s))|destruct (s_open s && wants (s_names s) n)]; auto. Qed.

(* a closed subscriber never receives anything again *)
Lemma closed_stays cs : forall s, s_open s = false ->
  s_recv (fold_left (fun s c => track c s) cs s) = s_recv s /\ s_open (fold_left (fun s c => track c s) cs s) = false.
Proof.
  induction cs as [|c cs IH]; intros s Hc; cbn [fold_left]; [auto|].
  assert (Ht : s_recv (track c s) = s_recv s /\ s_open (track c s) = false).
  { destruct c as [j ns|j|n p]; cbn [track]; auto.
    - destruct (Nat.eqb j (s_id s)); auto.
    - rewrite Hc; cbn [andb]; auto. }
  destruct Ht as [Hr Ho]. destruct (IH _ Ho) as [H1 H2]. rewrite H1, Hr; auto.
Qed.

(* one open subscriber followed through any command sequence receives exactly what it is due *)
Lemma track_due cs : forall s, s_open s = true ->
  s_recv (fold_left (fun s c => track c s) cs s) = s_recv s ++ due (s_id s) (s_names s) cs.
Proof.
  induction cs as [|c cs IH]; intros s Ho; cbn [fold_left due]; [now rewrite app_nil_r|].
  destruct c as [j ns|j|n p].
  - cbn [track]. apply IH; auto.
  - cbn [track]. destruct (Nat.eqb j (s_id s)) eqn:E.
    + rewrite app_nil_r. apply (closed_stays cs {| s_id := s_id s; s_names := s_names s; s_recv := s_recv s; s_open := false |}); auto.
    + apply IH; auto.
  - cbn [track]. rewrite Ho; cbn [andb]. destruct (wants (s_names s) n) eqn:W.
    + rewrite IH by auto. cbn [s_recv s_id s_names]. now rewrite <- app_assoc.
    + apply IH; auto.
Qed.

(* the bus state is the pointwise tracking of each subscriber: subscribers do not influence each other *)
Lemma has_id_map c st i : has_id i (map (track c) st) = has_id i st.
Proof. unfold has_id. induction st as [|s st IH]; cbn [map existsb]; [auto|]. now rewrite track_id, IH. Qed.

Lemma find_map_track c st i :
  find (fun s => Nat.eqb i (s_id s)) (map (track c) st) = option_map (track c) (find (fun s => Nat.eqb i (s_id s)) st).
Proof. induction st as [|s st IH]; cbn [map find option_map]; [auto|]. rewrite track_id. destruct (Nat.eqb i (s_id s)); auto. Qed.

Lemma find_has i st : has_id i st = match find (fun s => Nat.eqb i (s_id s)) st with Some _ => true | None => false end.
Proof. unfold has_id. induction st as [|s st IH]; cbn [existsb find]; [auto|]. destruct (Nat.eqb i (s_id s)); auto. Qed.

Lemma find_app_none {A} (f : A -> bool) l x : find f l = None -> find f (l ++ [x]) = if f x then Some x else None.
Proof. induction l as [|a l IH]; cbn [app find]; [auto|]. destruct (f a); [discriminate|auto]. Qed.
Lemma find_app_some {A} (f : A -> bool) l x y : find f l = Some y -> find f (l ++ [x]) = Some y.
Proof. induction l as [|a l IH]; cbn [app find]; [discriminate|]. destruct (f a); auto. Qed.

Lemma step_find_present c st i s : find (fun s => Nat.eqb i (s_id s)) st = Some s ->
  find (fun s => Nat.eqb i (s_id s)) (step st c) = Some (track c s).
Proof.
  intros H. unfold step.
  assert (Hm : find (fun s => Nat.eqb i (s_id s)) (map (track c) st) = Some (track c s)) by (rewrite find_map_track, H; auto).
  destruct c as [j ns|j|n p]; auto.
  destruct (has_id j st); auto. now apply find_app_some.
Qed.

Lemma run_from cs : forall st i s, find (fun s => Nat.eqb i (s_id s)) st = Some s ->
  find (fun s => Nat.eqb i (s_id s)) (fold_left step cs st) = Some (fold_left (fun s c => track c s) cs s).
Proof.
  induction cs as [|c cs IH]; intros st i s H; cbn [fold_left]; [auto|].
  apply IH. now apply step_find_present.
Qed.

Lemma find_id {i st s} : find (fun s => Nat.eqb i (s_id s)) st = Some s -> s_id s = i.
Proof. intros H. apply find_some in H. destruct H as [_ H]. apply Nat.eqb_eq in H. auto. Qed.

(* main theorem: from a state in which i is unknown, the sequence cs leaves i with exactly due_from i cs *)
Lemma run_due cs : forall st i, find (fun s => Nat.eqb i (s_id s)) st = None ->
  received i (fold_left step cs st) = due_from i cs.
Proof.
  induction cs as [|c cs IH]; intros st i Hn; cbn [fold_left due_from].
  - unfold received. now rewrite Hn.
  - destruct c as [j ns|j|n p].
    + destruct (Nat.eqb j i) eqn:E.
      * apply Nat.eqb_eq in E; subst j.
        assert (Hs : find (fun s => Nat.eqb i (s_id s)) (step st (CSub i ns)) =
                     Some {| s_id := i; s_names := ns; s_recv := []; s_open := true |}).
        { unfold step. rewrite find_has, Hn.
          rewrite find_app_none by (rewrite find_map_track, Hn; auto).
          cbn [s_id]. now rewrite Nat.eqb_refl. }
        unfold received. rewrite (run_from cs _ _ _ Hs). rewrite track_due by auto. auto.
      * apply IH. unfold step. destruct (has_id j st).
        -- rewrite find_map_track, Hn; auto.
        -- rewrite find_app_none by (rewrite find_map_track, Hn; auto). cbn [s_id]. rewrite Nat.eqb_sym, E. auto.
    + apply IH. unfold step. rewrite find_map_track, Hn; auto.
    + apply IH. unfold step. rewrite find_map_track, Hn; auto.
Qed.

Theorem bus_delivery : forall cs i, received i (run cs) = due_from i cs.
Proof. intros. unfold run. apply run_due. auto. Qed.

(* consequences spelt out: due is a subsequence (order kept, nothing duplicated) of the published messages *)
Fixpoint published (cs : list cmd) : list msg :=
  match cs with [] => [] | CPub n p :: r => (n, p) :: published r | _ :: r => published r end.

Inductive subseq {A} : list A -> list A -> Prop :=
| ss_nil : subseq [] []
| ss_skip x l m : subseq l m -> subseq l (x :: m)
| ss_take x l m : subseq l m -> subseq (x :: l) (x :: m).

Lemma subseq_nil {A} (m : list A) : subseq [] m.
Proof. induction m; constructor; auto. Qed.

Lemma due_subseq i names cs : subseq (due i names cs) (published cs).
Proof.
  induction cs as [|c cs IH]; cbn [due published]; [constructor|].
  destruct c as [j ns|j|n p]; auto.
  - destruct (Nat.eqb j i); auto. apply subseq_nil.
  - destruct (wants names n); [apply ss_take|apply ss_skip]; auto.
Qed.

Lemma due_from_subseq i cs : subseq (due_from i cs) (published cs).
Proof.
  induction cs as [|c cs IH]; cbn [due_from published]; [constructor|].
  destruct c as [j ns|j|n p]; auto.
  - destruct (Nat.eqb j i); auto. apply due_subseq.
  - apply ss_skip; auto.
Qed.

Theorem delivery_in_publish_order : forall cs i, subseq (received i (run cs)) (published cs).
Proof. intros. rewrite bus_delivery. apply due_from_subseq. Qed.

(* nothing of another name, nothing lost while subscribed: between subscribe and unsubscribe (no Unsub i in cs) *)
Fixpoint no_unsub (i : nat) (cs : list cmd) : bool :=
  match cs with [] => true | CUnsub j :: r => negb (Nat.eqb j i) && no_unsub i r | _ :: r => no_unsub i r end.

Lemma due_complete i names cs : no_unsub i cs = true ->
  due i names cs = filter (fun m => wants names (fst m)) (published cs).
Proof.
  induction cs as [|c cs IH]; cbn [due published no_unsub filter]; [auto|].
  destruct c as [j ns|j|n p]; auto.
  - intros H. apply andb_prop in H. destruct H as [H1 H2]. destruct (Nat.eqb j i); [discriminate|auto].
  - intros H. cbn [filter fst]. destruct (wants names n); [f_equal|]; auto.
Qed.

Theorem exactly_the_subscribed_names : forall pre i names cs,
  has_id i (run pre) = false -> no_unsub i cs = true ->
  received i (run (pre ++ CSub i names :: cs)) = filter (fun m => wants names (fst m)) (published cs).
Proof.
  intros pre i names cs Hn Hu. rewrite bus_delivery.
  assert (Hd : forall pre, (forall ns, ~ In (CSub i ns) pre) -> due_from i (pre ++ CSub i names :: cs) = due i names cs).
  { clear. induction pre as [|c pre IH]; intros H; cbn [app due_from].
    - now rewrite Nat.eqb_refl.
    - destruct c as [j ns|j|n p]; try (apply IH; intros ns' Hi; apply (H ns'); right; auto).
      destruct (Nat.eqb j i) eqn:E.
      + apply Nat.eqb_eq in E; subst. exfalso. apply (H ns). left; auto.
      + apply IH. intros ns' Hi. apply (H ns'); right; auto. }
  rewrite Hd; [now apply due_complete|].
  (* i was never subscribed in pre, because it is unknown after pre *)
  intros ns Hin.
  assert (Hk : forall cs st, (has_id i st = true \/ In (CSub i ns) cs) -> has_id i (fold_left step cs st) = true).
  { clear. induction cs as [|c cs IH]; intros st [H|H]; cbn [fold_left]; auto; try (now destruct H).
    - apply IH. left. unfold step. destruct c as [j ms|j|n p]; try now rewrite has_id_map.
      destruct (has_id j st); [now rewrite has_id_map|]. unfold has_id. rewrite existsb_app. fold (has_id i (map (track (CSub j ms)) st)).
      now rewrite has_id_map, H.
    - destruct H as [H|H].
      + subst c. apply IH. left. unfold step. destruct (has_id i st) eqn:E; [now rewrite has_id_map|].
        unfold has_id. rewrite existsb_app. cbn [existsb s_id]. rewrite Nat.eqb_refl. apply orb_true_iff. right; auto.
      + apply IH. right; auto. }
  unfold run in Hn. rewrite (Hk pre [] (or_intror Hin)) in Hn. discriminate.
Qed.
