(* Model of event/channel_bus.go: one command queue processed in FIFO order by handleChannel; every subscriber owns
   a FIFO channel.  Names are numbers, 0 is the wildcard.  The model keeps the subscriber table; the events map of
   the implementation (name -> set of ids) is the inverse image of the table (id in events[n] <-> n in names of id),
   an invariant of subscribe / unsubscribe that the correspondence check exercises. *)
From Coq Require Import List Arith Bool Lia.
Import ListNotations.

Definition msg := (nat * nat)%type.            (* name, payload *)
Inductive cmd := CSub (id : nat) (names : list nat) | CUnsub (id : nat) | CPub (name payload : nat).

Record sub := { s_id : nat; s_names : list nat; s_recv : list msg; s_open : bool }.

Definition mem (n : nat) (l : list nat) : bool := existsb (Nat.eqb n) l.
Definition wants (names : list nat) (n : nat) : bool := mem 0 names || mem n names.

(* the effect of one command on one existing subscriber *)
Definition track (c : cmd) (s : sub) : sub :=
  match c with
  | CSub _ _ => s
  | CUnsub i => if Nat.eqb i (s_id s) then {| s_id := s_id s; s_names := s_names s; s_recv := s_recv s; s_open := false |} else s
  | CPub n p => if s_open s && wants (s_names s) n
                then {| s_id := s_id s; s_names := s_names s; s_recv := s_recv s ++ [(n, p)]; s_open := s_open s |} else s
  end.

Definition has_id (i : nat) (st : list sub) : bool := existsb (fun s => Nat.eqb i (s_id s)) st.

Definition step (st : list sub) (c : cmd) : list sub :=
  let st' := map (track c) st in
  match c with
  | CSub i names => if has_id i st then st' else st' ++ [{| s_id := i; s_names := names; s_recv := []; s_open := true |}]
  | _ => st'
  end.

Definition run (cs : list cmd) : list sub := fold_left step cs [].

Definition received (i : nat) (st : list sub) : list msg :=
  match find (fun s => Nat.eqb i (s_id s)) st with Some s => s_recv s | None => [] end.

(* Specification: what subscriber [i] with [names] is due from the commands following its subscription: every
   published message with a name it asked for (or any, when it asked for the wildcard), once, in publish order, up to
   its unsubscription. *)
Fixpoint due (i : nat) (names : list nat) (cs : list cmd) : list msg :=
  match cs with
  | [] => []
  | CUnsub j :: r => if Nat.eqb j i then [] else due i names r
  | CPub n p :: r => if wants names n then (n, p) :: due i names r else due i names r
  | CSub _ _ :: r => due i names r
  end.

(* what the whole command sequence owes subscriber i: nothing before its (first) subscription *)
Fixpoint due_from (i : nat) (cs : list cmd) : list msg :=
  match cs with
  | [] => []
  | CSub j names :: r => if Nat.eqb j i then due i names r else due_from i r
  | _ :: r => due_from i r
  end.
