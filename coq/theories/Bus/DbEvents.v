(* Database level of C20: a history is a sequence of API calls (Kv/Txn.v: implicit transaction, commit on the success
   path, callbacks after a successful commit); each call publishes its events on the bus when it completes.  What a
   subscriber present from the start receives is therefore the concatenation, in completion order, of the events of
   the committed calls, and nothing for the failed ones. *)
From Coq Require Import List ZArith Arith Bool.
From Verif Require Import Txn EventBus EventBusProofs.
Import ListNotations.

Definition acall := (prog * nat * sched)%type.

Fixpoint exec (cs : list acall) (s : store) : store * list (bool * list Z) :=
  match cs with
  | [] => (s, [])
  | (p, fuel, sc) :: r =>
      let '(ok, s', evs) := call p fuel sc s in
      let '(sf, log) := exec r s' in (sf, (ok, evs) :: log)
  end.

Definition announced (log : list (bool * list Z)) : list Z := concat (map snd log).
Definition committed_events (log : list (bool * list Z)) : list Z :=
  concat (map snd (filter fst log)).

Lemma exec_failed_silent cs : forall s, Forall (fun r => fst r = false -> snd r = []) (snd (exec cs s)).
Proof.
  induction cs as [|[[p fuel] sc] cs IH]; intros s; cbn [exec]; [constructor|].
  pose proof (events_iff_commit p fuel sc s) as H.
  destruct (call p fuel sc s) as [[ok s'] evs].
  specialize (IH s'). destruct (exec cs s') as [sf log]. cbn [snd] in *.
  constructor; auto. cbn [fst snd]. intros E. destruct (H E); auto.
Qed.

Lemma announced_committed log : Forall (fun r => fst r = false -> snd r = []) log ->
  announced log = committed_events log.
Proof.
  unfold announced, committed_events.
  induction 1 as [|[ok evs] log H _ IH]; cbn [map filter concat fst snd]; [auto|].
  destruct ok; cbn [map concat snd fst] in *; [now rewrite IH|]. rewrite (H eq_refl). auto.
Qed.

Theorem only_committed_announced : forall cs s,
  announced (snd (exec cs s)) = committed_events (snd (exec cs s)).
Proof. intros. apply announced_committed, exec_failed_silent. Qed.

(* the bus carries them to a subscriber of the update name (1) unchanged and in order *)
Definition pubs (evs : list Z) : list cmd := map (fun e => CPub 1 (Z.to_nat e)) evs.

Lemma due_pubs i names evs : wants names 1 = true ->
  due i names (pubs evs) = map (fun e => (1, Z.to_nat e)) evs.
Proof. intros W. induction evs as [|e evs IH]; cbn [pubs map due]; [auto|]. rewrite W. f_equal. apply IH. Qed.

Theorem subscriber_sees_committed_in_order : forall cs s i names, wants names 1 = true ->
  received i (EventBus.run (CSub i names :: pubs (announced (snd (exec cs s))))) =
  map (fun e => (1, Z.to_nat e)) (committed_events (snd (exec cs s))).
Proof.
  intros cs s i names W. rewrite bus_delivery. cbn [due_from]. rewrite Nat.eqb_refl.
  rewrite due_pubs by auto. now rewrite only_committed_announced.
Qed.
