From Coq Require Import List ZArith Arith Bool Lia Permutation.
From Verif Require Import Model Order Evolve.
Import ListNotations.

(* ---- schema operations never touch the data ---- *)
Lemma schema_op_keeps_log n fs sa : log (step n (Patch fs sa)) = log n.
Proof. reflexivity. Qed.
Lemma activate_keeps_log n i : log (step n (Activate i)) = log n.
Proof. reflexivity. Qed.

Definition is_schema_op (o : op) : bool := match o with Apply _ => false | _ => true end.

Theorem schema_ops_preserve_data : forall os n, forallb is_schema_op os = true ->
  log (run n os) = log n /\ forall d f, read (log (run n os)) d f = read (log n) d f.
Proof.
  induction os as [|o os IH]; intros n H; cbn [run fold_left]; [auto|].
  cbn [forallb] in H. apply andb_prop in H. destruct H as [Ho Hos].
  destruct (IH (step n o) Hos) as [E _]. unfold run in E.
  assert (El : log (step n o) = log n) by (destruct o; [reflexivity|reflexivity|discriminate]).
  split; [now rewrite E, El|]. intros d f. unfold run in *. now rewrite E, El.
Qed.

(* a field that stays in the active version reads the same before and after any sequence of patches / switches *)
Theorem view_stable_under_schema_ops : forall os n d f v, forallb is_schema_op os = true ->
  view n d f = Some v -> memb f (active_fields (run n os)) = true -> view (run n os) d f = Some v.
Proof.
  intros os n d f v H Hv Hm. unfold view in *. rewrite Hm.
  destruct (memb f (active_fields n)); [|discriminate]. inversion Hv; subst.
  destruct (schema_ops_preserve_data os n H) as [_ E]. now rewrite E.
Qed.

(* ---- the log only mentions known fields; a freshly added field reads null everywhere ---- *)
Definition log_known (n : node) : Prop := forall w, In w (log n) -> memb (w_fld w) (newest n) = true.

Lemma memb_app f a b : memb f (a ++ b) = memb f a || memb f b.
Proof. unfold memb. now rewrite existsb_app. Qed.

Lemma newest_patch n fs sa : newest (step n (Patch fs sa)) = newest n ++ (active_fields n ++ fs).
Proof. unfold newest. cbn [step versions]. rewrite concat_app. cbn [concat]. now rewrite app_nil_r. Qed.

Lemma active_sub_known n f : memb f (active_fields n) = true -> memb f (newest n) = true.
Proof.
  unfold active_fields, newest. generalize (active n). induction (versions n) as [|v vs IH]; intros i H.
  - destruct i; cbn in H; discriminate.
  - cbn [concat]. rewrite memb_app. destruct i as [|i]; cbn [nth] in H; [now rewrite H|].
    rewrite (IH i H). now rewrite orb_true_r.
Qed.

Lemma log_known_step n o : log_known n -> log_known (step n o).
Proof.
  intros H. destruct o as [fs sa|i|w].
  - intros w Hin. rewrite newest_patch, memb_app. cbn [step log] in Hin. now rewrite (H w Hin).
  - intros w Hin. apply (H w Hin).
  - cbn [step]. destruct (memb (w_fld w) (active_fields n)) eqn:E; [|exact H].
    intros w' Hin. cbn [log] in Hin. apply in_app_or in Hin.
    destruct Hin as [Hin|[<-|[]]]; [apply (H w' Hin)|now apply active_sub_known].
Qed.

Lemma log_known_run os : forall n, log_known n -> log_known (run n os).
Proof. induction os as [|o os IH]; intros n H; cbn [run fold_left]; auto. apply IH. now apply log_known_step. Qed.

Lemma fold_no_hit ws d f : forall a, (forall w, In w ws -> hits d f w = false) ->
  fold_left (fun acc w => if hits d f w then rmax acc (w_val w) else acc) ws a = a.
Proof.
  induction ws as [|w ws IH]; intros a H; cbn [fold_left]; auto.
  rewrite (H w (or_introl eq_refl)). apply IH. intros w' Hin. apply H. right. exact Hin.
Qed.
Lemma read_no_hit ws d f : (forall w, In w ws -> hits d f w = false) -> read ws d f = rnull.
Proof. intros H. unfold read. now apply fold_no_hit. Qed.
Theorem added_field_reads_null : forall n fs sa d f, log_known n ->
  memb f (newest n) = false -> In f fs -> read (log (step n (Patch fs sa))) d f = rnull.
Proof.
  intros n fs sa d f Hk Hnew Hin. cbn [step log]. apply read_no_hit. intros w Hw.
  unfold hits. destruct (Nat.eqb (w_fld w) f) eqn:E; [|now rewrite andb_false_r].
  apply Nat.eqb_eq in E. subst f. rewrite (Hk w Hw) in Hnew. discriminate.
Qed.

(* ---- nodes at different versions agree on every field both know ---- *)
Lemma fold_perm_w ws1 ws2 d f : Permutation ws1 ws2 -> forall a,
  fold_left (fun acc w => if hits d f w then rmax acc (w_val w) else acc) ws1 a =
  fold_left (fun acc w => if hits d f w then rmax acc (w_val w) else acc) ws2 a.
Proof.
  induction 1 as [|x l l' Hp IH|x y l|l l' l'' H1 IH1 H2 IH2]; intros a; cbn [fold_left]; auto.
  - destruct (hits d f x), (hits d f y); auto. now rewrite rmax_comm3.
  - now rewrite IH1.
Qed.
Lemma read_perm ws1 ws2 d f : Permutation ws1 ws2 -> read ws1 d f = read ws2 d f.
Proof. intros H. unfold read. now apply fold_perm_w. Qed.

Lemma fold_filter_w (p : write -> bool) ws d f : (forall w, hits d f w = true -> p w = true) -> forall a,
  fold_left (fun acc w => if hits d f w then rmax acc (w_val w) else acc) (filter p ws) a =
  fold_left (fun acc w => if hits d f w then rmax acc (w_val w) else acc) ws a.
Proof.
  intros H. induction ws as [|w ws IH]; intros a; cbn [filter fold_left]; auto.
  destruct (p w) eqn:E; cbn [fold_left]; [apply IH|].
  destruct (hits d f w) eqn:Eh; [rewrite (H w Eh) in E; discriminate|apply IH].
Qed.
Lemma read_filter (p : write -> bool) ws d f : (forall w, hits d f w = true -> p w = true) ->
  read (filter p ws) d f = read ws d f.
Proof. intros H. unfold read. now apply fold_filter_w. Qed.

(* applying a list of offered writes to a node whose schema does not change: the log grows by the known ones *)
Lemma apply_all_log ws : forall n,
  log (run n (map Apply ws)) = log n ++ filter (fun w => memb (w_fld w) (active_fields n)) ws /\
  versions (run n (map Apply ws)) = versions n /\ active (run n (map Apply ws)) = active n.
Proof.
  induction ws as [|w ws IH]; intros n; cbn [map run fold_left filter]; [now rewrite app_nil_r|].
  fold (run (step n (Apply w)) (map Apply ws)).
  destruct (IH (step n (Apply w))) as [E1 [E2 E3]]. rewrite E1, E2, E3. cbn [step].
  destruct (memb (w_fld w) (active_fields n)) eqn:E; cbn [log versions active].
  - unfold active_fields at 1. cbn [versions active]. fold (active_fields n). rewrite <- app_assoc. auto.
  - auto.
Qed.

Theorem common_fields_agree : forall n1 n2 ws1 ws2 d f,
  log n1 = [] -> log n2 = [] -> Permutation ws1 ws2 ->
  memb f (active_fields n1) = true -> memb f (active_fields n2) = true ->
  read (log (run n1 (map Apply ws1))) d f = read (log (run n2 (map Apply ws2))) d f.
Proof.
  intros n1 n2 ws1 ws2 d f L1 L2 Hp K1 K2.
  destruct (apply_all_log ws1 n1) as [E1 _]. destruct (apply_all_log ws2 n2) as [E2 _].
  rewrite E1, E2, L1, L2. cbn [app].
  rewrite !read_filter.
  - now apply read_perm.
  - intros w Hh. unfold hits in Hh. apply andb_prop in Hh. destruct Hh as [_ Hf]. apply Nat.eqb_eq in Hf. now rewrite Hf.
  - intros w Hh. unfold hits in Hh. apply andb_prop in Hh. destruct Hh as [_ Hf]. apply Nat.eqb_eq in Hf. now rewrite Hf.
Qed.

(* The hypothesis "f is in the ACTIVE version while the writes arrive" cannot be weakened to "some local version knows
   f": a node that knows field 2 through an inactive version ignores a write to it, and still reads null after
   switching to that version, while the writer reads the value. *)
Lemma inactive_field_write_lost :
  let n := {| versions := [[0; 1]; [0; 1; 2]]; active := 0; log := [] |} in
  let w := {| w_doc := 0; w_fld := 2; w_val := (1, [7%Z]) |} in
  let writer := {| versions := [[0; 1]; [0; 1; 2]]; active := 1; log := [] |} in
  view (run n [Apply w; Activate 1]) 0 2 = Some rnull /\ view (run writer [Apply w]) 0 2 = Some (1, [7%Z]).
Proof. vm_compute. auto. Qed.
