(* Schema evolution (internal/db/schema.go: patchSchema; collection_define.go: setActiveSchemaVersion; merge.go:
   initCRDTForType ignores fields unknown to the local version).
   A node keeps the list of schema versions (each the list of its field ids; a patch appends fields to the active one),
   the index of the active version and the log of field writes it has applied.  A field value is an LWW register read
   as the maximum (priority, value) of the applied writes (Crdt/Order.v: rmax); no write = null. *)
From Coq Require Import List ZArith Arith Bool Lia Permutation.
From Verif Require Import Model Order.
Import ListNotations.

Definition rval := (nat * list Z)%type.
Definition rnull : rval := (0, []).
Record write := { w_doc : nat; w_fld : nat; w_val : rval }.

Definition hits (d f : nat) (w : write) : bool := Nat.eqb (w_doc w) d && Nat.eqb (w_fld w) f.
Definition read (ws : list write) (d f : nat) : rval :=
  fold_left (fun acc w => if hits d f w then rmax acc (w_val w) else acc) ws rnull.

Record node := { versions : list (list nat); active : nat; log : list write }.

Definition memb (f : nat) (l : list nat) : bool := existsb (Nat.eqb f) l.
Definition active_fields (n : node) : list nat := nth (active n) (versions n) [].
(* the fields some local version knows *)
Definition newest (n : node) : list nat := concat (versions n).

Inductive op :=
| Patch (fs : list nat) (set_active : bool)        (* add fields: new version = active version ++ fs *)
| Activate (i : nat)
| Apply (w : write).                               (* local write or merged remote write *)

Definition step (n : node) (o : op) : node :=
  match o with
  | Patch fs sa =>
      {| versions := versions n ++ [active_fields n ++ fs];
         active := if sa then length (versions n) else active n;
         log := log n |}
  | Activate i => {| versions := versions n; active := if Nat.ltb i (length (versions n)) then i else active n; log := log n |}
  | Apply w =>
      (* a write to a field the ACTIVE version does not have is ignored (merge: initCRDTForType looks the field up in
         the active collection version) / impossible (local write) *)
      if memb (w_fld w) (active_fields n) then {| versions := versions n; active := active n; log := log n ++ [w] |} else n
  end.

Definition run (n : node) (os : list op) : node := fold_left step os n.

(* what a query under the active version shows: None = the field is not part of the active version *)
Definition view (n : node) (d f : nat) : option rval :=
  if memb f (active_fields n) then Some (read (log n) d f) else None.
