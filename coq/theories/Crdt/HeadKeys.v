(* Head-store keys (internal/keys/headstore_doc.go, internal/core/block/heads.go): the heads of field f of document d
   are the keys /d/<d>/<f>/<cid>; the head set of a field is listed by a key prefix. Identifiers are byte strings
   without the separator. Listing by the prefix that ends with the separator returns exactly the keys of that field;
   listing by the bare field identifier (the pinned code) also returns the keys of every field whose identifier starts
   with the same bytes. *)
From Coq Require Import List ZArith Bool Lia.
From Verif Require Import Bytes Sem.
Import ListNotations.
Open Scope Z_scope.

Definition sep : Z := 47.                                   (* '/' *)
Definition head_key (doc field c : list Z) : list Z := doc ++ sep :: field ++ sep :: c.
Definition list_prefix (doc field : list Z) : list Z := doc ++ sep :: field ++ [sep].
Definition bare_prefix (doc field : list Z) : list Z := doc ++ sep :: field.

Lemma is_prefix_same_head p : forall a b, is_prefix (p ++ a) (p ++ b) = is_prefix a b.
Proof. induction p as [|x p IH]; intros a b; cbn [app is_prefix]; auto. now rewrite Z.eqb_refl, IH. Qed.

Lemma field_prefix_exact f : forall f' c, ~ In sep f -> ~ In sep f' ->
  (is_prefix (f ++ [sep]) (f' ++ sep :: c) = true <-> f = f').
Proof.
  induction f as [|x f IH]; intros f' c Hf Hf'.
  - destruct f' as [|y f']; cbn [app is_prefix].
    + rewrite Z.eqb_refl. cbn. tauto.
    + split; [|discriminate]. intros H. exfalso. apply Hf'. left.
      apply andb_true_iff in H. destruct H as [H _]. apply Z.eqb_eq in H. auto.
  - destruct f' as [|y f']; cbn [app is_prefix].
    + split; [|discriminate]. intros H. exfalso. apply Hf. left.
      apply andb_true_iff in H. destruct H as [H _]. apply Z.eqb_eq in H. auto.
    + destruct (Z.eqb_spec x y) as [->|Hne]; cbn [andb].
      * rewrite (IH f' c); [|intros H; apply Hf; right; exact H|intros H; apply Hf'; right; exact H].
        split; [intros ->; reflexivity | intros E; inversion E; reflexivity].
      * split; [discriminate | intros E; inversion E; contradiction].
Qed.

(* listing with the closing separator: exactly the keys of that document and field *)
Theorem listing_exact doc f f' c : ~ In sep f -> ~ In sep f' ->
  (is_prefix (list_prefix doc f) (head_key doc f' c) = true <-> f = f').
Proof.
  intros Hf Hf'. unfold list_prefix, head_key.
  rewrite is_prefix_same_head. cbn [is_prefix]. rewrite Z.eqb_refl. cbn [andb].
  apply field_prefix_exact; assumption.
Qed.

(* listing by the bare identifier: field "2" also gets the heads of field "24" *)
Example bare_listing_refuted :
  let doc := [100; 49] in let c := [99] in
  is_prefix (bare_prefix doc [50]) (head_key doc [50; 52] c) = true /\
  is_prefix (list_prefix doc [50]) (head_key doc [50; 52] c) = false.
Proof. vm_compute. split; reflexivity. Qed.
