(* What the value state of a replica is, as a function of the merged commits:
   counters are sums, the delete marker is a disjunction, registers are lexicographic maxima. *)
From Coq Require Import List ZArith Arith Bool Lia Permutation.
From Verif Require Import GoSem Bytes Model Sweep Order Conv.
Import ListNotations.
Local Open Scope nat_scope.

Section Exact.
Variable u : universe.

Definition ctr_of (f : Z) (c : nat) : Z :=
  match b_delta (getb u c) with
  | DCtr x => if Z.eqb (b_field (getb u c)) f then x else 0%Z
  | _ => 0%Z
  end.
Definition sum_ctr (f : Z) (l : list nat) : Z := fold_right (fun c acc => (ctr_of f c + acc)%Z) 0%Z l.

Lemma get_ctr_block f vs c :
  get_ctr f (v_ctrs (apply_block u vs c)) = (get_ctr f (v_ctrs vs) + ctr_of f c)%Z.
Proof.
  unfold apply_block, ctr_of. rewrite ctr_char.
  destruct (b_delta (getb u c)) as [[|]|v|x|]; try lia.
  destruct (Z.eqb_spec (b_field (getb u c)) f); [subst; reflexivity | lia].
Qed.

Lemma get_ctr_fold f l : forall vs,
  get_ctr f (v_ctrs (fold_left (apply_block u) l vs)) = (get_ctr f (v_ctrs vs) + sum_ctr f l)%Z.
Proof.
  induction l as [|c l IH]; intros vs; cbn [fold_left sum_ctr fold_right]; [lia|].
  rewrite IH, get_ctr_block. unfold sum_ctr. lia.
Qed.

Definition is_delete (c : nat) : bool :=
  match b_delta (getb u c) with DStatus true => true | _ => false end.

Lemma marker_block vs c :
  v_marker (apply_block u vs c) = Some true <-> (v_marker vs = Some true \/ is_delete c = true).
Proof.
  unfold apply_block, is_delete. rewrite marker_char.
  destruct (b_delta (getb u c)) as [[|]|v|x|]; cbn [mfun]; destruct (v_marker vs) as [[|]|];
    split; intros H; try (destruct H as [H|H]); auto; try discriminate.
Qed.

Lemma marker_fold l : forall vs,
  v_marker (fold_left (apply_block u) l vs) = Some true <-> (v_marker vs = Some true \/ existsb is_delete l = true).
Proof.
  induction l as [|c l IH]; intros vs; cbn [fold_left existsb].
  - split; [auto | intros [H|H]; [auto|discriminate]].
  - rewrite IH, marker_block, orb_true_iff. tauto.
Qed.

(* registers *)
Definition rle (a b : nat * list Z) : Prop := ~ rlt b a.
Lemma rle_refl a : rle a a. Proof. apply rlt_irrefl. Qed.
Lemma rle_trans a b c : rle a b -> rle b c -> rle a c.
Proof.
  unfold rle. intros H1 H2 H3.
  destruct (rlt_total a b) as [H|[->|H]]; auto.
  - apply H2. eapply rlt_trans; eauto.
Qed.
Lemma rmax_ge_l a b : rle a (rmax a b).
Proof. destruct (rmax_cases a b) as [[H E]|[H E]]; rewrite E; unfold rle; [|apply rlt_irrefl].
  intros H'. eapply rlt_irrefl. eapply rlt_trans; eauto. Qed.
Lemma rmax_ge_r a b : rle b (rmax a b).
Proof. destruct (rmax_cases a b) as [[H E]|[H E]]; rewrite E; unfold rle; [apply rlt_irrefl|]. exact H. Qed.

Definition reg_of (f : Z) (c : nat) : option (nat * list Z) :=
  match b_delta (getb u c) with
  | DReg v => if Z.eqb (b_field (getb u c)) f then Some (b_height (getb u c), v) else None
  | _ => None
  end.

Lemma get_reg_block f vs c :
  get_reg f (v_regs (apply_block u vs c)) =
  match reg_of f c with Some r => rmax (get_reg f (v_regs vs)) r | None => get_reg f (v_regs vs) end.
Proof.
  unfold apply_block, reg_of. rewrite reg_char.
  destruct (b_delta (getb u c)) as [[|]|v|x|]; try reflexivity.
  destruct (Z.eqb_spec (b_field (getb u c)) f); [subst; reflexivity | reflexivity].
Qed.

(* the final register dominates the initial one and every merged write, and is one of them *)
Lemma get_reg_fold f l : forall vs,
  let r := get_reg f (v_regs (fold_left (apply_block u) l vs)) in
  rle (get_reg f (v_regs vs)) r /\
  (forall c w, In c l -> reg_of f c = Some w -> rle w r) /\
  (r = get_reg f (v_regs vs) \/ exists c, In c l /\ reg_of f c = Some r).
Proof.
  induction l as [|c l IH]; intros vs; cbn [fold_left].
  - cbn. repeat split; auto using rle_refl. intros c w [].
  - destruct (IH (apply_block u vs c)) as (H1 & H2 & H3). cbn zeta in *.
    rewrite get_reg_block in H1, H3.
    split; [|split].
    + destruct (reg_of f c) as [w|]; auto. eapply rle_trans; [apply rmax_ge_l | exact H1].
    + intros c' w [<-|Hin] Hw; [|eapply H2; eauto].
      rewrite Hw in H1. eapply rle_trans; [apply rmax_ge_r | exact H1].
    + destruct H3 as [H3|[c' [Hin Hc']]]; [|right; exists c'; split; [right; auto|auto]].
      destruct (reg_of f c) as [w|] eqn:Ew; auto.
      destruct (rmax_cases (get_reg f (v_regs vs)) w) as [[_ E]|[_ E]]; rewrite E in H3; auto.
      right. exists c. split; [left; reflexivity|]. rewrite Ew, H3. reflexivity.
Qed.

End Exact.

(* ---- executable well-formedness of a universe, and its soundness ---- *)
Definition wfb (u : universe) : bool :=
  forallb (fun b => (1 <=? b_height b) &&
                    forallb (fun p => (p <? length u) && (height u p <? b_height b)) (b_parents b)) u.

Lemma wfb_sound u : wfb u = true ->
  (forall b p, In p (parents u b) -> height u p < height u b) /\ (forall b, 1 <= height u b).
Proof.
  intros H. unfold wfb in H. rewrite forallb_forall in H.
  assert (G : forall b, (b < length u -> In (getb u b) u) /\ (length u <= b -> getb u b = dummy)).
  { intros b. unfold getb. split; intros Hb; [apply nth_In; auto | apply nth_overflow; auto]. }
  split.
  - intros b p Hp. unfold parents, height in *. destruct (Nat.lt_ge_cases b (length u)) as [Hb|Hb].
    + specialize (H _ (proj1 (G b) Hb)). apply andb_prop in H. destruct H as [_ H].
      rewrite forallb_forall in H. specialize (H p Hp). apply andb_prop in H. destruct H as [_ H].
      apply Nat.ltb_lt in H. exact H.
    + rewrite (proj2 (G b) Hb) in Hp. destruct Hp.
  - intros b. unfold height. destruct (Nat.lt_ge_cases b (length u)) as [Hb|Hb].
    + specialize (H _ (proj1 (G b) Hb)). apply andb_prop in H. destruct H as [H _]. apply Nat.leb_le in H. exact H.
    + rewrite (proj2 (G b) Hb). cbn. lia.
Qed.

(* ---- statements over every reachable replica state of a well-formed universe ---- *)
Definition reach (u : universe) (ops : list op) : rstate := fold_left (step u) ops rinit.

Lemma reach_inv u ops : wfb u = true -> RInv u (reach u ops).
Proof. intros H. destruct (wfb_sound u H) as [H1 H2]. apply reachable_inv; assumption. Qed.

Theorem convergence u ops1 ops2 : wfb u = true ->
  (forall b, In b (r_merged (reach u ops1)) <-> In b (r_merged (reach u ops2))) ->
  vs_eq (r_vs (reach u ops1)) (r_vs (reach u ops2)) /\
  (forall b, In b (r_heads (reach u ops1)) <-> In b (r_heads (reach u ops2))).
Proof.
  intros H Hset. destruct (wfb_sound u H) as [H1 H2].
  apply (same_merged_same_state u); auto using reach_inv.
Qed.

Theorem counter_exact u ops f : wfb u = true ->
  get_ctr f (v_ctrs (r_vs (reach u ops))) = sum_ctr u f (blocks_of u (r_merged (reach u ops))) /\
  NoDup (r_merged (reach u ops)).
Proof.
  intros H. pose proof (reach_inv u ops H) as HI. split; [|apply (ri_nodup _ _ HI)].
  rewrite (ri_vs _ _ HI), fold_comp_blocks, get_ctr_fold. reflexivity.
Qed.

Theorem delete_iff u ops : wfb u = true ->
  v_marker (r_vs (reach u ops)) = Some true <-> existsb (is_delete u) (blocks_of u (r_merged (reach u ops))) = true.
Proof.
  intros H. pose proof (reach_inv u ops H) as HI.
  rewrite (ri_vs _ _ HI), fold_comp_blocks, marker_fold. cbn. split; [intros [?|?]; [discriminate|auto] | auto].
Qed.

Theorem register_latest u ops f : wfb u = true ->
  let r := get_reg f (v_regs (r_vs (reach u ops))) in
  (forall c w, In c (blocks_of u (r_merged (reach u ops))) -> reg_of u f c = Some w -> rle w r) /\
  (r = (O, cbor_nil) \/ exists c, In c (blocks_of u (r_merged (reach u ops))) /\ reg_of u f c = Some r).
Proof.
  intros H. pose proof (reach_inv u ops H) as HI. cbn zeta.
  rewrite (ri_vs _ _ HI), fold_comp_blocks.
  destruct (get_reg_fold u f (blocks_of u (r_merged (reach u ops))) vinit) as (_ & H2 & H3). auto.
Qed.

Lemma reach_app u ops o : reach u (ops ++ [o]) = step u (reach u ops) o.
Proof. unfold reach. rewrite fold_left_app. reflexivity. Qed.

Theorem deliver_brings_ancestors u ops c b : wfb u = true ->
  Sweep.Anc (parents u) c b -> In b (r_merged (reach u (ops ++ [ODeliver c]))).
Proof.
  intros H Ha. destruct (wfb_sound u H) as [H1 H2]. rewrite reach_app. cbn [step].
  apply (proj2 (deliver_inv u H1 H2 (reach u ops) c (reach_inv u ops H))). right. exact Ha.
Qed.

Lemma step_grows u s o b : wfb u = true -> RInv u s -> In b (r_merged s) -> In b (r_merged (step u s o)).
Proof.
  intros H HI Hb. destruct (wfb_sound u H) as [H1 H2]. destruct o as [c|c]; cbn [step].
  - destruct (local_ok u s c); auto. unfold local. rewrite apply_comp_merged, in_app_iff. auto.
  - apply (proj2 (deliver_inv u H1 H2 s c HI)). auto.
Qed.

Theorem merged_grows u ops more b : wfb u = true ->
  In b (r_merged (reach u ops)) -> In b (r_merged (reach u (ops ++ more))).
Proof.
  intros H. revert ops. induction more as [|o more IH]; intros ops Hb; [rewrite app_nil_r; auto|].
  replace (ops ++ o :: more) with ((ops ++ [o]) ++ more) by (rewrite <- app_assoc; reflexivity).
  apply IH. rewrite reach_app. apply step_grows; auto using reach_inv.
Qed.

Lemma blocks_of_in u m c : In c m -> In c (blocks_of u m).
Proof. intros H. unfold blocks_of. apply in_flat_map. exists c. split; auto. left; reflexivity. Qed.

(* a deleted document is never resurrected by any later operation *)
Theorem delete_sticky u ops more : wfb u = true ->
  v_marker (r_vs (reach u ops)) = Some true -> v_marker (r_vs (reach u (ops ++ more))) = Some true.
Proof.
  intros H Hd. apply (delete_iff u _ H). apply (delete_iff u _ H) in Hd.
  apply existsb_exists in Hd. destruct Hd as [x [Hx Hdel]]. apply existsb_exists. exists x. split; auto.
  unfold blocks_of in *. apply in_flat_map in Hx. destruct Hx as [c [Hc Hxc]]. apply in_flat_map.
  exists c. split; auto. apply merged_grows; auto.
Qed.

Theorem heads_maximal u ops b : wfb u = true ->
  In b (r_heads (reach u ops)) <->
  (In b (r_merged (reach u ops)) /\ forall x, In x (r_merged (reach u ops)) -> ~ In b (parents u x)).
Proof. intros H. apply (ri_heads _ _ (reach_inv u ops H)). Qed.

Theorem merged_closed u ops b p : wfb u = true ->
  In b (r_merged (reach u ops)) -> In p (parents u b) -> In p (r_merged (reach u ops)).
Proof. intros H. apply (ri_down _ _ (reach_inv u ops H)). Qed.
