(* Time-travel reads (internal/db/fetcher/versioned.go after the F4 repair): seekTo queues the commit and all of
   its ancestors, each once, in height order, and merges each with the field blocks it links, into an empty
   transient store.  That is exactly a delivery of the commit to an empty replica. *)
From Coq Require Import List ZArith Arith Bool Lia Permutation.
From Verif Require Import GoSem Bytes Model Sweep Order Conv Exact.
Import ListNotations.
Local Open Scope nat_scope.

Definition versioned (u : universe) (c : nat) : rstate := deliver u rinit c.

Lemma anc_merged_init u b : ~ Sweep.Merged (parents u) [] b.
Proof. intros [h [[] _]]. Qed.

(* the time-travel state is the replay of exactly the commit and its ancestors, each once *)
Theorem versioned_is_replay u c : wfb u = true ->
  RInv u (versioned u c) /\ (forall b, In b (r_merged (versioned u c)) <-> Sweep.Anc (parents u) c b).
Proof.
  intros H. destruct (wfb_sound u H) as [H1 H2]. unfold versioned.
  destruct (deliver_inv u H1 H2 rinit c (rinv_init u)) as [HI Hm]. split; auto.
  intros b. rewrite Hm. cbn [rinit r_merged In]. tauto.
Qed.

(* hence it equals the state of ANY replica whose merged commits are exactly those ancestors: the writer right
   after a local commit on a linear history, or any replica whose single head is the commit *)
Theorem versioned_eq_replica u c ops : wfb u = true ->
  (forall b, In b (r_merged (reach u ops)) <-> Sweep.Anc (parents u) c b) ->
  vs_eq (r_vs (versioned u c)) (r_vs (reach u ops)).
Proof.
  intros H Hset. destruct (versioned_is_replay u c H) as [HI Hm].
  apply (same_merged_same_state u); auto using reach_inv.
  intros b. rewrite Hm, Hset. tauto.
Qed.

Theorem versioned_at_single_head u c ops : wfb u = true ->
  (forall b, In b (r_heads (reach u ops)) <-> b = c) ->
  vs_eq (r_vs (versioned u c)) (r_vs (reach u ops)).
Proof.
  intros H Hh. apply versioned_eq_replica; auto. destruct (wfb_sound u H) as [H1 H2].
  pose proof (reach_inv u ops H) as HI. intros b.
  rewrite <- (merged_iff u H1 (reach u ops) HI b). unfold Sweep.Merged. split.
  - intros [h [Hin Ha]]. apply Hh in Hin. subst. exact Ha.
  - intros Ha. exists c. split; auto. apply Hh. reflexivity.
Qed.

(* counters at a commit: the sum of the increments of the commit and its ancestors *)
Theorem versioned_counter u c f : wfb u = true ->
  get_ctr f (v_ctrs (r_vs (versioned u c))) = sum_ctr u f (blocks_of u (r_merged (versioned u c))) /\
  NoDup (r_merged (versioned u c)) /\
  (forall b, In b (r_merged (versioned u c)) <-> Sweep.Anc (parents u) c b).
Proof.
  intros H. destruct (versioned_is_replay u c H) as [HI Hm]. split; [|split; auto using (ri_nodup _ _ HI)].
  rewrite (ri_vs _ _ HI), fold_comp_blocks, get_ctr_fold. reflexivity.
Qed.
