(* Executable model of a replica of ONE document: blocks, the merge walk (level sweep, as in
   internal/db/merge.go: loadComposites after the F2 repair), ProcessBlock for composite / LWW register /
   counter deltas (internal/core/crdt), updateHeads for the document-level head set.
   Block ids are small naturals assigned by the harness; the hash function is not modelled. *)
From Coq Require Import List ZArith Arith Bool Lia.
From Verif Require Import GoSem Bytes.
Import ListNotations.
Local Open Scope nat_scope.

Inductive delta :=
| DStatus (deleted : bool)        (* composite delta: Active / Deleted *)
| DReg (v : list Z)               (* LWW register delta: CBOR bytes of the value *)
| DCtr (v : Z)                    (* counter increment *)
| DColl.                          (* collection-level delta (branchable), not interpreted *)

Record blk := mkB {
  b_field : Z;                    (* field index, -1 for composite *)
  b_height : nat;                 (* priority *)
  b_parents : list nat;           (* Heads *)
  b_links : list nat;             (* Links (field blocks of a composite) *)
  b_delta : delta }.

Definition dummy : blk := mkB (-1) 1 [] [] DColl.
Definition universe := list blk.
Definition getb (u : universe) (c : nat) : blk := nth c u dummy.
Definition height (u : universe) (c : nat) : nat := b_height (getb u c).
Definition parents (u : universe) (c : nat) : list nat := b_parents (getb u c).
Definition links (u : universe) (c : nat) : list nat := b_links (getb u c).

Definition mem (x : nat) (l : list nat) : bool := existsb (Nat.eqb x) l.

(* ---- the level sweep ---- *)
Section SweepDef.
Variable hgt : nat -> nat.
Variable par : nat -> list nat.
Definition at_level (h : nat) (l : list nat) := filter (fun b => hgt b =? h) l.
Definition below_level (h : nat) (l : list nat) := filter (fun b => negb (hgt b =? h)) l.
Definition level_step (h : nat) (I M : list nat) : list nat * list nat * list nat :=
  let Mh := at_level h M in
  let Ih := nodup Nat.eq_dec (filter (fun b => negb (mem b Mh)) (at_level h I)) in
  (Ih, below_level h I ++ flat_map par Ih, below_level h M ++ flat_map par Mh).
Fixpoint sweep (h : nat) (I M : list nat) (out : list nat) : list nat :=
  match h with
  | O => out
  | S h' => let '(Ih, I', M') := level_step h I M in sweep h' I' M' (Ih ++ out)
  end.
End SweepDef.

(* ---- value state ---- *)
Definition cbor_nil : list Z := [246%Z].

Record vstate := mkV {
  v_marker : option bool;                     (* None: no object marker; Some true: deleted *)
  v_regs : list (Z * (nat * list Z));         (* field -> (priority, bytes), latest binding first *)
  v_ctrs : list (Z * Z) }.                    (* field -> sum of increments (unbounded; read through i64) *)

Definition vinit : vstate := mkV None [] [].

Fixpoint get_reg (f : Z) (l : list (Z * (nat * list Z))) : nat * list Z :=
  match l with
  | [] => (O, cbor_nil)
  | (g, v) :: r => if Z.eqb g f then v else get_reg f r
  end.
Fixpoint get_ctr (f : Z) (l : list (Z * Z)) : Z :=
  match l with
  | [] => 0%Z
  | (g, v) :: r => if Z.eqb g f then v else get_ctr f r
  end.

(* LWW.setValue *)
Definition lww_wins (cur : nat * list Z) (h : nat) (v : list Z) : bool :=
  if h <? fst cur then false
  else if h =? fst cur then match bcmp (snd cur) v with Lt => true | _ => false end
  else true.

Definition apply_delta (vs : vstate) (f : Z) (h : nat) (d : delta) : vstate :=
  match d with
  | DStatus true => mkV (Some true) (v_regs vs) (v_ctrs vs)
  | DStatus false => mkV (match v_marker vs with None => Some false | m => m end) (v_regs vs) (v_ctrs vs)
  | DReg v => if lww_wins (get_reg f (v_regs vs)) h v
              then mkV (v_marker vs) ((f, (h, v)) :: v_regs vs) (v_ctrs vs) else vs
  | DCtr x => mkV (v_marker vs) (v_regs vs) ((f, (get_ctr f (v_ctrs vs) + x)%Z) :: v_ctrs vs)
  | DColl => vs
  end.

Definition apply_block (u : universe) (vs : vstate) (c : nat) : vstate :=
  let b := getb u c in apply_delta vs (b_field b) (b_height b) (b_delta b).

(* ---- replica ---- *)
Record rstate := mkR {
  r_merged : list nat;     (* ghost: composites processed, in processing order *)
  r_heads : list nat;      (* document-level head set *)
  r_vs : vstate }.
Definition rinit : rstate := mkR [] [] vinit.

(* processBlock for a composite: ProcessBlock(composite) then ProcessBlock of every linked field block *)
Definition apply_comp (u : universe) (s : rstate) (c : nat) : rstate :=
  mkR (r_merged s ++ [c])
      (c :: filter (fun h => negb (mem h (parents u c))) (r_heads s))
      (fold_left (apply_block u) (links u c) (apply_block u (r_vs s) c)).

Definition max_height (u : universe) (l : list nat) : nat := fold_right (fun c m => Nat.max (height u c) m) O l.

Definition to_merge (u : universe) (s : rstate) (c : nat) : list nat :=
  if mem c (r_heads s) then []
  else sweep (height u) (parents u) (Nat.max (height u c) (max_height u (r_heads s))) [c] (r_heads s) [].

Definition deliver (u : universe) (s : rstate) (c : nat) : rstate :=
  fold_left (apply_comp u) (to_merge u s c) s.

(* a local write creates composite c on top of the current heads *)
Definition same_set (a b : list nat) : bool :=
  forallb (fun x => mem x b) a && forallb (fun x => mem x a) b.
Definition local_ok (u : universe) (s : rstate) (c : nat) : bool :=
  same_set (parents u c) (r_heads s) && (height u c =? S (max_height u (r_heads s))) && negb (mem c (r_merged s)).
Definition local (u : universe) (s : rstate) (c : nat) : rstate := apply_comp u s c.
