(* The level sweep of the merge walk is exact: it returns precisely the blocks reachable from the incoming
   block that are not ancestors of a current head - each once, in ascending height. *)
From Coq Require Import List Arith Lia Bool PeanoNat ZArith Sorted.
From Verif Require Import GoSem Bytes Model.
Import ListNotations.
Local Open Scope nat_scope.

(* Universe of composite blocks: cid = nat; each block has a height and parents *)
Section Sweep.
Variable height : nat -> nat.
Variable parents : nat -> list nat.
(* well-formed: every parent is strictly lower *)
Hypothesis wf : forall b p, In p (parents b) -> height p < height b.
Hypothesis hpos : forall b, 1 <= height b.

Inductive Anc : nat -> nat -> Prop :=   (* Anc b a : a is an ancestor-or-self of b *)
| anc_refl b : Anc b b
| anc_step b p a : In p (parents b) -> Anc p a -> Anc b a.

Lemma anc_height b a : Anc b a -> height a <= height b.
Proof. induction 1; [lia|]. apply wf in H. lia. Qed.

Lemma anc_trans a b c : Anc a b -> Anc b c -> Anc a c.
Proof. induction 1; auto. intros. econstructor; eauto. Qed.

Variable heads : list nat.
Definition Merged (b : nat) : Prop := exists h, In h heads /\ Anc h b.

Lemma merged_down b p : Merged b -> In p (parents b) -> Merged p.
Proof. intros [h [Hh Ha]] Hp. exists h; split; auto. eapply anc_trans; eauto. econstructor; eauto. constructor. Qed.

Variable c : nat.  (* incoming *)
Definition Unm (b : nat) : Prop := Anc c b /\ ~ Merged b.

Lemma mem_In x l : mem x l = true <-> In x l.
Proof. unfold mem. rewrite existsb_exists. split; [intros [y [Hy He]]; apply Nat.eqb_eq in He; subst; auto | intros; exists x; split; auto; apply Nat.eqb_refl]. Qed.

Notation at_level := (Model.at_level height).
Notation below_level := (Model.below_level height).
Notation level_step := (Model.level_step height parents).
Notation sweep := (Model.sweep height parents).

(* Invariant before processing level h (levels > h done) *)
Record Inv (h : nat) (I M out : list nat) : Prop := {
  inv_I_h : forall b, In b I -> height b <= h;
  inv_M_h : forall b, In b M -> height b <= h;
  inv_I_sound : forall b, In b I -> Anc c b /\ (b = c \/ exists x, Unm x /\ In b (parents x));
  inv_I_compl : forall b, height b <= h -> (b = c \/ exists x, Unm x /\ h < height x /\ In b (parents x)) -> In b I;
  inv_M_sound : forall b, In b M -> Merged b;
  inv_M_compl : forall b, height b <= h -> (In b heads \/ exists x, Merged x /\ h < height x /\ In b (parents x)) -> In b M;
  inv_out : forall b, In b out <-> (Unm b /\ h < height b);
}.

Lemma merged_at_level h I M out b : Inv h I M out -> height b = h -> (Merged b <-> In b (at_level h M)).
Proof.
  intros HI Hb. unfold Model.at_level. rewrite filter_In. split.
  - intros Hm. split; [|apply Nat.eqb_eq; auto].
    apply (inv_M_compl _ _ _ _ HI); [lia|].
    destruct Hm as [hd [Hhd Ha]].
    (* path from head hd to b: either b = hd, or predecessor x with b in parents x *)
    clear - Ha Hhd Hb wf. 
    assert (G: b = hd \/ exists x, Anc hd x /\ In b (parents x)).
    { clear Hhd Hb. induction Ha; auto. right. destruct IHHa as [->|[x [Hx Hp]]].
      - exists b; split; [constructor|auto].
      - exists x; split; auto. econstructor; eauto. }
    destruct G as [->|[x [Hx Hp]]]; auto. right. exists x. repeat split; auto.
    + exists hd; auto.
    + apply wf in Hp. lia.
  - intros [Hin _]. apply (inv_M_sound _ _ _ _ HI); auto.
Qed.

Lemma unm_path b : Unm b -> b = c \/ exists x, Unm x /\ In b (parents x).
Proof.
  intros [Ha Hn].
  assert (G: b = c \/ exists x, Anc c x /\ In b (parents x)).
  { clear Hn. induction Ha; auto. right. destruct IHHa as [->|[x [Hx Hp]]].
    - exists b; split; [constructor|auto].
    - exists x; split; auto. econstructor; eauto. }
  destruct G as [->|[x [Hx Hp]]]; auto. right. exists x; repeat split; auto.
  intros Hm. apply Hn. eapply merged_down; eauto.
Qed.

Lemma level_inv h I M out :
  Inv (S h) I M out ->
  let '(Ih, I', M') := level_step (S h) I M in Inv h I' M' (Ih ++ out).
Proof.
  intros HI. unfold Model.level_step.
  set (Mh := at_level (S h) M). set (Ih := nodup Nat.eq_dec (filter (fun b => negb (mem b Mh)) (at_level (S h) I))).
  assert (HIh : forall b, In b Ih <-> (Unm b /\ height b = S h)).
  { intros b. unfold Ih. rewrite nodup_In, filter_In. unfold Model.at_level. rewrite filter_In, Nat.eqb_eq.
    split.
    - intros [[Hin Hh] Hnm]. split; auto. destruct (inv_I_sound _ _ _ _ HI b Hin) as [Ha _]. split; auto.
      intros Hm. apply (merged_at_level _ _ _ _ b HI Hh) in Hm. fold Mh in Hm. apply mem_In in Hm. rewrite Hm in Hnm. discriminate.
    - intros [Hu Hh]. split; [split; auto|].
      + apply (inv_I_compl _ _ _ _ HI); [lia|]. destruct (unm_path b Hu) as [->|[x [Hx Hp]]]; auto.
        right. exists x. split; [exact Hx|]. split; [apply wf in Hp; lia|exact Hp].
      + destruct (mem b Mh) eqn:E; auto. apply mem_In in E. unfold Mh in E.
        apply (merged_at_level _ _ _ _ b HI Hh) in E. destruct Hu as [_ Hn]. contradiction. }
  assert (HMh : forall b, In b Mh <-> (Merged b /\ height b = S h)).
  { intros b. split.
    - intros Hin. pose proof Hin as Hin2. unfold Mh, Model.at_level in Hin. rewrite filter_In, Nat.eqb_eq in Hin. destruct Hin as [Hin Hh].
      split; auto. apply (inv_M_sound _ _ _ _ HI); auto.
    - intros [Hm Hh]. apply (merged_at_level _ _ _ _ b HI Hh); auto. }
  constructor.
  - intros b Hb. apply in_app_or in Hb. destruct Hb as [Hb|Hb].
    + unfold Model.below_level in Hb. rewrite filter_In in Hb. destruct Hb as [Hin Hne]. apply negb_true_iff, Nat.eqb_neq in Hne.
      pose proof (inv_I_h _ _ _ _ HI b Hin). lia.
    + apply in_flat_map in Hb. destruct Hb as [x [Hx Hp]]. apply HIh in Hx. apply wf in Hp. lia.
  - intros b Hb. apply in_app_or in Hb. destruct Hb as [Hb|Hb].
    + unfold Model.below_level in Hb. rewrite filter_In in Hb. destruct Hb as [Hin Hne]. apply negb_true_iff, Nat.eqb_neq in Hne.
      pose proof (inv_M_h _ _ _ _ HI b Hin). lia.
    + apply in_flat_map in Hb. destruct Hb as [x [Hx Hp]]. apply HMh in Hx. apply wf in Hp. lia.
  - intros b Hb. apply in_app_or in Hb. destruct Hb as [Hb|Hb].
    + unfold Model.below_level in Hb. rewrite filter_In in Hb. destruct Hb as [Hin _]. apply (inv_I_sound _ _ _ _ HI); auto.
    + apply in_flat_map in Hb. destruct Hb as [x [Hx Hp]]. apply HIh in Hx. destruct Hx as [Hu Hh]. split.
      * destruct Hu as [Ha _]. eapply anc_trans; eauto. econstructor; eauto. constructor.
      * right. exists x; auto.
  - intros b Hh Hc. apply in_or_app.
    destruct Hc as [->|[x [Hx [Hlt Hp]]]].
    + left. unfold Model.below_level. rewrite filter_In. split.
      * apply (inv_I_compl _ _ _ _ HI); auto.
      * apply negb_true_iff, Nat.eqb_neq. lia.
    + destruct (Nat.eq_dec (height x) (S h)) as [E|E].
      * right. apply in_flat_map. exists x; split; auto. apply HIh; auto.
      * left. unfold Model.below_level. rewrite filter_In. split.
        -- apply (inv_I_compl _ _ _ _ HI); [lia|]. right. exists x. split; [exact Hx|]. split; [lia|exact Hp].
        -- apply negb_true_iff, Nat.eqb_neq. lia.
  - intros b Hb. apply in_app_or in Hb. destruct Hb as [Hb|Hb].
    + unfold Model.below_level in Hb. rewrite filter_In in Hb. destruct Hb as [Hin _]. apply (inv_M_sound _ _ _ _ HI); auto.
    + apply in_flat_map in Hb. destruct Hb as [x [Hx Hp]]. apply HMh in Hx. destruct Hx as [Hm _]. eapply merged_down; eauto.
  - intros b Hh Hc. apply in_or_app.
    destruct Hc as [Hhd|[x [Hx [Hlt Hp]]]].
    + left. unfold Model.below_level. rewrite filter_In. split.
      * apply (inv_M_compl _ _ _ _ HI); auto.
      * apply negb_true_iff, Nat.eqb_neq. lia.
    + destruct (Nat.eq_dec (height x) (S h)) as [E|E].
      * right. apply in_flat_map. exists x; split; auto. apply HMh; auto.
      * left. unfold Model.below_level. rewrite filter_In. split.
        -- apply (inv_M_compl _ _ _ _ HI); [lia|]. right. exists x. split; [exact Hx|]. split; [lia|exact Hp].
        -- apply negb_true_iff, Nat.eqb_neq. lia.
  - intros b. rewrite in_app_iff, HIh, (inv_out _ _ _ _ HI). split.
    + intros [[Hu Hh]|[Hu Hh]]; split; auto; lia.
    + intros [Hu Hh]. destruct (Nat.eq_dec (height b) (S h)); [left|right]; split; auto; lia.
Qed.

Theorem sweep_exact h I M out : Inv h I M out -> forall b, In b (sweep h I M out) <-> Unm b.
Proof.
  revert I M out. induction h as [|h IH]; intros I M out HI b.
  - simpl. rewrite (inv_out _ _ _ _ HI). split; [tauto|]. intros Hu; split; auto; pose proof (hpos b); lia.
  - cbn [sweep]. pose proof (level_inv h I M out HI) as HL. destruct (level_step (S h) I M) as [[Ih I'] M']. apply IH; auto.
Qed.


(* ---- the result has no duplicates and is sorted by height ---- *)
Definition hle (a b : nat) : Prop := height a <= height b.

Lemma ss_app l1 l2 : StronglySorted hle l1 -> StronglySorted hle l2 ->
  (forall x y, In x l1 -> In y l2 -> hle x y) -> StronglySorted hle (l1 ++ l2).
Proof.
  induction 1 as [|a l1 Hs IH Hf]; intros H2 Hx; cbn [app]; auto.
  constructor.
  - apply IH; auto. intros; apply Hx; simpl; auto.
  - apply Forall_app; split; auto. apply Forall_forall. intros y Hy. apply Hx; simpl; auto.
Qed.

Lemma nodup_app (l1 l2 : list nat) : NoDup l1 -> NoDup l2 -> (forall x, In x l1 -> In x l2 -> False) -> NoDup (l1 ++ l2).
Proof.
  induction 1 as [|a l1 Ha Hn IH]; intros H2 Hd; cbn [app]; auto.
  constructor.
  - rewrite in_app_iff. intros [H|H]; [auto | apply (Hd a); simpl; auto].
  - apply IH; auto. intros x Hx Hy. apply (Hd x); simpl; auto.
Qed.

Lemma ss_same_height l k : (forall x, In x l -> height x = k) -> StronglySorted hle l.
Proof.
  induction l as [|a l IH]; intros H; constructor.
  - apply IH. intros; apply H; simpl; auto.
  - apply Forall_forall. intros y Hy. unfold hle. rewrite (H a), (H y); simpl; auto.
Qed.

Lemma Ih_height h I M b :
  In b (fst (fst (level_step h I M))) -> height b = h.
Proof.
  unfold Model.level_step. cbn [fst]. rewrite nodup_In, filter_In. unfold Model.at_level.
  rewrite filter_In, Nat.eqb_eq. tauto.
Qed.

Theorem sweep_nodup_sorted h : forall I M out, Inv h I M out -> NoDup out -> StronglySorted hle out ->
  NoDup (sweep h I M out) /\ StronglySorted hle (sweep h I M out).
Proof.
  induction h as [|h IH]; intros I M out HI Hnd Hss; [simpl; auto|].
  cbn [Model.sweep]. pose proof (level_inv h I M out HI) as HL.
  pose proof (Ih_height (S h) I M) as Hh.
  destruct (level_step (S h) I M) as [[Ih I'] M'] eqn:E. cbn [fst] in Hh.
  assert (HndI : NoDup Ih).
  { unfold Model.level_step in E. injection E as <- _ _. apply NoDup_nodup. }
  apply IH; auto.
  - apply nodup_app; auto.
    intros x Hx Hy. apply Hh in Hx. apply (inv_out _ _ _ _ HI) in Hy. lia.
  - apply ss_app; auto.
    + apply (ss_same_height Ih (S h)); auto.
    + intros x y Hx Hy. apply Hh in Hx. apply (inv_out _ _ _ _ HI) in Hy. unfold hle. lia.
Qed.

(* initial invariant *)
Lemma inv_init H : (forall b, In b heads -> height b <= H) -> height c <= H -> Inv H [c] heads [].
Proof.
  intros Hh Hc. constructor.
  - intros b [<-|[]]; auto.
  - auto.
  - intros b [<-|[]]. split; [constructor|auto].
  - intros b Hb [->|[x [[Hx _] [Hlt _]]]]; [left; auto|]. apply anc_height in Hx. lia.
  - intros b Hb. exists b; split; auto. constructor.
  - intros b Hb [Hin|[x [[hd [Hhd Ha]] [Hlt _]]]]; auto. apply anc_height in Ha. specialize (Hh _ Hhd). lia.
  - intros b. simpl. split; [tauto|]. intros [[Ha _] Hlt]. apply anc_height in Ha. lia.
Qed.

Theorem sweep_init H : (forall b, In b heads -> height b <= H) -> height c <= H ->
  forall b, In b (sweep H [c] heads []) <-> Unm b.
Proof. intros Hh Hc. apply sweep_exact. apply inv_init; assumption. Qed.

Theorem sweep_init_nodup_sorted H : (forall b, In b heads -> height b <= H) -> height c <= H ->
  NoDup (sweep H [c] heads []) /\ StronglySorted hle (sweep H [c] heads []).
Proof. intros Hh Hc. apply sweep_nodup_sorted; [apply inv_init; assumption | constructor | constructor]. Qed.
End Sweep.

