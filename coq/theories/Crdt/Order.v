(* Registers as a max-semilattice on (priority, bytes); value states up to observation; folds of commuting
   operations over permutations. *)
From Coq Require Import List ZArith Arith Bool Lia Permutation.
From Verif Require Import GoSem Bytes Model.
Import ListNotations.
Local Open Scope nat_scope.

(* ---- bcmp is a total order ---- *)
Lemma bcmp_lt_trans a b c : bcmp a b = Lt -> bcmp b c = Lt -> bcmp a c = Lt.
Proof.
  revert b c; induction a as [|x a IH]; intros [|y b] [|z c]; cbn [bcmp]; try discriminate; auto.
  destruct (Z.compare_spec x y) as [->|Hxy|Hxy]; try discriminate.
  - destruct (Z.compare_spec y z) as [->|Hyz|Hyz]; try discriminate; auto.
    + apply IH.
  - intros _. destruct (Z.compare_spec y z) as [->|Hyz|Hyz]; try discriminate.
    + intros _. assert (E : (x ?= z)%Z = Lt) by (apply Z.compare_lt_iff; lia). rewrite E; reflexivity.
    + intros _. assert (E : (x ?= z)%Z = Lt) by (apply Z.compare_lt_iff; lia). rewrite E; reflexivity.
Qed.

Lemma bcmp_gt_lt a b : bcmp a b = Gt <-> bcmp b a = Lt.
Proof. rewrite (bcmp_antisym a b). destruct (bcmp a b); cbn; split; congruence. Qed.

Lemma bcmp_eq_iff a b : bcmp a b = Eq <-> a = b.
Proof. split; [apply bcmp_eq | intros ->; apply bcmp_refl]. Qed.

(* lexicographic order on (priority, bytes) *)
Definition rlt (a b : nat * list Z) : Prop :=
  fst a < fst b \/ (fst a = fst b /\ bcmp (snd a) (snd b) = Lt).

Definition rmax (a b : nat * list Z) : nat * list Z :=
  if lww_wins a (fst b) (snd b) then b else a.

Lemma lww_wins_spec a h v : lww_wins a h v = true <-> rlt a (h, v).
Proof.
  unfold lww_wins, rlt. cbn [fst snd].
  destruct (h <? fst a) eqn:E1; [apply Nat.ltb_lt in E1; split; [discriminate | intros [H|[H _]]; lia]|].
  apply Nat.ltb_ge in E1.
  destruct (h =? fst a) eqn:E2.
  - apply Nat.eqb_eq in E2. destruct (bcmp (snd a) v) eqn:E3; split; try discriminate; auto;
      intros [H|[_ H]]; try lia; congruence.
  - apply Nat.eqb_neq in E2. split; auto. intros _. left. lia.
Qed.

Lemma rlt_irrefl a : ~ rlt a a.
Proof. unfold rlt. rewrite bcmp_refl. intros [H|[_ H]]; [lia|discriminate]. Qed.
Lemma rlt_trans a b c : rlt a b -> rlt b c -> rlt a c.
Proof.
  unfold rlt. intros [H1|[H1 H1']] [H2|[H2 H2']]; try (left; lia).
  right. split; [lia|]. eapply bcmp_lt_trans; eauto.
Qed.
Lemma rlt_total a b : rlt a b \/ a = b \/ rlt b a.
Proof.
  unfold rlt. destruct a as [ha va], b as [hb vb]. cbn [fst snd].
  destruct (lt_eq_lt_dec ha hb) as [[H|H]|H]; [left; left; auto | | right; right; left; auto].
  subst. destruct (bcmp va vb) eqn:E.
  - apply bcmp_eq in E. subst. right; left; reflexivity.
  - left; right; auto.
  - right; right; right. split; auto. apply bcmp_gt_lt; auto.
Qed.

Lemma rmax_spec a b : rmax a b = if lww_wins a (fst b) (snd b) then b else a.
Proof. reflexivity. Qed.

Lemma rmax_cases a b : (rlt a b /\ rmax a b = b) \/ (~ rlt a b /\ rmax a b = a).
Proof.
  unfold rmax. destruct (lww_wins a (fst b) (snd b)) eqn:E.
  - left. split; auto. apply lww_wins_spec in E. destruct b; exact E.
  - right. split; auto. intros H. assert (lww_wins a (fst b) (snd b) = true) by (apply lww_wins_spec; destruct b; exact H). congruence.
Qed.

Lemma rmax_comm3 a x y : rmax (rmax a x) y = rmax (rmax a y) x.
Proof.
  destruct (rmax_cases a x) as [[H1 E1]|[H1 E1]], (rmax_cases a y) as [[H2 E2]|[H2 E2]].
  - rewrite E1, E2.
    destruct (rmax_cases x y) as [[H3 E3]|[H3 E3]], (rmax_cases y x) as [[H4 E4]|[H4 E4]]; rewrite E3, E4; auto.
    + exfalso. eapply rlt_irrefl. eapply rlt_trans; eauto.
    + destruct (rlt_total x y) as [H|[H|H]]; auto; contradiction.
  - rewrite E1, E2, E1.
    destruct (rmax_cases x y) as [[H3 E3]|[H3 E3]]; rewrite E3; auto.
    exfalso. apply H2. eapply rlt_trans; eauto.
  - rewrite E1, E2.
    destruct (rmax_cases y x) as [[H3 E3]|[H3 E3]]; rewrite E3; auto.
    exfalso. apply H1. eapply rlt_trans; eauto.
  - rewrite E1, E2, E1. reflexivity.
Qed.

(* ---- value states up to observation ---- *)
Definition vs_eq (a b : vstate) : Prop :=
  v_marker a = v_marker b /\
  (forall f, get_reg f (v_regs a) = get_reg f (v_regs b)) /\
  (forall f, get_ctr f (v_ctrs a) = get_ctr f (v_ctrs b)).

Lemma vs_eq_refl a : vs_eq a a. Proof. repeat split. Qed.
Lemma vs_eq_sym a b : vs_eq a b -> vs_eq b a.
Proof. intros (H1 & H2 & H3). repeat split; intros; symmetry; auto. Qed.
Lemma vs_eq_trans a b c : vs_eq a b -> vs_eq b c -> vs_eq a c.
Proof. intros (H1 & H2 & H3) (G1 & G2 & G3). repeat split; intros; etransitivity; eauto. Qed.

Lemma get_reg_cons f g v l : get_reg f ((g, v) :: l) = if Z.eqb g f then v else get_reg f l.
Proof. reflexivity. Qed.
Lemma get_ctr_cons f g v l : get_ctr f ((g, v) :: l) = if Z.eqb g f then v else get_ctr f l.
Proof. reflexivity. Qed.

(* the register of field g after a register delta: the lexicographic maximum *)
Lemma apply_reg_get vs f h v g :
  get_reg g (v_regs (apply_delta vs f h (DReg v))) =
  if Z.eqb f g then rmax (get_reg f (v_regs vs)) (h, v) else get_reg g (v_regs vs).
Proof.
  cbn [apply_delta]. unfold rmax. cbn [fst snd].
  destruct (lww_wins (get_reg f (v_regs vs)) h v) eqn:E; cbn [v_regs].
  - rewrite get_reg_cons. destruct (Z.eqb f g) eqn:Efg; reflexivity.
  - destruct (Z.eqb f g) eqn:Efg; [apply Z.eqb_eq in Efg; subst|]; reflexivity.
Qed.

Lemma marker_of_reg vs f h v : v_marker (apply_delta vs f h (DReg v)) = v_marker vs.
Proof. cbn [apply_delta]. destruct (lww_wins _ _ _); reflexivity. Qed.
Lemma ctrs_of_reg vs f h v : v_ctrs (apply_delta vs f h (DReg v)) = v_ctrs vs.
Proof. cbn [apply_delta]. destruct (lww_wins _ _ _); reflexivity. Qed.

Lemma apply_delta_congr a b f h d : vs_eq a b -> vs_eq (apply_delta a f h d) (apply_delta b f h d).
Proof.
  intros (H1 & H2 & H3). destruct d as [[|]|v|x|].
  - repeat split; cbn; auto.
  - repeat split; cbn; auto. rewrite H1; reflexivity.
  - split; [|split].
    + rewrite !marker_of_reg. exact H1.
    + intros g. rewrite !apply_reg_get, H2, (H2 g). reflexivity.
    + intros g. rewrite !ctrs_of_reg. apply H3.
  - repeat split; cbn [apply_delta v_marker v_regs v_ctrs]; auto.
    intros g. rewrite !get_ctr_cons, H3, (H3 g). reflexivity.
  - repeat split; auto.
Qed.

Definition mfun (d : delta) (m : option bool) : option bool :=
  match d with
  | DStatus true => Some true
  | DStatus false => match m with None => Some false | Some b => Some b end
  | _ => m
  end.

Lemma marker_char vs f h d : v_marker (apply_delta vs f h d) = mfun d (v_marker vs).
Proof. destruct d as [[|]|v|x|]; try reflexivity. apply marker_of_reg. Qed.

Lemma reg_char vs f h d g :
  get_reg g (v_regs (apply_delta vs f h d)) =
  match d with
  | DReg v => if Z.eqb f g then rmax (get_reg f (v_regs vs)) (h, v) else get_reg g (v_regs vs)
  | _ => get_reg g (v_regs vs)
  end.
Proof. destruct d as [[|]|v|x|]; try reflexivity. apply apply_reg_get. Qed.

Lemma ctr_char vs f h d g :
  get_ctr g (v_ctrs (apply_delta vs f h d)) =
  match d with
  | DCtr x => if Z.eqb f g then (get_ctr f (v_ctrs vs) + x)%Z else get_ctr g (v_ctrs vs)
  | _ => get_ctr g (v_ctrs vs)
  end.
Proof.
  destruct d as [[|]|v|x|]; try reflexivity.
  rewrite ctrs_of_reg. reflexivity.
Qed.

Lemma apply_delta_comm a f1 h1 d1 f2 h2 d2 :
  vs_eq (apply_delta (apply_delta a f1 h1 d1) f2 h2 d2) (apply_delta (apply_delta a f2 h2 d2) f1 h1 d1).
Proof.
  split; [|split].
  - rewrite !marker_char. destruct d1 as [[|]|v1|x1|], d2 as [[|]|v2|x2|], (v_marker a) as [[|]|]; reflexivity.
  - intros g. rewrite !reg_char.
    destruct d1 as [[|]|v1|x1|], d2 as [[|]|v2|x2|]; rewrite ?reg_char; try reflexivity.
    destruct (Z.eqb_spec f1 g), (Z.eqb_spec f2 g), (Z.eqb_spec f1 f2), (Z.eqb_spec f2 f1);
      subst; try congruence; try reflexivity. apply rmax_comm3.
  - intros g. rewrite !ctr_char.
    destruct d1 as [[|]|v1|x1|], d2 as [[|]|v2|x2|]; rewrite ?ctr_char; try reflexivity.
    destruct (Z.eqb_spec f1 g), (Z.eqb_spec f2 g), (Z.eqb_spec f1 f2), (Z.eqb_spec f2 f1);
      subst; try congruence; try reflexivity. lia.
Qed.

(* ---- folds of commuting, congruent operations over permutations ---- *)
Section FoldPerm.
Variable op : vstate -> nat -> vstate.
Hypothesis congr : forall a b x, vs_eq a b -> vs_eq (op a x) (op b x).
Hypothesis comm : forall a x y, vs_eq (op (op a x) y) (op (op a y) x).

Lemma fold_congr l : forall a b, vs_eq a b -> vs_eq (fold_left op l a) (fold_left op l b).
Proof. induction l as [|x l IH]; intros a b H; cbn [fold_left]; auto. Qed.

Lemma fold_perm l1 l2 : Permutation l1 l2 -> forall a b, vs_eq a b -> vs_eq (fold_left op l1 a) (fold_left op l2 b).
Proof.
  induction 1 as [|x l1 l2 Hp IH|x y l|l1 l2 l3 H1 IH1 H2 IH2]; intros a b Hab; cbn [fold_left].
  - exact Hab.
  - apply IH. apply congr. exact Hab.
  - apply fold_congr. eapply vs_eq_trans; [apply comm|]. apply congr. apply congr. exact Hab.
  - eapply vs_eq_trans; [apply IH1; exact Hab|]. apply IH2. apply vs_eq_refl.
Qed.
End FoldPerm.

Lemma apply_block_congr u a b x : vs_eq a b -> vs_eq (apply_block u a x) (apply_block u b x).
Proof. unfold apply_block. apply apply_delta_congr. Qed.
Lemma apply_block_comm u a x y : vs_eq (apply_block u (apply_block u a x) y) (apply_block u (apply_block u a y) x).
Proof. unfold apply_block. apply apply_delta_comm. Qed.

Theorem blocks_perm u l1 l2 a : Permutation l1 l2 ->
  vs_eq (fold_left (apply_block u) l1 a) (fold_left (apply_block u) l2 a).
Proof.
  intros H. apply (fold_perm (apply_block u) (apply_block_congr u) (apply_block_comm u) l1 l2 H). apply vs_eq_refl.
Qed.
