(* Invariants of a replica under any sequence of local writes and deliveries, and convergence. *)
From Coq Require Import List ZArith Arith Bool Lia Permutation Sorted.
From Verif Require Import GoSem Bytes Model Sweep Order.
Import ListNotations.
Local Open Scope nat_scope.

Section Conv.
Variable u : universe.
(* well-formed universe: heights are positive and strictly decrease along parent links *)
Hypothesis wfu : forall b p, In p (parents u b) -> height u p < height u b.
Hypothesis hpos : forall b, 1 <= height u b.

Notation Anc := (Sweep.Anc (parents u)).

Definition apply_comp_v (vs : vstate) (c : nat) : vstate :=
  fold_left (apply_block u) (links u c) (apply_block u vs c).
Definition blocks_of (m : list nat) : list nat := flat_map (fun c => c :: links u c) m.

Lemma fold_comp_blocks m vs : fold_left apply_comp_v m vs = fold_left (apply_block u) (blocks_of m) vs.
Proof.
  revert vs; induction m as [|c m IH]; intros vs; [reflexivity|].
  cbn [fold_left blocks_of flat_map]. rewrite fold_left_app. cbn [fold_left]. rewrite IH. reflexivity.
Qed.

Definition maximal (m : list nat) (b : nat) : Prop :=
  In b m /\ forall x, In x m -> ~ In b (parents u x).

Record RInv (s : rstate) : Prop := {
  ri_nodup : NoDup (r_merged s);
  ri_down : forall b p, In b (r_merged s) -> In p (parents u b) -> In p (r_merged s);
  ri_heads : forall b, In b (r_heads s) <-> maximal (r_merged s) b;
  ri_vs : r_vs s = fold_left apply_comp_v (r_merged s) vinit }.

Lemma rinv_init : RInv rinit.
Proof.
  constructor; cbn [rinit r_merged r_heads r_vs].
  - constructor.
  - intros b p [].
  - intros b. unfold maximal. cbn [In]. tauto.
  - reflexivity.
Qed.

Lemma mem_In' x l : mem x l = true <-> In x l.
Proof. apply Sweep.mem_In. Qed.

(* ---- one composite ---- *)
Lemma apply_comp_inv s c : RInv s -> ~ In c (r_merged s) -> (forall p, In p (parents u c) -> In p (r_merged s)) ->
  RInv (apply_comp u s c).
Proof.
  intros HI Hc Hp. constructor; cbn [apply_comp r_merged r_heads r_vs].
  - apply Sweep.nodup_app; [apply (ri_nodup _ HI) | repeat constructor; intros [] | ].
    intros x Hx [<-|[]]. contradiction.
  - intros b p Hb Hbp. rewrite in_app_iff in *. destruct Hb as [Hb|[<-|[]]].
    + left. eapply (ri_down _ HI); eauto.
    + left. apply Hp; auto.
  - intros b. cbn [In]. rewrite filter_In, (ri_heads _ HI b). unfold maximal.
    rewrite negb_true_iff. split.
    + intros [<-|[[Hb Hm] Hnp]].
      * split; [rewrite in_app_iff; right; left; reflexivity|].
        intros x Hx Hcx. rewrite in_app_iff in Hx. destruct Hx as [Hx|[<-|[]]].
        -- apply Hc. eapply (ri_down _ HI); eauto.
        -- apply wfu in Hcx. lia.
      * split; [rewrite in_app_iff; left; auto|].
        intros x Hx Hbx. rewrite in_app_iff in Hx. destruct Hx as [Hx|[<-|[]]].
        -- eapply Hm; eauto.
        -- apply mem_In' in Hbx. congruence.
    + intros [Hb Hm]. rewrite in_app_iff in Hb. destruct Hb as [Hb|[<-|[]]]; [right|left; reflexivity].
      split; [split; auto|].
      * intros x Hx. apply Hm. rewrite in_app_iff; left; auto.
      * destruct (mem b (parents u c)) eqn:E; auto. apply mem_In' in E.
        exfalso. eapply (Hm c); [rewrite in_app_iff; right; left; reflexivity | exact E].
  - rewrite fold_left_app. cbn [fold_left]. rewrite <- (ri_vs _ HI). reflexivity.
Qed.

Lemma apply_comp_merged s c : r_merged (apply_comp u s c) = r_merged s ++ [c].
Proof. reflexivity. Qed.

(* ---- a list of composites in an order that respects parents ---- *)
Lemma fold_apply_inv L : forall s, RInv s -> NoDup L -> (forall x, In x L -> ~ In x (r_merged s)) ->
  (forall L1 x L2, L = L1 ++ x :: L2 -> forall p, In p (parents u x) -> In p (r_merged s) \/ In p L1) ->
  RInv (fold_left (apply_comp u) L s) /\ r_merged (fold_left (apply_comp u) L s) = r_merged s ++ L.
Proof.
  induction L as [|x L IH]; intros s HI Hnd Hfresh Hpar; cbn [fold_left].
  - rewrite app_nil_r. auto.
  - inversion Hnd as [|? ? Hx HndL]; subst.
    assert (HI' : RInv (apply_comp u s x)).
    { apply apply_comp_inv; auto.
      - apply Hfresh; left; reflexivity.
      - intros p Hp. destruct (Hpar [] x L eq_refl p Hp) as [H|[]]; auto. }
    destruct (IH (apply_comp u s x) HI' HndL) as [HR HM].
    + intros y Hy. rewrite apply_comp_merged, in_app_iff. intros [H|[<-|[]]]; [eapply Hfresh; [right; exact Hy|exact H] | contradiction].
    + intros L1 y L2 E p Hp. subst L. rewrite apply_comp_merged, in_app_iff.
      destruct (Hpar (x :: L1) y L2 eq_refl p Hp) as [H|[<-|H]]; auto. left; right; left; reflexivity.
    + split; auto. rewrite HM, apply_comp_merged, <- app_assoc. reflexivity.
Qed.

(* ---- merged = ancestors of the heads ---- *)
Lemma anc_in_merged s : RInv s -> forall h b, In h (r_merged s) -> Anc h b -> In b (r_merged s).
Proof.
  intros HI h b Hh Ha. induction Ha as [b|b p a Hp Ha IH]; auto.
  apply IH. eapply (ri_down _ HI); eauto.
Qed.

Lemma height_le_max l x : In x l -> height u x <= max_height u l.
Proof.
  induction l as [|y l IH]; [intros []|]. cbn [max_height fold_right]. intros [->|H]; [lia|].
  specialize (IH H). unfold max_height in IH. lia.
Qed.

Lemma merged_has_head s : RInv s -> forall n b, S (max_height u (r_merged s)) - height u b = n ->
  In b (r_merged s) -> exists h, In h (r_heads s) /\ Anc h b.
Proof.
  intros HI n. induction n as [n IH] using lt_wf_ind. intros b Hn Hb.
  destruct (existsb (fun x => mem b (parents u x)) (r_merged s)) eqn:E.
  - apply existsb_exists in E. destruct E as [x [Hx Hbx]]. apply mem_In' in Hbx.
    pose proof (wfu _ _ Hbx) as Hlt. pose proof (height_le_max _ _ Hx) as Hle.
    destruct (IH (S (max_height u (r_merged s)) - height u x) ltac:(lia) x eq_refl Hx) as [h [Hh Ha]].
    exists h. split; auto. eapply Sweep.anc_trans; [exact Ha|]. econstructor; [exact Hbx|constructor].
  - exists b. split; [|constructor]. apply (ri_heads _ HI). split; auto.
    intros x Hx Hbx. assert (existsb (fun x => mem b (parents u x)) (r_merged s) = true).
    { apply existsb_exists. exists x; split; auto. apply mem_In'; auto. }
    congruence.
Qed.

(* Sweep's "Merged" (ancestor of a head) is exactly membership in the ghost merged list *)
Lemma merged_iff s : RInv s -> forall b, Sweep.Merged (parents u) (r_heads s) b <-> In b (r_merged s).
Proof.
  intros HI b. split.
  - intros [h [Hh Ha]]. apply (ri_heads _ HI) in Hh. destruct Hh as [Hh _]. eapply anc_in_merged; eauto.
  - intros Hb. eapply merged_has_head; eauto.
Qed.

Lemma ss_later l1 x l2 : StronglySorted (Sweep.hle (height u)) (l1 ++ x :: l2) ->
  forall y, In y l2 -> height u x <= height u y.
Proof.
  induction l1 as [|a l1 IH]; cbn [app]; intros H y Hy.
  - inversion H as [|? ? _ Hf]; subst. rewrite Forall_forall in Hf. apply Hf; auto.
  - inversion H; subst. apply IH; auto.
Qed.

(* ---- delivery ---- *)
Theorem deliver_inv s c : RInv s -> RInv (deliver u s c) /\
  (forall b, In b (r_merged (deliver u s c)) <-> (In b (r_merged s) \/ Anc c b)).
Proof.
  intros HI. unfold deliver, to_merge.
  destruct (mem c (r_heads s)) eqn:Ec.
  - cbn [fold_left]. split; auto. intros b. split; auto. intros [H|H]; auto.
    apply mem_In' in Ec. apply (ri_heads _ HI) in Ec. destruct Ec as [Ec _]. eapply anc_in_merged; eauto.
  - set (H := Nat.max (height u c) (max_height u (r_heads s))).
    assert (Hh : forall b, In b (r_heads s) -> height u b <= H) by (intros b Hb; pose proof (height_le_max _ _ Hb); lia).
    assert (Hc : height u c <= H) by lia.
    pose proof (Sweep.sweep_init (height u) (parents u) wfu hpos (r_heads s) c H Hh Hc) as Hex.
    destruct (Sweep.sweep_init_nodup_sorted (height u) (parents u) wfu (r_heads s) c H Hh Hc) as [Hnd Hss].
    set (L := sweep (height u) (parents u) H [c] (r_heads s) []) in *.
    destruct (fold_apply_inv L s HI Hnd) as [HR HM].
    + intros x Hx. apply Hex in Hx. destruct Hx as [_ Hn]. intros Hin. apply Hn. apply (merged_iff s HI); auto.
    + intros L1 x L2 E p Hp.
      assert (Hx : In x L) by (rewrite E, in_app_iff; right; left; reflexivity).
      apply Hex in Hx. destruct Hx as [Hax _].
      assert (Hap : Anc c p) by (eapply Sweep.anc_trans; [exact Hax|]; econstructor; [exact Hp|constructor]).
      destruct (in_dec Nat.eq_dec p (r_merged s)) as [Hm|Hm]; [left; auto|right].
      assert (HpL : In p L).
      { apply Hex. split; auto. intros Hmg. apply Hm. apply (merged_iff s HI); auto. }
      rewrite E in HpL. rewrite in_app_iff in HpL. destruct HpL as [HpL|[->|HpL]]; auto.
      * apply wfu in Hp. lia.
      * rewrite E in Hss. pose proof (ss_later L1 x L2 Hss p HpL). apply wfu in Hp. lia.
    + split; auto. intros b. rewrite HM, in_app_iff. split.
      * intros [Hb|Hb]; auto. apply Hex in Hb. right. exact (proj1 Hb).
      * intros [Hb|Hb]; auto. destruct (in_dec Nat.eq_dec b (r_merged s)) as [Hm|Hm]; auto.
        right. apply Hex. split; auto. intros Hmg. apply Hm. apply (merged_iff s HI); auto.
Qed.

(* ---- local write ---- *)
Theorem local_inv s c : RInv s -> local_ok u s c = true -> RInv (local u s c).
Proof.
  intros HI Hok. unfold local_ok in Hok. apply andb_prop in Hok. destruct Hok as [Hok Hfresh].
  apply andb_prop in Hok. destruct Hok as [Hsame _].
  apply apply_comp_inv; auto.
  - intros Hin. apply negb_true_iff in Hfresh. apply mem_In' in Hin. congruence.
  - intros p Hp. unfold same_set in Hsame. apply andb_prop in Hsame. destruct Hsame as [H1 _].
    rewrite forallb_forall in H1. specialize (H1 p Hp). apply mem_In' in H1.
    apply (ri_heads _ HI) in H1. exact (proj1 H1).
Qed.

(* ---- every reachable state ---- *)
Inductive op := OLocal (c : nat) | ODeliver (c : nat).
Definition step (s : rstate) (o : op) : rstate :=
  match o with
  | OLocal c => if local_ok u s c then local u s c else s     (* a write that is not on top of the heads is not a local write *)
  | ODeliver c => deliver u s c
  end.

Theorem reachable_inv ops : RInv (fold_left step ops rinit).
Proof.
  assert (G : forall s, RInv s -> RInv (fold_left step ops s)).
  { induction ops as [|o l IH]; intros s HI; cbn [fold_left]; auto. apply IH.
    destruct o as [c|c]; cbn [step].
    - destruct (local_ok u s c) eqn:E; auto. apply local_inv; auto.
    - apply (deliver_inv s c HI). }
  apply G. apply rinv_init.
Qed.

(* ---- convergence: the observable state is a function of the SET of merged commits ---- *)
Theorem same_merged_same_state s1 s2 : RInv s1 -> RInv s2 ->
  (forall b, In b (r_merged s1) <-> In b (r_merged s2)) ->
  vs_eq (r_vs s1) (r_vs s2) /\ (forall b, In b (r_heads s1) <-> In b (r_heads s2)).
Proof.
  intros H1 H2 Hset. split.
  - rewrite (ri_vs _ H1), (ri_vs _ H2), !fold_comp_blocks.
    apply blocks_perm. unfold blocks_of. apply Permutation_flat_map.
    apply NoDup_Permutation; [apply (ri_nodup _ H1) | apply (ri_nodup _ H2) | exact Hset].
  - intros b. rewrite (ri_heads _ H1), (ri_heads _ H2). unfold maximal. rewrite Hset.
    split; intros [Hb Hm]; split; auto; intros x Hx; apply Hm; apply Hset; auto.
Qed.

End Conv.
