package main

// Engine "query" (C08): generated collections (ties, nulls, edge values) and generated queries (filter trees over
// comparison / membership / like operators, _and/_or/_not, ordering, limit/offset, aggregates) executed on a real
// node. Direct oracles (metamorphic, no model): partition by _not, _and = intersection, _or = union, limit/offset =
// slice of the unlimited result, ordered results sorted by every key (F7), _count/_sum/_min/_max/_avg = arithmetic
// over the listed values. Every query with its observed result is written as a Coq case (Query/Sem.v).
// A separate stream of malformed request strings checks that nothing panics or hangs.

import (
	"context"
	"fmt"
	"math"
	"os"
	"sort"
	"strings"
	"time"

	"github.com/sourcenetwork/defradb/client"
)

type qfield struct {
	name string
	kind string // str int flt bool
}

var qFields = []qfield{{"name", "str"}, {"cat", "str"}, {"qty", "int"}, {"price", "flt"}, {"ok", "bool"}}

const querySchema = `type Item { name: String cat: String qty: Int price: Float ok: Boolean }`

type qval struct {
	null bool
	s    string
	i    int64
	f8   int64 // float scaled by 8
	b    bool
	kind string
}

func (v qval) gql() string {
	if v.null {
		return "null"
	}
	switch v.kind {
	case "str":
		return fmt.Sprintf("%q", v.s)
	case "int":
		return fmt.Sprint(v.i)
	case "flt":
		return fmt.Sprintf("%v", float64(v.f8)/8)
	case "bool":
		return fmt.Sprint(v.b)
	}
	panic("kind")
}
func (v qval) coq() string {
	if v.null {
		return "VNull"
	}
	switch v.kind {
	case "str":
		return "(VStr " + zlist([]byte(v.s)) + ")"
	case "int":
		return "(VInt " + zint(v.i) + ")"
	case "flt":
		return "(VFlt " + zint(v.f8) + ")"
	case "bool":
		return "(VBool " + coqBool(v.b) + ")"
	}
	panic("kind")
}

var qStrPool = []string{"a", "ab", "abc", "b", "B", "", "ba", "zz", "Ab"}

func genQval(r *Rng, kind string, nullPct int) qval {
	if r.Chance(nullPct) {
		return qval{null: true, kind: kind}
	}
	switch kind {
	case "str":
		return qval{kind: kind, s: Pick(r, qStrPool)}
	case "int":
		return qval{kind: kind, i: int64(r.Intn(7) - 3)}
	case "flt":
		return qval{kind: kind, f8: int64(r.Intn(33) - 16)}
	default:
		return qval{kind: kind, b: r.Bool()}
	}
}

// ---- filter AST
type qfilter struct {
	op    string // true field and or not
	field int
	cond  qcond
	subs  []*qfilter
}
type qcond struct {
	op   string // _eq _ne _gt _ge _lt _le _in _nin _like _nlike _ilike _nilike
	v    qval
	list []qval
	pat  string
}

func likeClass(p string) string {
	// mirror of the pre-classification used by the model (position of '%')
	hasPrefix, hasSuffix := false, false
	cn := p
	var parts []string
	if len(cn) >= 2 {
		if cn[0] == '%' {
			hasPrefix = true
			cn = strings.TrimPrefix(cn, "%")
		}
		if cn[len(cn)-1] == '%' {
			hasSuffix = true
			cn = strings.TrimSuffix(cn, "%")
		}
		if !hasPrefix && !hasSuffix {
			parts = strings.Split(cn, "%")
		}
	}
	switch {
	case hasPrefix && hasSuffix:
		return "(LContains " + zlist([]byte(cn)) + ")"
	case hasPrefix:
		return "(LSuffix " + zlist([]byte(cn)) + ")"
	case hasSuffix:
		return "(LPrefix " + zlist([]byte(cn)) + ")"
	case len(parts) == 2:
		return "(LPrefSuf " + zlist([]byte(parts[0])) + " " + zlist([]byte(parts[1])) + ")"
	}
	return "(LExact " + zlist([]byte(cn)) + ")"
}

func (c qcond) gql() string {
	switch c.op {
	case "_in", "_nin":
		var xs []string
		for _, v := range c.list {
			xs = append(xs, v.gql())
		}
		return c.op + ": [" + strings.Join(xs, ", ") + "]"
	case "_like", "_nlike", "_ilike", "_nilike":
		return fmt.Sprintf("%s: %q", c.op, c.pat)
	}
	return c.op + ": " + c.v.gql()
}
func (c qcond) coq() string {
	ops := map[string]string{"_eq": "OEq", "_ne": "ONe", "_gt": "OGt", "_ge": "OGe", "_lt": "OLt", "_le": "OLe"}
	switch c.op {
	case "_in", "_nin":
		var xs []string
		for _, v := range c.list {
			xs = append(xs, v.coq())
		}
		k := "CIn"
		if c.op == "_nin" {
			k = "CNin"
		}
		return "(" + k + " [" + strings.Join(xs, ";") + "])"
	case "_like":
		return "(CLike " + likeClass(c.pat) + " false false)"
	case "_nlike":
		return "(CLike " + likeClass(c.pat) + " true false)"
	case "_ilike":
		return "(CLike " + likeClass(strings.ToLower(c.pat)) + " false true)"
	case "_nilike":
		return "(CLike " + likeClass(strings.ToLower(c.pat)) + " true true)"
	}
	return "(CCmp " + ops[c.op] + " " + c.v.coq() + ")"
}

func (f *qfilter) gql() string {
	switch f.op {
	case "true":
		return "{}"
	case "field":
		return "{" + qFields[f.field].name + ": {" + f.cond.gql() + "}}"
	case "and", "or":
		var xs []string
		for _, s := range f.subs {
			xs = append(xs, s.gql())
		}
		return "{_" + f.op + ": [" + strings.Join(xs, ", ") + "]}"
	case "not":
		return "{_not: " + f.subs[0].gql() + "}"
	}
	panic("op")
}
func (f *qfilter) coq() string {
	switch f.op {
	case "true":
		return "FTrue"
	case "field":
		return fmt.Sprintf("(FField %d %s)", f.field, f.cond.coq())
	case "and", "or":
		var xs []string
		for _, s := range f.subs {
			xs = append(xs, s.coq())
		}
		k := "FAnd"
		if f.op == "or" {
			k = "FOr"
		}
		return "(" + k + " [" + strings.Join(xs, ";") + "])"
	case "not":
		return "(FNot " + f.subs[0].coq() + ")"
	}
	panic("op")
}

var qPatterns = []string{"a%", "%b", "%a%", "ab", "a%c", "%", "%%", "", "A%", "%B%", "b", "a%b%c", "A%b", "a%B", "A%C"}

func genCond(r *Rng, kind string) qcond {
	switch kind {
	case "str":
		switch r.Intn(8) {
		case 0:
			return qcond{op: "_eq", v: genQval(r, kind, 20)}
		case 1:
			return qcond{op: "_ne", v: genQval(r, kind, 20)}
		case 2:
			return qcond{op: Pick(r, []string{"_in", "_nin"}), list: []qval{genQval(r, kind, 20), genQval(r, kind, 20)}}
		default:
			return qcond{op: Pick(r, []string{"_like", "_nlike", "_ilike", "_nilike"}), pat: Pick(r, qPatterns)}
		}
	case "bool":
		return qcond{op: Pick(r, []string{"_eq", "_ne"}), v: genQval(r, kind, 20)}
	default:
		if r.Chance(20) {
			n := 1 + r.Intn(3)
			var l []qval
			for i := 0; i < n; i++ {
				l = append(l, genQval(r, kind, 15))
			}
			return qcond{op: Pick(r, []string{"_in", "_nin"}), list: l}
		}
		op := Pick(r, []string{"_eq", "_ne", "_gt", "_ge", "_lt", "_le"})
		nullPct := 0
		if op == "_eq" || op == "_ne" {
			nullPct = 20
		}
		v := genQval(r, kind, nullPct)
		if kind == "flt" && r.Chance(30) && !v.null {
			v = qval{kind: "int", i: int64(r.Intn(5) - 2)} // an integer literal against a float field
		}
		return qcond{op: op, v: v}
	}
}

func genFilter(r *Rng, depth int) *qfilter {
	if depth <= 0 || r.Chance(45) {
		f := r.Intn(len(qFields))
		return &qfilter{op: "field", field: f, cond: genCond(r, qFields[f].kind)}
	}
	switch r.Intn(5) {
	case 0:
		return &qfilter{op: "not", subs: []*qfilter{genFilter(r, depth-1)}}
	case 1, 2:
		n := 1 + r.Intn(3)
		f := &qfilter{op: "and"}
		for i := 0; i < n; i++ {
			f.subs = append(f.subs, genFilter(r, depth-1))
		}
		return f
	default:
		n := 1 + r.Intn(3)
		f := &qfilter{op: "or"}
		for i := 0; i < n; i++ {
			f.subs = append(f.subs, genFilter(r, depth-1))
		}
		return f
	}
}

type qorder struct {
	field int
	desc  bool
}

type qdoc struct {
	id   string
	idx  int
	vals []qval
}

func rowToVals(row map[string]any) []qval {
	vals := make([]qval, len(qFields))
	for i, f := range qFields {
		switch v := row[f.name].(type) {
		case nil:
			vals[i] = qval{null: true, kind: f.kind}
		case string:
			vals[i] = qval{kind: "str", s: v}
		case int64:
			vals[i] = qval{kind: "int", i: v}
		case float64:
			vals[i] = qval{kind: "flt", f8: int64(math.Round(v * 8))}
		case bool:
			vals[i] = qval{kind: "bool", b: v}
		}
	}
	return vals
}

func coqDocs(docs []qdoc) string {
	var ds []string
	for _, d := range docs {
		var vs []string
		for _, v := range d.vals {
			vs = append(vs, v.coq())
		}
		ds = append(ds, fmt.Sprintf("(%d%%nat, [%s])", d.idx, strings.Join(vs, ";")))
	}
	return "[" + strings.Join(ds, ";\n   ") + "]"
}

const itemSel = `_docID name cat qty price ok`

type queryWorld struct {
	x    *Nd
	ctx  context.Context
	docs []qdoc
	byID map[string]int
	col  string
}

func (w *queryWorld) run(args string) ([]int, string) {
	q := fmt.Sprintf(`query { %s%s { %s } }`, w.col, args, itemSel)
	data, errs := w.x.gql(w.ctx, q)
	if errs != "" {
		return nil, errs
	}
	var ids []int
	for _, row := range rowsOf(data, w.col) {
		ids = append(ids, w.byID[fmt.Sprint(row["_docID"])])
	}
	return ids, ""
}

func argsOf(f *qfilter, order []qorder, limit, offset int) string {
	var parts []string
	if f != nil {
		parts = append(parts, "filter: "+f.gql())
	}
	if len(order) > 0 {
		var os []string
		for _, o := range order {
			dir := "ASC"
			if o.desc {
				dir = "DESC"
			}
			os = append(os, fmt.Sprintf("{%s: %s}", qFields[o.field].name, dir))
		}
		parts = append(parts, "order: ["+strings.Join(os, ", ")+"]")
	}
	if limit > 0 {
		parts = append(parts, fmt.Sprintf("limit: %d", limit))
	}
	if offset > 0 {
		parts = append(parts, fmt.Sprintf("offset: %d", offset))
	}
	if len(parts) == 0 {
		return ""
	}
	return "(" + strings.Join(parts, ", ") + ")"
}

func cmpQval(a, b qval) int {
	switch {
	case a.null && b.null:
		return 0
	case a.null:
		return -1
	case b.null:
		return 1
	}
	num := func(v qval) (int64, bool) {
		switch v.kind {
		case "int":
			return 8 * v.i, true
		case "flt":
			return v.f8, true
		}
		return 0, false
	}
	if x, ok := num(a); ok {
		y, _ := num(b)
		switch {
		case x < y:
			return -1
		case x > y:
			return 1
		}
		return 0
	}
	switch a.kind {
	case "str":
		return strings.Compare(a.s, b.s)
	case "bool":
		x, y := 0, 0
		if a.b {
			x = 1
		}
		if b.b {
			y = 1
		}
		return x - y
	}
	return 0
}

func setOf(ids []int) map[int]bool {
	m := map[int]bool{}
	for _, i := range ids {
		m[i] = true
	}
	return m
}
func sortedInts(ids []int) []int {
	o := append([]int{}, ids...)
	sort.Ints(o)
	return o
}

func engQuery(e *Env) {
	ctx := context.Background()
	r := NewRng(e.Seed)
	e.Res.Rule = "collections of 6-18 documents over String/Int/Float/Boolean fields with nulls and many ties; queries = filter trees of depth <= 3 (_eq _ne _gt _ge _lt _le _in _nin _like _nlike _ilike _nilike, _and _or _not), 0-2 order keys, limit, offset; aggregates _count _sum _avg _min _max with filters; distinct = distinct (collection, request); non-trivial = the filter is neither always-true nor always-false on the collection; plus a stream of malformed request strings"
	nColl, nQ, nAgg, nMal, nGroup := 6, 110, 25, 300, 12
	if e.thorough() {
		nColl, nQ, nAgg, nMal, nGroup = 60, 400, 80, 20000, 60
	}
	if e.N > 0 {
		nQ = e.N
	}
	x := newNd(ctx, "Q")
	x.noEvents()
	defer x.close(ctx)
	var qcases, acases []string
	constant := 0
	total := 0
	for c := 0; c < nColl; c++ {
		col := fmt.Sprintf("Item%d", c)
		x.addSchema(ctx, strings.Replace(querySchema, "Item", col, 1))
		w := &queryWorld{x: x, ctx: ctx, byID: map[string]int{}, col: col}
		n := 6 + r.Intn(13)
		for i := 0; i < n; i++ {
			var fs []string
			for _, f := range qFields {
				v := genQval(r, f.kind, 18)
				if v.null && r.Bool() {
					continue // omitted
				}
				fs = append(fs, f.name+": "+v.gql())
			}
			if len(fs) == 0 {
				fs = append(fs, "qty: 0")
			}
			_, errs := x.gql(ctx, fmt.Sprintf(`mutation { create_%s(input: {%s}) { _docID } }`, col, strings.Join(fs, ", ")))
			if errs != "" && !strings.Contains(errs, "already exists") {
				e.violate("create-error", errs, nil)
			}
		}
		data, errs := x.gql(ctx, fmt.Sprintf(`query { %s { %s } }`, col, itemSel))
		if errs != "" {
			e.violate("query-error", errs, nil)
			continue
		}
		for i, row := range rowsOf(data, col) {
			id := fmt.Sprint(row["_docID"])
			w.byID[id] = i
			w.docs = append(w.docs, qdoc{id: id, idx: i, vals: rowToVals(row)})
		}
		all := make([]int, len(w.docs))
		for i := range all {
			all[i] = i
		}
		docsCoq := coqDocs(w.docs)
		replayOf := func(args string) map[string]any {
			var ds []string
			for _, d := range w.docs {
				var vs []string
				for i, v := range d.vals {
					vs = append(vs, qFields[i].name+"="+v.gql())
				}
				ds = append(ds, strings.Join(vs, " "))
			}
			return map[string]any{"documents_in_scan_order": ds, "request_args": args}
		}
		for qi := 0; qi < nQ; qi++ {
			f := genFilter(r, 3)
			var order []qorder
			for k := r.Intn(3); k > 0; k-- {
				order = append(order, qorder{r.Intn(len(qFields)), r.Bool()})
			}
			limit, offset := 0, 0
			if r.Chance(35) {
				limit = 1 + r.Intn(5)
			}
			if r.Chance(25) {
				offset = r.Intn(4)
			}
			args := argsOf(f, order, limit, offset)
			got, errs := w.run(args)
			e.Res.Evaluations++
			total++
			if errs != "" {
				e.violate("query-error", fmt.Sprintf("%s%s: %s", col, args, errs), replayOf(args))
				continue
			}
			e.count(fmt.Sprintf("order_keys_%d", len(order)))
			// ---- metamorphic oracles
			full, _ := w.run(argsOf(f, nil, 0, 0))
			neg, _ := w.run(argsOf(&qfilter{op: "not", subs: []*qfilter{f}}, nil, 0, 0))
			if len(full) == 0 || len(full) == len(w.docs) {
				constant++
			} else {
				e.distinct(col + args)
			}
			fs, ns := setOf(full), setOf(neg)
			for _, i := range all {
				if fs[i] == ns[i] {
					e.violate("filter-partition", fmt.Sprintf("%s: document %d is in both or in neither of filter and _not filter: %s", col, i, f.gql()), replayOf(args))
					break
				}
			}
			if f.op == "and" || f.op == "or" {
				comb := map[int]bool{}
				if f.op == "and" {
					for _, i := range all {
						comb[i] = true
					}
				}
				for _, s := range f.subs {
					part, _ := w.run(argsOf(s, nil, 0, 0))
					ps := setOf(part)
					for _, i := range all {
						if f.op == "and" {
							comb[i] = comb[i] && ps[i]
						} else {
							comb[i] = comb[i] || ps[i]
						}
					}
				}
				for _, i := range all {
					if comb[i] != fs[i] {
						e.violate("filter-compose", fmt.Sprintf("%s: _%s is not the %s of its parts for document %d: %s", col, f.op, map[string]string{"and": "intersection", "or": "union"}[f.op], i, f.gql()), replayOf(args))
						break
					}
				}
			}
			// order: sorted by every key (documented semantics)
			if len(order) > 0 {
				unl, _ := w.run(argsOf(f, order, 0, 0))
				if fmt.Sprint(sortedInts(unl)) != fmt.Sprint(sortedInts(full)) {
					e.violate("order-multiset", fmt.Sprintf("%s%s: ordering changed the set of documents", col, args), replayOf(args))
				}
				for i := 0; i+1 < len(unl); i++ {
					a, b := w.docs[unl[i]], w.docs[unl[i+1]]
					c := 0
					firstKeyOnly := true
					for k, o := range order {
						c = cmpQval(a.vals[o.field], b.vals[o.field])
						if o.desc {
							c = -c
						}
						if c != 0 {
							firstKeyOnly = k == 0
							break
						}
					}
					if c > 0 {
						kind := "order-secondary-key"
						if firstKeyOnly {
							kind = "order-first-key"
						}
						e.violate(kind, fmt.Sprintf("%s%s: rows %d and %d are out of order", col, argsOf(f, order, 0, 0), i, i+1), replayOf(args))
						break
					}
				}
				// limit/offset = slice of the unlimited ordered result
				lo := min(offset, len(unl))
				hi := len(unl)
				if limit > 0 {
					hi = min(lo+limit, len(unl))
				}
				if fmt.Sprint(got) != fmt.Sprint(unl[lo:hi]) {
					e.violate("slice", fmt.Sprintf("%s%s returned %v, the slice [%d:%d] of the unlimited ordered result is %v", col, args, got, lo, hi, unl[lo:hi]), replayOf(args))
				}
			} else {
				lo := min(offset, len(full))
				hi := len(full)
				if limit > 0 {
					hi = min(lo+limit, len(full))
				}
				if fmt.Sprint(got) != fmt.Sprint(full[lo:hi]) {
					e.violate("slice", fmt.Sprintf("%s%s returned %v, the slice [%d:%d] of the unlimited result is %v", col, args, got, lo, hi, full[lo:hi]), replayOf(args))
				}
			}
			// ---- Coq case
			var os []string
			for _, o := range order {
				os = append(os, fmt.Sprintf("(%d%%nat,%s)", o.field, coqBool(o.desc)))
			}
			var gs []string
			for _, i := range got {
				gs = append(gs, fmt.Sprint(i))
			}
			if qi < nQ*2/3 {
				qcases = append(qcases, fmt.Sprintf("QCase D%d (mkQy %s [%s] %d %d) [%s]%%nat", c, f.coq(), strings.Join(os, ";"), offset, limit, strings.Join(gs, ";")))
			}
			if qi == 0 && c < 2 {
				e.sample(map[string]any{"request": col + args, "result_doc_indexes": got, "documents": len(w.docs)})
			}
		}
		// ---- aggregates
		for ai := 0; ai < nAgg; ai++ {
			f := genFilter(r, 2)
			fld := 2 + r.Intn(2) // qty or price
			if ai%5 == 4 {
				// a condition on the aggregated field itself (the planner adds its own not-null condition there)
				f = &qfilter{op: "field", field: fld, cond: genCond(r, qFields[fld].kind)}
			}
			rows, _ := w.run(argsOf(f, nil, 0, 0))
			var nums []float64
			var sum8 int64
			for _, i := range rows {
				v := w.docs[i].vals[fld]
				if v.null {
					continue
				}
				if v.kind == "int" {
					nums = append(nums, float64(v.i))
					sum8 += 8 * v.i
				} else {
					nums = append(nums, float64(v.f8)/8)
					sum8 += v.f8
				}
			}
			fname := qFields[fld].name
			q := fmt.Sprintf(`query { c: _count(%s: {filter: %s}) s: _sum(%s: {field: %s, filter: %s}) a: _avg(%s: {field: %s, filter: %s}) mn: _min(%s: {field: %s, filter: %s}) mx: _max(%s: {field: %s, filter: %s}) }`,
				col, f.gql(), col, fname, f.gql(), col, fname, f.gql(), col, fname, f.gql(), col, fname, f.gql())
			data, errs := x.gql(ctx, q)
			e.Res.Evaluations++
			e.count("aggregate")
			if errs != "" {
				e.violate("aggregate-error", errs, map[string]any{"request": q})
				continue
			}
			toF := func(v any) (float64, bool) {
				switch t := v.(type) {
				case int64:
					return float64(t), true
				case int:
					return float64(t), true
				case float64:
					return t, true
				case nil:
					return 0, false
				}
				return math.NaN(), true
			}
			cnt, _ := toF(data["c"])
			if int(cnt) != len(rows) {
				e.violate("aggregate-count", fmt.Sprintf("_count = %v, the filter returns %d documents: %s", data["c"], len(rows), f.gql()), map[string]any{"request": q})
			}
			sm, _ := toF(data["s"])
			if sm != float64(sum8)/8 {
				e.violate("aggregate-sum", fmt.Sprintf("_sum(%s) = %v, the listed values add up to %v: %s", fname, data["s"], float64(sum8)/8, f.gql()), map[string]any{"request": q})
			}
			av, _ := toF(data["a"])
			wantAvg := 0.0
			if len(nums) > 0 {
				wantAvg = (float64(sum8) / 8) / float64(len(nums))
			}
			if av != wantAvg {
				e.violate("aggregate-avg", fmt.Sprintf("_avg(%s) = %v, sum/count of the listed values is %v: %s", fname, data["a"], wantAvg, f.gql()), map[string]any{"request": q})
			}
			mn, okmn := toF(data["mn"])
			mx, okmx := toF(data["mx"])
			if len(nums) == 0 {
				if okmn || okmx {
					e.violate("aggregate-minmax", fmt.Sprintf("_min/_max over no values = %v/%v", data["mn"], data["mx"]), map[string]any{"request": q})
				}
			} else {
				lo, hi := nums[0], nums[0]
				for _, v := range nums {
					lo, hi = math.Min(lo, v), math.Max(hi, v)
				}
				if !okmn || !okmx || mn != lo || mx != hi {
					e.violate("aggregate-minmax", fmt.Sprintf("_min/_max(%s) = %v/%v, of the listed values %v/%v: %s", fname, data["mn"], data["mx"], lo, hi, f.gql()), map[string]any{"request": q})
				}
			}
			optZ := func(v float64, ok bool) string {
				if !ok {
					return "None"
				}
				return "(Some " + zint(int64(math.Round(v*8))) + ")"
			}
			acases = append(acases, fmt.Sprintf("ACase D%d %s %d%%nat %d %s %s %s", c, f.coq(), fld, int64(cnt), zint(int64(math.Round(sm*8))), optZ(mn, okmn), optZ(mx, okmx)))
		}
		// group by: counts per group
		gdata, gerr := x.gql(ctx, fmt.Sprintf(`query { %s(groupBy: [cat]) { cat _count(_group: {}) } }`, col))
		if gerr != "" {
			e.violate("groupby-error", gerr, nil)
		} else {
			want := map[string]int{}
			for _, d := range w.docs {
				want[d.vals[1].gql()]++
			}
			gotG := map[string]int{}
			for _, row := range rowsOf(gdata, col) {
				k := "null"
				if s, ok := row["cat"].(string); ok {
					k = fmt.Sprintf("%q", s)
				}
				n, _ := row["_count"].(int64)
				if n2, ok := row["_count"].(int); ok {
					n = int64(n2)
				}
				gotG[k] += int(n)
			}
			if fmt.Sprint(want) != fmt.Sprint(gotG) {
				e.violate("groupby-count", fmt.Sprintf("%s groupBy cat: %v, expected %v", col, gotG, want), nil)
			}
			e.count("groupby")
		}
		// group by with a rendered, filtered, sliced _group and aggregates over _group with a wider filter: every group is
		// compared with plain filtered queries (which are themselves compared with the model above)
		for gi := 0; gi < nGroup; gi++ {
			f1 := &qfilter{op: "field", field: 2 + r.Intn(2)}
			f1.cond = genCond(r, qFields[f1.field].kind)
			f2 := &qfilter{op: "field", field: 4 * r.Intn(2)} // name or ok
			f2.cond = genCond(r, qFields[f2.field].kind)
			inner := func(f *qfilter) string { g := f.gql(); return g[1 : len(g)-1] }
			f12 := "{" + inner(f1) + ", " + inner(f2) + "}"
			limit, offset := r.Intn(4), r.Intn(5)
			if gi%2 == 0 {
				limit, offset = 0, 0 // the aggregate and the rendered group then differ in their filters only
			}
			slice := ""
			if limit > 0 {
				slice += fmt.Sprintf(", limit: %d", limit)
			}
			if offset > 0 {
				slice += fmt.Sprintf(", offset: %d", offset)
			}
			q := fmt.Sprintf(`query { %s(groupBy: [cat]) { cat _group(filter: %s%s) { _docID } c: _count(_group: {filter: %s}) s: _sum(_group: {field: qty, filter: %s}) } }`, col, f1.gql(), slice, f12, f12)
			gd, gerr := x.gql(ctx, q)
			e.Res.Evaluations++
			e.count("groupby_rendered")
			if gerr != "" {
				e.violate("groupby-error", gerr, map[string]any{"request": q})
				continue
			}
			for _, row := range rowsOf(gd, col) {
				catLit := "null"
				if sv, ok := row["cat"].(string); ok {
					catLit = fmt.Sprintf("%q", sv)
				}
				members, e1 := w.run(fmt.Sprintf(`(filter: {_and: [{cat: {_eq: %s}}, %s]})`, catLit, f1.gql()))
				wide, e2 := w.run(fmt.Sprintf(`(filter: {_and: [{cat: {_eq: %s}}, %s]})`, catLit, f12))
				if e1 != "" || e2 != "" {
					continue
				}
				lo, hi := offset, len(members)
				if lo > len(members) {
					lo = len(members)
				}
				if limit > 0 && lo+limit < hi {
					hi = lo + limit
				}
				wantIDs := sortedInts(append([]int{}, members[lo:hi]...))
				var gotIDs []int
				for _, m := range rowsOf(row, "_group") {
					gotIDs = append(gotIDs, w.byID[fmt.Sprint(m["_docID"])])
				}
				// the members of a group come in scan order: compare as the same slice of the same order
				if fmt.Sprint(gotIDs) != fmt.Sprint(members[lo:hi]) && fmt.Sprint(sortedInts(append([]int{}, gotIDs...))) != fmt.Sprint(wantIDs) {
					e.violate("groupby-members", fmt.Sprintf("group cat=%s: _group(filter, limit %d, offset %d) lists documents %v, the filtered members are %v (slice %v)", catLit, limit, offset, gotIDs, members, members[lo:hi]), map[string]any{"request": q})
				}
				var wantSum int64
				for _, i := range wide {
					if v := w.docs[i].vals[2]; !v.null {
						wantSum += v.i
					}
				}
				gotC, _ := numOf(row["c"])
				gotS, _ := numOf(row["s"])
				if int(gotC) != len(wide) || int64(gotS) != wantSum {
					e.violate("groupby-aggregate", fmt.Sprintf("group cat=%s: _count/_sum over _group with filter %s = %v/%v, the documents matching that filter in the group give %d/%d", catLit, f12, row["c"], row["s"], len(wide), wantSum), map[string]any{"request": q})
				}
			}
		}
		// the documents of this collection as a Coq definition shared by its cases
		qcases = append([]string{fmt.Sprintf("DOCS D%d %s", c, docsCoq)}, qcases...)
	}
	e.count(fmt.Sprintf("constant_filters_%dpct", 100*constant/max(total, 1)))
	malformedStream(e, ctx, x, r, nMal)
	bigSumWitness(e, ctx, x)
	manyCollections(e, ctx, r)
	writeQueryCases(e, qcases, acases)
}

// manyCollections: a node with 12-14 collections added one by one, whose field names overlap but sit at different
// positions; every document must read back exactly what was written, in every collection (identifiers of
// collections and fields are short numbers; 1 is a prefix of 10, 11, ...).
func manyCollections(e *Env, ctx context.Context, r *Rng) {
	x := newNd(ctx, "M")
	x.noEvents()
	defer x.close(ctx)
	pool := []string{"aaa", "bbb", "ccc", "ddd", "eee"}
	n := 12 + r.Intn(3)
	fieldsOf := make([][]string, n)
	for i := 0; i < n; i++ {
		fs := append([]string{}, pool...)
		switch {
		case i == 0:
			// all fields, in pool order
		case i >= 9:
			// a single field that collection 0 has at another position: if the two collections were confused, two
			// fields of collection 0 would share one slot
			fs = []string{pool[1+(i-9)%4]}
		default:
			Shuffle(r, fs)
			fs = fs[:1+r.Intn(len(fs))]
		}
		fieldsOf[i] = fs
		var decl []string
		for _, f := range fs {
			decl = append(decl, f+": String")
		}
		x.addSchema(ctx, fmt.Sprintf("type Mc%d { %s }", i, strings.Join(decl, " ")))
	}
	for i := 0; i < n; i++ {
		var in, sel []string
		want := map[string]any{}
		for _, f := range fieldsOf[i] {
			v := fmt.Sprintf("c%d-%s", i, f)
			in = append(in, fmt.Sprintf(`%s: "%s"`, f, v))
			sel = append(sel, f)
			want[f] = v
		}
		if _, errs := x.gql(ctx, fmt.Sprintf(`mutation { create_Mc%d(input: {%s}) { _docID } }`, i, strings.Join(in, ", "))); errs != "" {
			e.violate("harness-query", "manyCollections create: "+errs, nil)
			continue
		}
		fieldsOf[i] = sel
	}
	for i := 0; i < n; i++ {
		q := fmt.Sprintf(`query { Mc%d { %s } }`, i, strings.Join(fieldsOf[i], " "))
		d, errs := x.gql(ctx, q)
		rows := rowsOf(d, fmt.Sprintf("Mc%d", i))
		e.Res.Evaluations++
		ok := errs == "" && len(rows) == 1
		if ok {
			for _, f := range fieldsOf[i] {
				if fmt.Sprint(rows[0][f]) != fmt.Sprintf("c%d-%s", i, f) {
					ok = false
				}
			}
		}
		if !ok {
			e.violate("field-mixup", fmt.Sprintf("collection %d of %d (fields %v): %s returns %s %s, every field f was written as c%d-f", i, n, fieldsOf[i], q, canonJSON(d), errs, i), map[string]any{"collections": fieldsOf})
		}
	}
	e.count("many_collections_worlds")
}

// bigSumWitness: _sum over Int values whose total exceeds 2^53 (values of that size can only be written through the
// document API, GraphQL Int literals are 32 bit).
func bigSumWitness(e *Env, ctx context.Context, x *Nd) {
	x.addSchema(ctx, `type BigSum { v: Int }`)
	col := getCol(ctx, x, "BigSum")
	vals := []int64{9007199254740992, 1, 3, 5}
	exact := int64(0)
	for _, v := range vals {
		doc, err := client.NewDocFromJSON([]byte(fmt.Sprintf(`{"v": %d}`, v)), col.Definition())
		if err == nil {
			err = col.Create(ctx, doc)
		}
		if err != nil {
			e.violate("harness-query", "BigSum create: "+err.Error(), nil)
			return
		}
		exact += v
	}
	q := `query { _sum(BigSum: {field: v}) }`
	d, errs := x.gql(ctx, q)
	e.Res.Evaluations++
	if errs != "" {
		e.violate("aggregate-error", errs, map[string]any{"request": q})
		return
	}
	if fmt.Sprint(d["_sum"]) != fmt.Sprint(exact) {
		e.violate("aggregate-sum-precision", fmt.Sprintf("_sum of the Int values %v = %v, the integers add up to %d", vals, d["_sum"], exact), map[string]any{"request": q, "values": vals})
	}
}

// writeQueryCases writes the case file with one Definition per collection.
func writeQueryCases(e *Env, qcases, acases []string) {
	var defs, items []string
	for _, c := range qcases {
		if strings.HasPrefix(c, "DOCS ") {
			parts := strings.SplitN(c[5:], " ", 2)
			defs = append(defs, fmt.Sprintf("Definition %s : list (nat * doc) := %s.", parts[0], parts[1]))
		} else {
			items = append(items, c)
		}
	}
	items = append(items, acases...)
	const shard = 600
	for i := 0; i*shard < len(items) || i == 0; i++ {
		lo, hi := i*shard, min((i+1)*shard, len(items))
		var sb strings.Builder
		sb.WriteString("From Coq Require Import List ZArith Bool.\nFrom Verif Require Import CorrC08.\nImport ListNotations.\nOpen Scope Z_scope.\n")
		sb.WriteString(strings.Join(defs, "\n") + "\n")
		sb.WriteString("Definition cases : list qcase := [\n" + strings.Join(items[lo:hi], ";\n") + "\n].\nDefinition M := Eval vm_compute in (mismatches cases).\nPrint M.\n")
		fn := fmt.Sprintf("%s/cases_C08_%d.v", e.Out, i)
		writeFile(fn, sb.String())
		writeFile(fmt.Sprintf("%s/cases_C08_%d.items", e.Out, i), strings.Join(items[lo:hi], "\n"))
		e.Res.CaseFiles = append(e.Res.CaseFiles, fn)
		if hi >= len(items) {
			break
		}
	}
	e.Res.NCases += len(items)
}

// malformedStream: request strings that are not well formed must yield data or an error, never a panic or a hang.
func malformedStream(e *Env, ctx context.Context, x *Nd, r *Rng, n int) {
	seeds := []string{
		`query { Item0(filter: {qty: {_gt: 1}}, order: {name: ASC}, limit: 2) { _docID name qty } }`,
		`query { Item0(groupBy: [cat]) { cat _count(_group: {}) _group { qty } } }`,
		`query { _sum(Item0: {field: qty, filter: {ok: {_eq: true}}}) }`,
		`mutation { create_Item0(input: {name: "x", qty: 1}) { _docID } }`,
		`mutation { update_Item0(filter: {qty: {_in: [1, 2]}}, input: {cat: "z"}) { _docID } }`,
		`query { commits { cid height fieldName links { cid name } } }`,
		`query { latestCommits(docID: "bae-00000000-0000-5000-8000-000000000000") { cid } }`,
		`query { Item0(cid: "bafybeiaaaaaaaaaaaaaaaaaaaaaaaaaaaaaaaaaaaaaaaaaaaaaaaaaaaa", docID: "bae-x") { name } }`,
		`subscription { Item0(filter: {qty: {_gt: 0}}) { name } }`,
		`query { Item0(filter: {_and: [{_or: [{_not: {qty: {_eq: null}}}]}]}) { name } }`,
	}
	tokens := []string{"{", "}", "(", ")", "[", "]", ":", ",", "null", "_eq", "_in", "\"", "$x", "@explain", "...", "on", "fragment", "-1", "1e400", "9223372036854775808", "\\u0000", "_group", "_docID", "filter", "order", "limit: -1", "offset: 99999999999"}
	for i := 0; i < n; i++ {
		s := Pick(r, seeds)
		switch r.Intn(6) {
		case 0:
			s = s[:r.Intn(len(s)+1)]
		case 1:
			p := r.Intn(len(s) + 1)
			s = s[:p] + Pick(r, tokens) + s[p:]
		case 2:
			p := r.Intn(len(s))
			s = s[:p] + s[p+1:]
		case 3:
			depth := 10 + r.Intn(300)
			s = `query { Item0(filter: ` + strings.Repeat(`{_not: `, depth) + `{qty: {_eq: 1}}` + strings.Repeat(`}`, depth) + `) { name } }`
		case 4:
			depth := 5 + r.Intn(60)
			s = `query { Item0(filter: {_and: [` + strings.Repeat(`{_or: [`, depth) + `{qty: {_gt: 0}}` + strings.Repeat(`]}`, depth) + `]}) { name } }`
		default:
			p, q := r.Intn(len(s)), r.Intn(len(s))
			if p > q {
				p, q = q, p
			}
			s = s[:p] + s[q:]
		}
		done := make(chan string, 1)
		go func(req string) {
			defer func() {
				if p := recover(); p != nil {
					done <- fmt.Sprintf("PANIC %v", p)
				}
			}()
			cctx, cancel := context.WithTimeout(ctx, 20*time.Second)
			defer cancel()
			res := x.n.DB.ExecRequest(cctx, req)
			_ = res
			done <- ""
		}(s)
		select {
		case out := <-done:
			if out != "" {
				e.violate("request-panic", fmt.Sprintf("%s on request %.300q", out, s), map[string]any{"request": s})
			}
		case <-time.After(25 * time.Second):
			e.violate("request-hang", fmt.Sprintf("no answer within 25s on request %.300q", s), map[string]any{"request": s})
		}
		e.Res.Evaluations++
		e.count("malformed_request")
	}
}

func writeFile(fn, body string) {
	if err := os.WriteFile(fn, []byte(body), 0o644); err != nil {
		panic(err)
	}
}

func init() { engines["query"] = engQuery }
