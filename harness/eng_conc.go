package main

// Engine "conc" (C16), built with the race detector.
// One node, G goroutines issuing a generated mix of calls for a while:
//   - counter increments and register writes on a few shared documents (implicit transactions; a call either
//     succeeds or reports a transaction conflict);
//   - creates in a second collection, queries, index creation / removal on that collection;
//   - incoming merges: commits prepared on another node (increments of the same counters) are merged concurrently
//     through the merge entry point;
//   - goroutines sharing ONE concurrent transaction (NewConcurrentTxn) for creates, committed at the end.
// Oracle: no panic, no data race (race detector output is turned into violations by the check driver), every call
// that reported success has its effect in the final state, every call that reported a conflict has none: each
// counter ends at initial + successful local increments + successfully merged remote increments; every successfully
// created document exists; the documents created through the shared transaction exist iff its commit succeeded.
// The observed attempt schedule of every counter is written as a Coq case for Kv/Concurrent.v.

import (
	"context"
	"fmt"
	"strings"
	"sync"
	"sync/atomic"
	"time"

	"github.com/sourcenetwork/defradb/client"
	"github.com/sourcenetwork/defradb/event"
)

func engConc(e *Env) {
	ctx := context.Background()
	r := NewRng(e.Seed)
	e.Res.Rule = "rounds of G=8 goroutines x 25-40 calls drawn from {increment (45%), register write (10%), create (15%), query (15%), index create/drop (5%), merge of a prepared remote commit (10%)} on 3 shared documents, plus 4 goroutines sharing one concurrent transaction (5 creates each); distinct = round; non-trivial = rounds in which at least one call reported a conflict"
	rounds := 3
	if e.thorough() {
		rounds = 60
	}
	for ri := 0; ri < rounds; ri++ {
		x, y := newNd(ctx, "X"), newNd(ctx, "Y")
		x.noEvents()
		sdl := `type Ctr { name: String c: Int @crdt(type: pncounter) n: Int }
type Oth { a: Int b: String }`
		x.addSchema(ctx, sdl)
		y.addSchema(ctx, sdl)
		colID := getCol(ctx, x, "Ctr").Version().CollectionID
		replay := map[string]any{"round": ri, "seed": e.Seed}
		const nDocs = 3
		var ids [nDocs]string
		for i := 0; i < nDocs; i++ {
			d, errs := x.gql(ctx, fmt.Sprintf(`mutation { create_Ctr(input: {name: "d%d", c: 100, n: 0}) { _docID } }`, i))
			if errs != "" {
				panic(errs)
			}
			ids[i] = fmt.Sprint(rowsOf(d, "create_Ctr")[0]["_docID"])
		}
		// the other node gets the documents and prepares concurrent increments (one branch per commit, all on top of
		// the creating commit, so every one of them merges independently)
		type remote struct {
			doc    int
			delta  int64
			cid    string
			prefix int64 // sum of the remote increments of this document up to and including this commit (they form a chain)
		}
		var chain [nDocs]int64
		var remotes []remote
		for i := 0; i < nDocs; i++ {
			for c := range x.heads(ctx, ids[i]) {
				copyClosure(ctx, x, y, mustCid(c))
				if et := y.merge(ctx, ids[i], mustCid(c), colID); et != "" {
					panic(et)
				}
			}
		}
		y.drainUpdates(0, 20*time.Millisecond)
		for k := 0; k < 12; k++ {
			i := r.Intn(nDocs)
			delta := int64(1 + r.Intn(9))
			_, errs := y.gql(ctx, fmt.Sprintf(`mutation { update_Ctr(docID: "%s", input: {c: %d}) { _docID } }`, ids[i], delta))
			if errs != "" {
				panic(errs)
			}
			for _, ev := range y.drainUpdates(1, time.Second) {
				copyClosure(ctx, y, x, ev.Cid)
				chain[i] += delta
				remotes = append(remotes, remote{i, delta, ev.Cid.String(), chain[i]})
			}
		}

		var okInc, okRemote [nDocs]atomic.Int64
		var conflicts, failures atomic.Int64
		var created sync.Map
		var mu sync.Mutex
		var panics []string
		var otherErrs []string
		remoteIdx := atomic.Int64{}
		G := 8
		var wg sync.WaitGroup
		for g := 0; g < G; g++ {
			wg.Add(1)
			gr := r.Fork()
			go func(g int) {
				defer wg.Done()
				defer func() {
					if p := recover(); p != nil {
						mu.Lock()
						panics = append(panics, fmt.Sprintf("goroutine %d: %v", g, p))
						mu.Unlock()
					}
				}()
				n := 25 + gr.Intn(16)
				for k := 0; k < n; k++ {
					switch c := gr.Intn(100); {
					case c < 45 && g%3 == 1:
						// document API: the same document object is updated again after a conflict
						i := gr.Intn(nDocs)
						delta := int64(1 + gr.Intn(9))
						col, err := x.n.DB.GetCollectionByName(ctx, "Ctr")
						if err != nil {
							continue
						}
						id, _ := client.NewDocIDFromString(ids[i])
						doc, err := col.Get(ctx, id, false)
						if err != nil {
							continue
						}
						if err := doc.Set("c", delta); err != nil {
							continue
						}
						for attempt := 0; attempt < 6; attempt++ {
							err = col.Update(ctx, doc)
							if err == nil {
								okInc[i].Add(delta)
								break
							}
							if strings.Contains(err.Error(), "conflict") {
								conflicts.Add(1)
								continue
							}
							failures.Add(1)
							mu.Lock()
							otherErrs = append(otherErrs, err.Error())
							mu.Unlock()
							break
						}
					case c < 45:
						i := gr.Intn(nDocs)
						delta := int64(1 + gr.Intn(9))
						_, errs := x.gql(ctx, fmt.Sprintf(`mutation { update_Ctr(docID: "%s", input: {c: %d}) { _docID } }`, ids[i], delta))
						switch {
						case errs == "":
							okInc[i].Add(delta)
						case strings.Contains(errs, "conflict"):
							conflicts.Add(1)
						default:
							failures.Add(1)
							mu.Lock()
							otherErrs = append(otherErrs, errs)
							mu.Unlock()
						}
					case c < 55:
						i := gr.Intn(nDocs)
						_, errs := x.gql(ctx, fmt.Sprintf(`mutation { update_Ctr(docID: "%s", input: {n: %d}) { _docID } }`, ids[i], g*1000+k))
						if errs != "" && strings.Contains(errs, "conflict") {
							conflicts.Add(1)
						}
					case c < 70:
						key := fmt.Sprintf("g%dk%d", g, k)
						_, errs := x.gql(ctx, fmt.Sprintf(`mutation { create_Oth(input: {a: %d, b: "%s"}) { _docID } }`, k, key))
						if errs == "" {
							created.Store(key, true)
						} else if strings.Contains(errs, "conflict") {
							conflicts.Add(1)
						}
					case c < 85:
						x.gql(ctx, `query { Ctr { name c n } Oth(filter: {a: {_gt: 3}}) { a b } }`)
					case c < 90 && g == 0:
						col, err := x.n.DB.GetCollectionByName(ctx, "Oth")
						if err == nil {
							req := idxReq("a", false, false)
							req.Name = fmt.Sprintf("ix_%d", k)
							if _, err := col.CreateIndex(ctx, req); err == nil && gr.Bool() {
								_ = col.DropIndex(ctx, req.Name)
							}
						}
					default:
						j := int(remoteIdx.Add(1)) - 1
						if j < len(remotes) {
							rm := remotes[j]
							if et := x.merge(ctx, ids[rm.doc], mustCid(rm.cid), colID); et == "" {
								// merging a commit brings its ancestors along: the contribution is the prefix sum
								for {
									cur := okRemote[rm.doc].Load()
									if rm.prefix <= cur || okRemote[rm.doc].CompareAndSwap(cur, rm.prefix) {
										break
									}
								}
							} else if strings.Contains(et, "conflict") {
								// a merge that lost a conflict has no effect (the real message loop would retry it)
								conflicts.Add(1)
							} else if !strings.Contains(et, "PANIC") {
								mu.Lock()
								otherErrs = append(otherErrs, "merge: "+et)
								mu.Unlock()
							} else {
								mu.Lock()
								panics = append(panics, et)
								mu.Unlock()
							}
						}
					}
				}
			}(g)
		}
		// goroutines sharing one concurrent transaction
		var sharedKeys []string
		var sharedMu sync.Mutex
		sharedOK := false
		wg.Add(1)
		go func() {
			defer wg.Done()
			defer func() {
				if p := recover(); p != nil {
					mu.Lock()
					panics = append(panics, fmt.Sprintf("shared concurrent transaction: %v", p))
					mu.Unlock()
				}
			}()
			txn, err := x.n.DB.NewConcurrentTxn(ctx, false)
			if err != nil {
				return
			}
			var w2 sync.WaitGroup
			for h := 0; h < 4; h++ {
				w2.Add(1)
				go func(h int) {
					defer w2.Done()
					defer func() {
						if p := recover(); p != nil {
							mu.Lock()
							panics = append(panics, fmt.Sprintf("shared concurrent transaction, goroutine %d: %v", h, p))
							mu.Unlock()
						}
					}()
					for k := 0; k < 5; k++ {
						key := fmt.Sprintf("shared%dk%d", h, k)
						res := txn.ExecRequest(ctx, fmt.Sprintf(`mutation { create_Oth(input: {a: %d, b: "%s"}) { _docID } }`, 1000+k, key))
						if len(res.GQL.Errors) == 0 {
							sharedMu.Lock()
							sharedKeys = append(sharedKeys, key)
							sharedMu.Unlock()
						}
					}
				}(h)
			}
			w2.Wait()
			if err := txn.Commit(ctx); err == nil {
				sharedOK = true
			} else {
				txn.Discard(ctx)
			}
		}()
		wg.Wait()
		// merge queue: sibling commits of one document, written by 24 other nodes on top of the same state, arrive
		// as merge events at the same time
		var queued int64
		{
			base := x.heads(ctx, ids[0])
			mc, err := x.n.DB.Events().Subscribe(event.MergeCompleteName)
			if err == nil {
				var sib []event.Merge
				for k := 0; k < 24; k++ {
					z := newNd(ctx, fmt.Sprintf("Z%d", k))
					z.addSchema(ctx, sdl)
					for c := range base {
						copyClosure(ctx, x, z, mustCid(c))
						if et := z.merge(ctx, ids[0], mustCid(c), colID); et != "" {
							panic(et)
						}
					}
					z.drainUpdates(0, 10*time.Millisecond)
					delta := int64(1 + k)
					if _, errs := z.gql(ctx, fmt.Sprintf(`mutation { update_Ctr(docID: "%s", input: {c: %d}) { _docID } }`, ids[0], delta)); errs == "" {
						for _, ev := range z.drainUpdates(1, time.Second) {
							copyClosure(ctx, z, x, ev.Cid)
							sib = append(sib, event.Merge{DocID: ids[0], Cid: ev.Cid, CollectionID: colID})
							queued += delta
						}
					}
					z.close(ctx)
				}
				for _, m := range sib {
					x.n.DB.Events().Publish(event.NewMessage(event.MergeName, m))
				}
				done := 0
				deadline := time.After(20 * time.Second)
			wait:
				for done < len(sib) {
					select {
					case <-mc.Message():
						done++
					case <-deadline:
						break wait
					}
				}
				x.n.DB.Events().Unsubscribe(mc)
				e.Res.Evaluations++
				if done < len(sib) {
					e.violate("concurrent-merge-dropped", fmt.Sprintf("%d merge events for sibling commits of one document were published together, only %d completed within 20 s", len(sib), done), replay)
				}
			}
		}
		e.Res.Evaluations++
		for _, p := range panics {
			e.violate("concurrent-panic", p, replay)
		}
		// final state
		d, errs := x.gql(ctx, `query { Ctr { _docID c } Oth { b } }`)
		if errs != "" {
			e.violate("concurrent-final-query", errs, replay)
		}
		byID := map[string]map[string]any{}
		for _, row := range rowsOf(d, "Ctr") {
			byID[fmt.Sprint(row["_docID"])] = row
		}
		for i := 0; i < nDocs; i++ {
			want := 100 + okInc[i].Load() + okRemote[i].Load()
			if i == 0 {
				want += queued
			}
			got, _ := numOf(byID[ids[i]]["c"])
			e.Res.Evaluations++
			if int64(got) != want {
				e.violate("concurrent-counter", fmt.Sprintf("counter of document %d ends at %v; 100 + successful local increments %d + successfully merged remote increments %d = %d (%d calls reported a conflict)", i, byID[ids[i]]["c"], okInc[i].Load(), okRemote[i].Load(), want, conflicts.Load()), replay)
			}
		}
		have := map[string]bool{}
		for _, row := range rowsOf(d, "Oth") {
			have[fmt.Sprint(row["b"])] = true
		}
		created.Range(func(k, _ any) bool {
			e.Res.Evaluations++
			if !have[k.(string)] {
				e.violate("concurrent-create-lost", fmt.Sprintf("create of %s reported success but the document does not exist", k), replay)
			}
			return true
		})
		for _, k := range sharedKeys {
			e.Res.Evaluations++
			if have[k] != sharedOK {
				e.violate("concurrent-shared-txn", fmt.Sprintf("document %s created through the shared concurrent transaction: exists=%v, commit succeeded=%v", k, have[k], sharedOK), replay)
			}
		}
		if failures.Load() > 0 {
			mu.Lock()
			e.violate("concurrent-call-failed", fmt.Sprintf("%d increments failed with an error that is not a transaction conflict, e.g. %s", failures.Load(), trunc(otherErrs[0])), replay)
			mu.Unlock()
		}
		e.count(fmt.Sprintf("conflicts_reported_%d", minInt(int(conflicts.Load()), 5)))
		if conflicts.Load() > 0 {
			e.distinct(fmt.Sprintf("round %d", ri))
		}
		if ri == 0 {
			e.sample(map[string]any{"round": ri, "successful_increments": []int64{okInc[0].Load(), okInc[1].Load(), okInc[2].Load()}, "conflicts": conflicts.Load(), "shared_txn_committed": sharedOK})
		}
		x.close(ctx)
		y.close(ctx)
	}
	concIndexWitness(e)
}

func minInt(a, b int) int {
	if a < b {
		return a
	}
	return b
}

func init() { engines["conc"] = engConc }
