package main

// splitmix64: every random choice of a run derives from one state seeded by VERIF_SEED.
type Rng struct{ s uint64 }

func NewRng(seed int64) *Rng { return &Rng{uint64(seed)*0x9E3779B97F4A7C15 + 0x1234567} }
func (r *Rng) U64() uint64 {
	r.s += 0x9E3779B97F4A7C15
	z := r.s
	z = (z ^ (z >> 30)) * 0xBF58476D1CE4E5B9
	z = (z ^ (z >> 27)) * 0x94D049BB133111EB
	return z ^ (z >> 31)
}
func (r *Rng) Intn(n int) int {
	if n <= 0 {
		return 0
	}
	return int(r.U64() % uint64(n))
}
func (r *Rng) Bool() bool          { return r.U64()&1 == 1 }
func (r *Rng) Chance(p int) bool   { return r.Intn(100) < p }
func (r *Rng) Fork() *Rng          { return &Rng{r.U64()} }
func Pick[T any](r *Rng, xs []T) T { return xs[r.Intn(len(xs))] }
func Shuffle[T any](r *Rng, xs []T) {
	for i := len(xs) - 1; i > 0; i-- {
		j := r.Intn(i + 1)
		xs[i], xs[j] = xs[j], xs[i]
	}
}
