package main

import (
	"context"
	"fmt"

	"github.com/sourcenetwork/defradb/acp/identity"
	"github.com/sourcenetwork/defradb/crypto"
)

// acpDiscardWitness (C06): a transaction that created a document of a collection under access control and was then
// discarded (or lost a conflict) must leave no trace: the same document can be created afterwards, by its first
// author or by anyone else, and nobody sees anything in between.
func acpDiscardWitness(e *Env) {
	ctx := context.Background()
	x := newNd(ctx, "TA")
	x.noEvents()
	defer x.close(ctx)
	O, _ := identity.Generate(crypto.KeyTypeSecp256k1)
	S, _ := identity.Generate(crypto.KeyTypeSecp256k1)
	octx, sctx := withIdent(ctx, O), withIdent(ctx, S)
	pol, err := x.n.DB.AddDACPolicy(octx, acpPolicy)
	if err != nil {
		e.violate("harness-txn", "policy: "+err.Error(), nil)
		return
	}
	x.addSchema(ctx, fmt.Sprintf(`type Item @policy(id: "%s", resource: "items") { k: Int name: String }`, pol.PolicyID))
	committed := 0
	for vi, who := range []struct {
		name string
		ctx  context.Context
	}{{"the same identity", octx}, {"another identity", sctx}} {
		txn, err := x.n.DB.NewTxn(ctx, false)
		if err != nil {
			e.violate("harness-txn", err.Error(), nil)
			return
		}
		in := fmt.Sprintf(`{k: %d, name: "d%d"}`, vi, vi)
		res := txn.ExecRequest(octx, fmt.Sprintf(`mutation { create_Item(input: %s) { _docID } }`, in))
		if len(res.GQL.Errors) > 0 {
			e.violate("harness-txn", fmt.Sprint(res.GQL.Errors), nil)
			txn.Discard(ctx)
			return
		}
		txn.Discard(ctx)
		steps := []string{"owner: begin", "owner: create_Item " + in + " inside the transaction", "owner: discard"}
		for _, rq := range []context.Context{octx, sctx, ctx} {
			d, _ := x.gql(rq, `query { Item { k } }`)
			e.Res.Evaluations++
			// the owner sees every committed document, the others none of them (they are private)
			want := 0
			if rq == octx {
				want = committed
			}
			if n := len(rowsOf(d, "Item")); n > want {
				e.violate("visibility", fmt.Sprintf("after the discard a listing shows %d documents, %d are committed and readable", n, want), map[string]any{"steps": steps})
			}
		}
		_, errs := x.gql(who.ctx, fmt.Sprintf(`mutation { create_Item(input: %s) { _docID } }`, in))
		e.Res.Evaluations++
		if errs == "" && vi == 0 {
			committed++
		}
		if errs != "" {
			e.violate("discard-leaves-trace", fmt.Sprintf("a transaction created a document of a collection under access control and was discarded; creating the same document afterwards as %s is refused: %s", who.name, errs), map[string]any{"steps": append(steps, who.name+": create_Item "+in)})
		}
	}
	e.count("acp_discard_witness")
}
