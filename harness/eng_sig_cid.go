package main

import (
	"context"
	"fmt"
	"time"

	"github.com/ipfs/go-cid"
	libpeer "github.com/libp2p/go-libp2p/core/peer"

	"github.com/sourcenetwork/defradb/acp/identity"
	"github.com/sourcenetwork/defradb/crypto"
	"github.com/sourcenetwork/defradb/event"
	netConfig "github.com/sourcenetwork/defradb/net/config"
	"github.com/sourcenetwork/defradb/node"
	"github.com/sourcenetwork/defradb/verifhook"
)

// cidMismatchWitness (C12): the receiving side of the push-log protocol, fed with requests built by a hostile peer.
//  1. a commit that is not signed and links to a field block carrying the victim's signature over tampered content
//     (the field block is already in the receiver's block store, as it is after the block service fetched it) is
//     pushed and must be refused;
//  2. a request that carries a genuine, verifiable block but names the identifier of that refused commit must not
//     make the receiver merge the refused commit.
func cidMismatchWitness(e *Env, port int) {
	ctx := context.Background()
	for ki, kt := range []crypto.KeyType{crypto.KeyTypeSecp256k1, crypto.KeyTypeEd25519} {
		signer, err := identity.Generate(kt)
		if err != nil {
			panic(err)
		}
		a := newNd(ctx, "A")
		rcv := newNd(ctx, "R", node.WithDisableP2P(false), netConfig.WithListenAddresses(fmt.Sprintf("/ip4/127.0.0.1/tcp/%d", port+ki)), netConfig.WithEnablePubSub(false))
		rcv.noEvents()
		func() {
			defer a.close(ctx)
			defer rcv.close(ctx)
			sdl := `type Sg { name: String age: Int }`
			a.addSchema(ctx, sdl)
			rcv.addSchema(ctx, sdl)
			colID := getCol(ctx, a, "Sg").Version().CollectionID
			sctx := withIdent(ctx, signer)
			var desc []string
			replay := map[string]any{"key_type": string(kt), "operations": &desc}
			run := func(q string) []event.Update {
				res := a.n.DB.ExecRequest(sctx, q)
				desc = append(desc, "A (signing): "+q)
				if len(res.GQL.Errors) > 0 {
					e.violate("harness-sig", fmt.Sprint(res.GQL.Errors), replay)
					return nil
				}
				return a.drainUpdates(1, 2*time.Second)
			}
			ev1 := run(`mutation { create_Sg(input: {name: "alice", age: 30}) { _docID } }`)
			ev2 := run(`mutation { update_Sg(input: {name: "alice-2"}) { _docID } }`)
			if len(ev1) != 1 || len(ev2) != 1 {
				e.violate("harness-sig", "no update events", replay)
				return
			}
			docID := ev1[0].DocID
			_ = ev2
			// the victim's first commit: its field blocks (height 1) carry signatures
			raw1, ok := a.rawBlock(ctx, ev1[0].Cid)
			if !ok {
				return
			}
			b1, err := verifhook.DecodeBlock(raw1)
			if err != nil || len(b1.Links) == 0 {
				e.violate("harness-sig", "create commit has no links", replay)
				return
			}
			var fc cid.Cid
			var fraw []byte
			{
				// the block behind the first link (the one the tampering of the commit redirects)
				c := mustCid(b1.Links[0][1])
				r, _ := a.rawBlock(ctx, c)
				if fb, err := verifhook.DecodeBlock(r); err == nil && fb.Signature != "" {
					fc, fraw = c, r
				}
			}
			if fraw == nil {
				e.count("cid_witness_no_signed_field_block")
				return
			}
			// the receiver gets every block the genuine commit links to (field blocks, signature blocks), not the commit
			for _, l := range b1.Links {
				copyClosure(ctx, a, rcv, mustCid(l[1]))
			}
			if b1.Signature != "" {
				copyClosure(ctx, a, rcv, mustCid(b1.Signature))
			}
			f2, f2c, err := verifhook.TamperBlock(fraw, "delta-data", ev1[0].Cid)
			if err != nil || f2c == fc {
				e.count("cid_witness_tamper_unavailable")
				return
			}
			c1, _, err := verifhook.TamperBlock(raw1, "links-replace", f2c)
			if err != nil {
				e.count("cid_witness_tamper_unavailable")
				return
			}
			c2, c2c, err := verifhook.TamperBlock(c1, "signature-removed", ev1[0].Cid)
			if err != nil {
				e.count("cid_witness_tamper_unavailable")
				return
			}
			rcv.putRawBlock(ctx, f2c, f2)
			dump := func() string {
				d1, e1 := rcv.gql(ctx, `query { Sg(showDeleted: true) { _docID _deleted name age } }`)
				d2, e2 := rcv.gql(ctx, `query { commits { cid docID fieldName height } }`)
				return canonJSON(d1) + e1 + canonJSON(sortNested(d2)) + e2 + canonJSON(rcv.heads(ctx, docID))
			}
			before := dump()
			type pusher interface {
				VerifPushLog(ctx context.Context, from libpeer.ID, docID string, cid []byte, collectionID string, block []byte) error
			}
			pp, okp := rcv.n.Peer.(pusher)
			if !okp {
				e.violate("harness-sig", "VerifPushLog hook missing", replay)
				return
			}
			from := rcv.n.Peer.PeerInfo().ID // any peer identifier does: the request is handed to the handler directly
			desc = append(desc, "hostile peer: push an unsigned commit that links to a field block with the victim's signature over tampered content")
			push := func(cidBytes []byte, block []byte) error {
				done := make(chan error, 1)
				go func() { done <- pp.VerifPushLog(ctx, from, docID, cidBytes, colID, block) }()
				select {
				case err := <-done:
					return err
				case <-time.After(20 * time.Second):
					return fmt.Errorf("the push-log handler did not return within 20s")
				}
			}
			err1 := push(c2c.Bytes(), c2)
			time.Sleep(800 * time.Millisecond)
			e.Res.Evaluations++
			if err1 == nil {
				e.violate("forged-accepted", "an unsigned commit linking to a field block whose attached signature does not verify was accepted by the push-log handler", replay)
			}
			if after := dump(); after != before {
				e.violate("forged-changed-state", fmt.Sprintf("after the refused push the receiver's state differs: %s", after), replay)
				before = after
			}
			genuine, _ := a.rawBlock(ctx, ev1[0].Cid)
			desc = append(desc, "hostile peer: push a request that carries the genuine first commit as its block and names the identifier of the refused commit")
			err2 := push(c2c.Bytes(), genuine)
			time.Sleep(1500 * time.Millisecond)
			e.Res.Evaluations++
			after := dump()
			e.count("cid_mismatch_witness")
			if after != before {
				e.violate("forged-changed-state", fmt.Sprintf("a push-log request whose block is genuine but whose identifier names a commit refused before (its signature chain does not verify) made the receiver merge that commit (handler returned %v): the document now reads %s", err2, after), replay)
			}
		}()
	}
}
