package main

// Restart with access-control state (part of engine "restart", C14): a node on file stores (Badger files and a
// persistent local ACP store) and a never-restarted in-memory twin receive the same history: policy registration,
// a collection under that policy, documents created by an owner, reader relationships granted and revoked.  The
// file node is closed and reopened on its stores at random points; after every step the owner, the reader, a
// stranger and an anonymous requester must see on it exactly what they see on the twin.

import (
	"context"
	"fmt"
	"os"
	"sort"
	"strings"

	"github.com/sourcenetwork/defradb/acp/identity"
	"github.com/sourcenetwork/defradb/crypto"
	"github.com/sourcenetwork/defradb/node"
)

func restartACP(e *Env, ctx context.Context, r *Rng, rounds int) {
	for ri := 0; ri < rounds; ri++ {
		dir, err := os.MkdirTemp("/var/tmp", "vracp")
		if err != nil {
			panic(err)
		}
		open := func() (*Nd, error) {
			n, err := node.New(ctx, node.WithDisableAPI(true), node.WithDisableP2P(true), node.WithStorePath(dir+"/db"), node.WithStoreType(node.BadgerStore),
				node.WithBadgerInMemory(false), node.WithDocumentACPPath(dir+"/acp"))
			if err != nil {
				return nil, err
			}
			if err := n.Start(ctx); err != nil {
				return nil, err
			}
			return &Nd{name: "F", n: n}, nil
		}
		f, err := open()
		if err != nil {
			e.violate("harness-restart", "open file node: "+err.Error(), nil)
			os.RemoveAll(dir)
			continue
		}
		t := newNd(ctx, "T")
		t.noEvents()
		O, _ := identity.Generate(crypto.KeyTypeSecp256k1)
		R, _ := identity.Generate(crypto.KeyTypeSecp256k1)
		S, _ := identity.Generate(crypto.KeyTypeSecp256k1)
		ctxs := map[string]context.Context{"owner": withIdent(ctx, O), "reader": withIdent(ctx, R), "stranger": withIdent(ctx, S), "anonymous": ctx}
		var desc []string
		replay := map[string]any{"operations": &desc}
		bad := false
		both := func(what string, fn func(x *Nd) string) {
			a, b := fn(f), fn(t)
			desc = append(desc, what)
			e.Res.Evaluations++
			if a != b {
				e.violate("restart-op-result", fmt.Sprintf("%s: the (restarted) node answers %s, the twin %s", what, trunc(a), trunc(b)), replay)
				bad = true
			}
		}
		compare := func(when string) {
			for _, who := range []string{"owner", "reader", "stranger", "anonymous"} {
				view := func(x *Nd) string {
					d, errs := x.gql(ctxs[who], `query { Doc { k v } }`)
					var rs []string
					for _, row := range rowsOf(d, "Doc") {
						rs = append(rs, canonJSON(row))
					}
					sort.Strings(rs)
					return strings.Join(rs, " ") + errs
				}
				a, b := view(f), view(t)
				e.Res.Evaluations++
				if a != b {
					e.violate("restart-diverged", fmt.Sprintf("%s: as %s the (restarted) node lists [%s], the twin [%s]", when, who, trunc(a), trunc(b)), replay)
					bad = true
				}
			}
		}
		// policy and collection (each node uses the policy id it was given)
		polID := map[*Nd]string{}
		both("AddDACPolicy", func(x *Nd) string {
			p, err := x.n.DB.AddDACPolicy(ctxs["owner"], acpPolicy)
			if err != nil {
				return "ERR " + err.Error()
			}
			polID[x] = p.PolicyID
			return "ok"
		})
		both("AddSchema with @policy", func(x *Nd) string {
			_, err := x.n.DB.AddSchema(ctx, fmt.Sprintf(`type Doc @policy(id: "%s", resource: "items") { k: Int v: Int }`, polID[x]))
			if err != nil {
				return "ERR " + err.Error()
			}
			return "ok"
		})
		var owned []int
		ids := map[int]string{}
		k := 0
		restart := func() {
			f.close(ctx)
			nf, err := open()
			desc = append(desc, "RESTART")
			e.count("restarts_with_acp_state")
			if err != nil {
				e.violate("restart-open-failed", "the node cannot be reopened on its stores: "+err.Error(), replay)
				bad = true
				return
			}
			f = nf
			compare("right after reopening")
		}
		nOps := 8 + r.Intn(8)
		for oi := 0; oi < nOps && !bad; oi++ {
			switch c := r.Intn(10); {
			case c < 4:
				k++
				kk := k
				who := "owner"
				if r.Chance(30) {
					who = "anonymous" // public document
				}
				both(fmt.Sprintf("create k=%d as %s", kk, who), func(x *Nd) string {
					d, errs := x.gql(ctxs[who], fmt.Sprintf(`mutation { create_Doc(input: {k: %d, v: %d}) { _docID } }`, kk, kk*10))
					if errs == "" && x == t {
						ids[kk] = fmt.Sprint(rowsOf(d, "create_Doc")[0]["_docID"])
						if who == "owner" {
							owned = append(owned, kk)
						}
					}
					return errs
				})
			case c < 6 && len(owned) > 0:
				kk := Pick(r, owned)
				both(fmt.Sprintf("grant reader on k=%d", kk), func(x *Nd) string {
					_, err := x.n.DB.AddDACActorRelationship(ctxs["owner"], "Doc", ids[kk], "reader", R.DID())
					if err != nil {
						return "ERR " + err.Error()
					}
					return "ok"
				})
			case c < 7 && len(owned) > 0:
				kk := Pick(r, owned)
				both(fmt.Sprintf("revoke reader on k=%d", kk), func(x *Nd) string {
					_, err := x.n.DB.DeleteDACActorRelationship(ctxs["owner"], "Doc", ids[kk], "reader", R.DID())
					if err != nil {
						return "ERR " + err.Error()
					}
					return "ok"
				})
			case c < 8 && len(owned) > 0:
				kk := Pick(r, owned)
				nv := r.Intn(1000)
				both(fmt.Sprintf("update k=%d as owner", kk), func(x *Nd) string {
					_, errs := x.gql(ctxs["owner"], fmt.Sprintf(`mutation { update_Doc(docID: "%s", input: {v: %d}) { _docID } }`, ids[kk], nv))
					return errs
				})
			default:
				restart()
			}
			if !bad {
				compare("after " + desc[len(desc)-1])
			}
		}
		if !bad {
			restart()
		}
		e.distinct("acp-restart|" + strings.Join(desc, "|"))
		if ri == 0 {
			e.sample(map[string]any{"acp_restart_operations": desc})
		}
		f.close(ctx)
		t.close(ctx)
		os.RemoveAll(dir)
	}
}
