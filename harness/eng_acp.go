package main

// Engine "acp" (C10): document access control (local DAC). A real node holds a mix of public documents,
// documents owned by O, and documents O shared with R (grant / revoke histories). A twin node holds exactly the
// documents a given requester may read. For the requester S (stranger), R (reader) and anonymous, every generated
// request - listings, filters on every field, order, limit, aggregates, grouping, time-travel reads, commit-history
// queries, index-backed plans - must return on the real node exactly what it returns on the twin that never
// contained the unreadable documents. Update / delete attempts without permission must change nothing; granting or
// revoking takes effect from the next request.

import (
	"context"
	"fmt"
	"os"
	"sort"
	"strings"
	"time"

	"github.com/sourcenetwork/immutable"

	"github.com/sourcenetwork/defradb/acp/identity"
	"github.com/sourcenetwork/defradb/crypto"
)

const acpPolicy = `
name: verif
description: verification policy
actor:
  name: actor
resources:
  items:
    permissions:
      read:
        expr: owner + reader
      update:
        expr: owner
      delete:
        expr: owner
    relations:
      owner:
        types:
          - actor
      reader:
        types:
          - actor
`

type acpDoc struct {
	k       int
	id      string
	owner   string // "" public, "O"
	shared  bool   // R has the reader relation
	fields  string
	initial string // the creating input, unchanged
	deleted bool
}

func withIdent(ctx context.Context, id identity.Identity) context.Context {
	return identity.WithContext(ctx, immutable.Some[identity.Identity](id))
}

// sortNested orders every nested list of rows canonically: the scan order inside a group depends on the
// document identifiers, which are not part of what is compared.
func sortNested(v any) any {
	switch t := v.(type) {
	case map[string]any:
		for k, x := range t {
			t[k] = sortNested(x)
		}
		return t
	case []map[string]any:
		out := make([]any, len(t))
		for i := range t {
			out[i] = sortNested(t[i])
		}
		sort.Slice(out, func(i, j int) bool { return canonJSON(out[i]) < canonJSON(out[j]) })
		return out
	case []any:
		for i := range t {
			t[i] = sortNested(t[i])
		}
		sort.Slice(t, func(i, j int) bool { return canonJSON(t[i]) < canonJSON(t[j]) })
		return t
	}
	return v
}

func canonRows(data map[string]any, key string, dropDocID bool) string {
	rows := rowsOf(data, key)
	var out []string
	for _, r := range rows {
		if dropDocID {
			delete(r, "_docID")
		}
		out = append(out, canonJSON(sortNested(r)))
	}
	return strings.Join(out, "\n")
}

func engAcp(e *Env) {
	ctx := context.Background()
	r := NewRng(e.Seed)
	e.Res.Rule = "worlds of 8-16 documents (public / owned by O / shared with R, grant and revoke histories); requesters: stranger S, reader R, anonymous; requests: C08 generator (filters on every field, order, limit, aggregates), groupBy, index-backed filters, commits / latestCommits, time-travel reads by cid; distinct = (world, requester, request); non-trivial = at least one unreadable document satisfies the request's filter"
	nWorlds, nQ := 3, 45
	if e.thorough() {
		nWorlds, nQ = 40, 150
	}
	hung := false
	var pcases []string
	for wi := 0; wi < nWorlds && !hung; wi++ {
		real := newNd(ctx, "ACP")
		real.noEvents()
		O, _ := identity.Generate(crypto.KeyTypeSecp256k1)
		R, _ := identity.Generate(crypto.KeyTypeSecp256k1)
		S, _ := identity.Generate(crypto.KeyTypeSecp256k1)
		octx, rctx, sctx := withIdent(ctx, O), withIdent(ctx, R), withIdent(ctx, S)
		pol, err := real.n.DB.AddDACPolicy(octx, acpPolicy)
		if err != nil {
			panic(err)
		}
		schema := fmt.Sprintf(`type Item @policy(id: "%s", resource: "items") { k: Int name: String @index cat: String qty: Int @index price: Float ok: Boolean }`, pol.PolicyID)
		real.addSchema(ctx, schema)
		// a collection without a policy whose fields have the same names: a way to address foreign commits
		real.addSchema(ctx, `type Open { k: Int name: String cat: String qty: Int price: Float ok: Boolean }`)
		plainSchema := `type Item { k: Int name: String @index cat: String qty: Int @index price: Float ok: Boolean }`
		var docs []*acpDoc
		n := 8 + r.Intn(9)
		for i := 0; i < n; i++ {
			var fs []string
			for _, f := range qFields {
				v := genQval(r, f.kind, 15)
				if v.null {
					continue
				}
				fs = append(fs, f.name+": "+v.gql())
			}
			fs = append(fs, fmt.Sprintf("k: %d", i))
			d := &acpDoc{k: i, fields: strings.Join(fs, ", "), initial: strings.Join(fs, ", ")}
			cctx := ctx
			switch r.Intn(3) {
			case 0:
			default:
				d.owner = "O"
				cctx = octx
			}
			data, errs := real.gql(cctx, fmt.Sprintf(`mutation { create_Item(input: {%s}) { _docID } }`, d.fields))
			if errs != "" {
				e.violate("acp-setup", errs, nil)
				continue
			}
			d.id = fmt.Sprint(rowsOf(data, "create_Item")[0]["_docID"])
			docs = append(docs, d)
		}
		// a few updates by the owner so that commit histories have several entries
		for _, d := range docs {
			if d.owner == "O" && r.Chance(40) {
				real.gql(octx, fmt.Sprintf(`mutation { update_Item(docID: "%s", input: {qty: %d}) { _docID } }`, d.id, r.Intn(7)-3))
				d.fields += fmt.Sprintf(", qty: %d", 0) // placeholder, the twin is rebuilt from the owner's view below
			}
		}
		// grant / revoke history for R
		for _, d := range docs {
			if d.owner != "O" {
				continue
			}
			for step := 0; step < 1+r.Intn(3); step++ {
				if r.Bool() {
					if _, err := real.n.DB.AddDACActorRelationship(octx, "Item", d.id, "reader", R.DID()); err == nil {
						d.shared = true
					}
				} else {
					if _, err := real.n.DB.DeleteDACActorRelationship(octx, "Item", d.id, "reader", R.DID()); err == nil {
						d.shared = false
					}
				}
			}
		}
		sel := `_docID k name cat qty price ok`
		// current contents as the owner sees them (owner reads everything)
		odata, oerr := real.gql(octx, fmt.Sprintf(`query { Item { %s } }`, sel))
		if oerr != "" {
			e.violate("acp-setup", oerr, nil)
			real.close(ctx)
			continue
		}
		byID := map[string]map[string]any{}
		for _, row := range rowsOf(odata, "Item") {
			byID[fmt.Sprint(row["_docID"])] = row
		}
		var mdocs []qdoc
		kOf := map[string]int{}
		for _, d := range docs {
			if row := byID[d.id]; row != nil {
				mdocs = append(mdocs, qdoc{idx: d.k, vals: rowToVals(row)})
				kOf[d.id] = d.k
			}
		}
		docsCoq := coqDocs(mdocs)
		type requester struct {
			name string
			ctx  context.Context
			can  func(d *acpDoc) bool
		}
		reqs := []requester{
			{"stranger", sctx, func(d *acpDoc) bool { return d.owner == "" }},
			{"reader", rctx, func(d *acpDoc) bool { return d.owner == "" || d.shared }},
			{"anonymous", ctx, func(d *acpDoc) bool { return d.owner == "" }},
		}
		for _, rq := range reqs {
			// twin: a node that never contained the documents this requester may not read
			twin := newNd(ctx, "TWIN")
			twin.noEvents()
			twin.addSchema(ctx, plainSchema)
			hidden := 0
			var hiddenRows []map[string]any
			for _, d := range docs {
				row := byID[d.id]
				if row == nil {
					continue
				}
				if !rq.can(d) {
					hidden++
					hiddenRows = append(hiddenRows, row)
					continue
				}
				var fs []string
				for _, f := range append([]string{"k"}, "name", "cat", "qty", "price", "ok") {
					switch v := row[f].(type) {
					case nil:
					case string:
						fs = append(fs, fmt.Sprintf("%s: %q", f, v))
					default:
						fs = append(fs, fmt.Sprintf("%s: %v", f, v))
					}
				}
				if _, errs := twin.gql(ctx, fmt.Sprintf(`mutation { create_Item(input: {%s}) { _docID } }`, strings.Join(fs, ", "))); errs != "" {
					e.violate("acp-setup", "twin: "+errs, nil)
				}
			}
			e.count("requester_" + rq.name)
			e.count(fmt.Sprintf("hidden_docs_%d", min(hidden, 9)))
			compare := func(kind, q string, key string, ordered bool) {
				dr, er := real.gql(rq.ctx, q)
				dt, et := twin.gql(ctx, q)
				e.Res.Evaluations++
				if (er != "") != (et != "") {
					e.violate("acp-error-differs", fmt.Sprintf("%s as %s: real %q twin %q", q, rq.name, er, et), map[string]any{"request": q, "requester": rq.name})
					return
				}
				var a, b string
				if key == "" {
					a, b = canonJSON(dr), canonJSON(dt)
				} else {
					a, b = canonRows(dr, key, true), canonRows(dt, key, true)
					if !ordered {
						sa, sb := strings.Split(a, "\n"), strings.Split(b, "\n")
						sort.Strings(sa)
						sort.Strings(sb)
						a, b = strings.Join(sa, "\n"), strings.Join(sb, "\n")
					}
				}
				if a != b {
					e.violate(kind, fmt.Sprintf("as %s, %s returns\n%s\nbut on a database that never contained the unreadable documents it returns\n%s", rq.name, q, a, b), map[string]any{"request": q, "requester": rq.name, "hidden_documents": hidden})
				}
			}
			for qi := 0; qi < nQ; qi++ {
				f := genFilter(r, 2)
				var order []qorder
				if r.Chance(50) {
					order = append(order, qorder{r.Intn(len(qFields)), r.Bool()})
				}
				limit := 0
				if r.Chance(25) && len(order) > 0 {
					limit = 1 + r.Intn(4)
				}
				args := argsOf(f, order, limit, 0)
				q := fmt.Sprintf(`query { Item%s { k name cat qty price ok } }`, args)
				// with ties in the sort key the order among equal keys is the scan order, which depends on docIDs:
				// unlimited requests are compared as sets, limited ones by the sequence of their sort keys
				if limit == 0 {
					compare("acp-leak-listing", q, "Item", false)
				} else {
					kq := fmt.Sprintf(`query { Item%s { %s } }`, args, qFields[order[0].field].name)
					compare("acp-leak-listing", kq, "Item", true)
				}
				if limit > 0 {
					// a limited result must be drawn from the readable documents only
					dr, _ := real.gql(rq.ctx, q)
					for _, row := range rowsOf(dr, "Item") {
						for _, h := range hiddenRows {
							if fmt.Sprint(h["k"]) == fmt.Sprint(row["k"]) {
								e.violate("acp-leak-listing", fmt.Sprintf("as %s, %s returns the unreadable document k=%v", rq.name, q, row["k"]), map[string]any{"request": q, "requester": rq.name})
							}
						}
					}
				}
				// non-trivial: some hidden document satisfies the filter (asked as the owner)
				od, _ := real.gql(octx, fmt.Sprintf(`query { Item%s { _docID } }`, argsOf(f, nil, 0, 0)))
				for _, row := range rowsOf(od, "Item") {
					for _, d := range docs {
						if d.id == fmt.Sprint(row["_docID"]) && !rq.can(d) {
							e.distinct(fmt.Sprintf("%d|%s|%s", wi, rq.name, q))
						}
					}
				}
				if qi%2 == 0 {
					// model case: the requester's unordered listing as a set of k
					dr, er := real.gql(rq.ctx, fmt.Sprintf(`query { Item%s { k } }`, argsOf(f, nil, 0, 0)))
					if er == "" {
						var ks []int
						for _, row := range rowsOf(dr, "Item") {
							if k, ok := row["k"].(int64); ok {
								ks = append(ks, int(k))
							}
						}
						sort.Ints(ks)
						var can, ids []string
						for _, d := range docs {
							if rq.can(d) && byID[d.id] != nil {
								can = append(can, fmt.Sprint(d.k))
							}
						}
						for _, k := range ks {
							ids = append(ids, fmt.Sprint(k))
						}
						pcases = append(pcases, fmt.Sprintf("PCase W%d [%s]%%nat %s [%s]%%nat", wi, strings.Join(can, ";"), f.coq(), strings.Join(ids, ";")))
					}
				}
				if qi%3 == 0 {
					fld := qFields[2+r.Intn(2)].name
					aq := fmt.Sprintf(`query { c: _count(Item: {filter: %s}) s: _sum(Item: {field: %s, filter: %s}) mn: _min(Item: {field: %s, filter: %s}) mx: _max(Item: {field: %s, filter: %s}) a: _avg(Item: {field: %s, filter: %s}) }`,
						f.gql(), fld, f.gql(), fld, f.gql(), fld, f.gql(), fld, f.gql())
					compare("acp-leak-aggregate", aq, "", true)
				}
			}
			compare("acp-leak-groupby", `query { Item(groupBy: [cat]) { cat _count(_group: {}) } }`, "Item", false)
			compare("acp-leak-groupby", `query { Item(groupBy: [ok]) { ok _sum(_group: {field: qty}) _group { k } } }`, "Item", false)
			// commit history: nothing about unreadable documents (docIDs differ between the nodes only by content, which is equal)
			for _, cq := range []string{
				`query { commits { docID fieldName height delta } }`,
				`query { commits(fieldName: "name") { docID delta } }`,
			} {
				dr, er := real.gql(rq.ctx, cq)
				e.Res.Evaluations++
				if er != "" {
					continue
				}
				for _, row := range rowsOf(dr, "commits") {
					for _, d := range docs {
						if !rq.can(d) && fmt.Sprint(row["docID"]) == d.id {
							e.violate("acp-leak-commits", fmt.Sprintf("as %s, %s returns a commit of the unreadable document k=%d (field %v)", rq.name, cq, d.k, row["fieldName"]), map[string]any{"request": cq, "requester": rq.name})
						}
					}
				}
			}
			for _, d := range docs {
				if rq.can(d) {
					continue
				}
				// by docID, latestCommits, time travel
				for _, dq := range []string{
					fmt.Sprintf(`query { Item(docID: "%s") { k name } }`, d.id),
					fmt.Sprintf(`query { latestCommits(docID: "%s") { cid fieldName delta } }`, d.id),
					fmt.Sprintf(`query { commits(docID: "%s") { cid delta } }`, d.id),
				} {
					dr, _ := real.gql(rq.ctx, dq)
					e.Res.Evaluations++
					for key := range dr {
						if rows := rowsOf(dr, key); len(rows) > 0 {
							kind := "acp-leak-docid"
							if key != "Item" {
								kind = "acp-leak-commits"
							}
							e.violate(kind, fmt.Sprintf("as %s, %s returns %d rows for an unreadable document", rq.name, dq, len(rows)), map[string]any{"request": dq, "requester": rq.name})
						}
					}
				}
				// time travel: the owner learns a cid, the requester asks with it
				od, _ := real.gql(octx, fmt.Sprintf(`query { commits(docID: "%s", fieldName: "_C") { cid } }`, d.id))
				if rows := rowsOf(od, "commits"); len(rows) > 0 {
					tq := fmt.Sprintf(`query { Item(cid: "%v", docID: "%s") { k name qty } }`, rows[0]["cid"], d.id)
					dr, _ := real.gql(rq.ctx, tq)
					e.Res.Evaluations++
					if len(rowsOf(dr, "Item")) > 0 {
						e.violate("acp-leak-timetravel", fmt.Sprintf("as %s, %s returns an unreadable document", rq.name, tq), map[string]any{"request": tq, "requester": rq.name})
					}
				}
				// commit history addressed by cid: every commit of the document (composite and field level), learned by
				// the owner, asked for by the requester
				oc, _ := real.gql(octx, fmt.Sprintf(`query { commits(docID: "%s") { cid fieldName } }`, d.id))
				for ci, crow := range rowsOf(oc, "commits") {
					if ci >= 4 {
						break
					}
					cq := fmt.Sprintf(`query { commits(cid: "%v") { cid docID fieldName delta } }`, crow["cid"])
					dr, _ := real.gql(rq.ctx, cq)
					e.Res.Evaluations++
					if len(rowsOf(dr, "commits")) > 0 {
						e.violate("acp-leak-commits", fmt.Sprintf("as %s, %s returns a commit (field %v) of the unreadable document k=%d", rq.name, cq, crow["fieldName"], d.k), map[string]any{"request": cq, "requester": rq.name})
					}
				}
				// ... also through a collection without a policy (the commit is addressed by cid, the fields by name)
				if rows := rowsOf(od, "commits"); len(rows) > 0 {
					for _, tq := range []string{
						fmt.Sprintf(`query { Open(cid: "%v", docID: "%s") { k name qty } }`, rows[0]["cid"], d.id),
						fmt.Sprintf(`query { Open(cid: "%v") { k name qty } }`, rows[0]["cid"]),
					} {
						dr, _ := real.gql(rq.ctx, tq)
						e.Res.Evaluations++
						if len(rowsOf(dr, "Open")) > 0 {
							e.violate("acp-leak-timetravel-other-collection", fmt.Sprintf("as %s, %s returns the content of an unreadable document of Item: %s", rq.name, tq, canonJSON(dr)), map[string]any{"request": tq, "requester": rq.name})
						}
					}
				}
				// writes without permission change nothing (the owner first changes the document, so that writing the
				// initial content again would be visible)
				orig, _ := real.gql(octx, fmt.Sprintf(`query { Item(docID: "%s") { name } }`, d.id))
				if !d.deleted {
					real.gql(octx, fmt.Sprintf(`mutation { update_Item(docID: "%s", input: {name: "OWNER-CHANGED"}) { _docID } }`, d.id))
				}
				before, _ := real.gql(octx, fmt.Sprintf(`query { Item(docID: "%s", showDeleted: true) { k name qty _deleted } }`, d.id))
				// creating the same initial content again (same docID) must be refused and change nothing
				if cd, cerr := real.gql(rq.ctx, fmt.Sprintf(`mutation { create_Item(input: {%s}) { _docID } }`, d.initial)); cerr == "" {
					for _, row := range rowsOf(cd, "create_Item") {
						if fmt.Sprint(row["_docID"]) != d.id {
							e.violate("harness-acp", "re-create of the initial content gave another docID", nil)
						}
					}
				}
				e.count("recreate_probes")
				real.gql(rq.ctx, fmt.Sprintf(`mutation { update_Item(docID: "%s", input: {name: "HACKED"}) { _docID } }`, d.id))
				real.gql(rq.ctx, fmt.Sprintf(`mutation { update_Item(filter: {k: {_eq: %d}}, input: {name: "HACKED"}) { _docID } }`, d.k))
				real.gql(rq.ctx, fmt.Sprintf(`mutation { delete_Item(docID: "%s") { _docID } }`, d.id))
				real.gql(rq.ctx, fmt.Sprintf(`mutation { delete_Item(filter: {k: {_eq: %d}}) { _docID } }`, d.k))
				after, _ := real.gql(octx, fmt.Sprintf(`query { Item(docID: "%s", showDeleted: true) { k name qty _deleted } }`, d.id))
				e.Res.Evaluations += 5
				if canonJSON(before) != canonJSON(after) {
					e.violate("acp-write-unguarded", fmt.Sprintf("%s changed a document it may not write: before %s after %s", rq.name, canonJSON(before), canonJSON(after)), map[string]any{"requester": rq.name, "document": d.k})
				}
				// the owner puts the original name back (the twin never saw the change)
				if rows := rowsOf(orig, "Item"); !d.deleted && len(rows) == 1 {
					lit := "null"
					if sv, ok := rows[0]["name"].(string); ok {
						lit = fmt.Sprintf("%q", sv)
					}
					real.gql(octx, fmt.Sprintf(`mutation { update_Item(docID: "%s", input: {name: %s}) { _docID } }`, d.id, lit))
				}
			}
			// read-only access: a requester that may read but not update / delete a private document (reader
			// relation) must not change it through any write path, including the filter based collection API
			for _, d := range docs {
				if !rq.can(d) || d.owner != "O" || rq.name == "owner" || d.deleted {
					continue
				}
				before, _ := real.gql(octx, fmt.Sprintf(`query { Item(docID: "%s") { k name qty _deleted } }`, d.id))
				real.gql(rq.ctx, fmt.Sprintf(`mutation { update_Item(docID: "%s", input: {name: "HACKED"}) { _docID } }`, d.id))
				real.gql(rq.ctx, fmt.Sprintf(`mutation { update_Item(filter: {k: {_eq: %d}}, input: {name: "HACKED"}) { _docID } }`, d.k))
				if col, err := real.n.DB.GetCollectionByName(rq.ctx, "Item"); err == nil {
					_, _ = col.UpdateWithFilter(rq.ctx, fmt.Sprintf(`{k: {_eq: %d}}`, d.k), `{"name": "HACKED"}`)
					_, _ = col.DeleteWithFilter(rq.ctx, fmt.Sprintf(`{k: {_eq: %d}}`, d.k))
				}
				real.gql(rq.ctx, fmt.Sprintf(`mutation { delete_Item(docID: "%s") { _docID } }`, d.id))
				after, _ := real.gql(octx, fmt.Sprintf(`query { Item(docID: "%s") { k name qty _deleted } }`, d.id))
				e.Res.Evaluations += 5
				e.count("readonly_write_probes")
				if canonJSON(before) != canonJSON(after) {
					e.violate("acp-write-unguarded", fmt.Sprintf("%s may read but not write document k=%d and changed it: before %s after %s", rq.name, d.k, canonJSON(before), canonJSON(after)), map[string]any{"requester": rq.name, "document": d.k})
				}
			}
			twin.close(ctx)
		}
		// grant / revoke take effect from the next request
		for _, d := range docs {
			if d.owner != "O" {
				continue
			}
			q := fmt.Sprintf(`query { Item(docID: "%s") { k } }`, d.id)
			_, _ = real.n.DB.AddDACActorRelationship(octx, "Item", d.id, "reader", R.DID())
			d1, _ := real.gql(rctx, q)
			_, _ = real.n.DB.DeleteDACActorRelationship(octx, "Item", d.id, "reader", R.DID())
			d2, _ := real.gql(rctx, q)
			e.Res.Evaluations += 2
			if len(rowsOf(d1, "Item")) != 1 || len(rowsOf(d2, "Item")) != 0 {
				e.violate("acp-grant-revoke", fmt.Sprintf("document k=%d: visible to the reader after grant=%v, after revoke=%v", d.k, len(rowsOf(d1, "Item")) == 1, len(rowsOf(d2, "Item")) == 1), nil)
			}
			break
		}
		// showDeleted listing as a requester who may not read everything: must answer, and leak nothing
		{
			done := make(chan map[string]any, 1)
			go func() {
				d, _ := real.gql(sctx, `query { Item(showDeleted: true) { _docID k _deleted } }`)
				done <- d
			}()
			select {
			case d := <-done:
				for _, row := range rowsOf(d, "Item") {
					for _, dd := range docs {
						if dd.owner == "O" && fmt.Sprint(row["_docID"]) == dd.id {
							od, _ := real.gql(octx, fmt.Sprintf(`query { Item(showDeleted: true, filter: {k: {_eq: %d}}) { _docID k name _deleted } }`, dd.k))
							if os.Getenv("VERIF_DEBUG") != "" {
								for key, v := range real.scan(ctx, "/db/data") {
									if strings.Contains(key, dd.id) {
										fmt.Printf("RAW %q = %x\n", key, v)
									}
								}
							}
							e.violate("acp-leak-listing", fmt.Sprintf("showDeleted listing returns the unreadable document k=%d to the stranger (row %s; the owner sees %s; shared=%v deleted=%v)", dd.k, canonJSON(row), canonJSON(od), dd.shared, dd.deleted), nil)
						}
					}
				}
			case <-time.After(15 * time.Second):
				e.violate("acp-showdeleted-hang", "Item(showDeleted: true) asked by a requester who may not read every document did not answer within 15s", map[string]any{"request": "query { Item(showDeleted: true) { k _deleted } }", "requester": "stranger"})
				hung = true
			}
			e.Res.Evaluations++
		}
		if wi == 0 {
			e.sample(map[string]any{"documents": len(docs), "policy": "owner + reader may read; owner may update/delete", "schema": schema})
		}
		pcases = append([]string{fmt.Sprintf("DOCS W%d %s", wi, docsCoq)}, pcases...)
		if !hung {
			real.close(ctx)
		}
	}
	// case file: one Definition per world
	var defs, items []string
	for _, c := range pcases {
		if strings.HasPrefix(c, "DOCS ") {
			parts := strings.SplitN(c[5:], " ", 2)
			defs = append(defs, fmt.Sprintf("Definition %s : list (nat * doc) := %s.", parts[0], parts[1]))
		} else {
			items = append(items, c)
		}
	}
	var sb strings.Builder
	sb.WriteString("From Coq Require Import List ZArith Bool.\nFrom Verif Require Import CorrC10.\nImport ListNotations.\nOpen Scope Z_scope.\n")
	sb.WriteString(strings.Join(defs, "\n") + "\n")
	sb.WriteString("Definition cases : list pcase := [\n" + strings.Join(items, ";\n") + "\n].\nDefinition M := Eval vm_compute in (mismatches cases).\nPrint M.\n")
	fn := e.Out + "/cases_C10_0.v"
	writeFile(fn, sb.String())
	writeFile(e.Out+"/cases_C10_0.items", strings.Join(items, "\n"))
	e.Res.CaseFiles = append(e.Res.CaseFiles, fn)
	e.Res.NCases += len(items)
}

func init() { engines["acp"] = engAcp }
