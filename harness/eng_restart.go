package main

// Engine "restart" (C14).
// A node N on a traced store and a twin T that is never restarted receive the same generated history: schema
// additions, add-field patches, switches of the active version, index creation / removal, document creates /
// updates / deletes.  After an operation N is "restarted" with probability p: a fresh node is opened on a store that
// holds exactly the committed contents of N's store; from then on it takes N's place.  After every operation and
// every restart N and T must give the same observation: collection and index descriptions of every version
// (names, version / collection ids, field ids, index ids), dumps of every active collection incl. deleted
// documents, and the commit listing; the results (errors) of every operation must agree as well, and the ids assigned
// after a restart must be the ids the twin assigns (no reuse).
// Crash points: every storage commit inside an operation is captured; for every captured intermediate commit a node
// is opened on the store as of that commit: it must open, and show either the state before or the state after the
// operation.

import (
	"context"
	"encoding/json"
	"fmt"
	"sort"
	"strings"

	"github.com/sourcenetwork/immutable"

	"github.com/sourcenetwork/defradb/client"
	"github.com/sourcenetwork/lens/host-go/config/model"
)

func observe(ctx context.Context, x *Nd) string {
	var sb strings.Builder
	cols, err := x.n.DB.GetCollections(ctx, client.CollectionFetchOptions{IncludeInactive: immutable.Some(true)})
	if err != nil {
		return "GetCollections: " + err.Error()
	}
	var descs []string
	active := map[string][]string{}
	for _, c := range cols {
		v := c.Version()
		b, _ := json.Marshal(v)
		descs = append(descs, string(b))
		if v.IsActive && v.Name != "" {
			var fs []string
			for _, f := range c.Definition().GetFields() {
				if f.Kind.IsObject() {
					continue
				}
				fs = append(fs, f.Name)
			}
			active[v.Name] = fs
		}
	}
	sort.Strings(descs)
	sb.WriteString(strings.Join(descs, "\n"))
	var names []string
	for n := range active {
		names = append(names, n)
	}
	sort.Strings(names)
	for _, n := range names {
		d, errs := x.gql(ctx, fmt.Sprintf(`query { %s(showDeleted: true) { _deleted %s } }`, n, strings.Join(active[n], " ")))
		rows := rowsOf(d, n)
		var rs []string
		for _, r := range rows {
			rs = append(rs, canonJSON(r))
		}
		sort.Strings(rs)
		sb.WriteString("\n" + n + ": " + strings.Join(rs, " ") + errs)
	}
	d, errs := x.gql(ctx, `query { commits { cid docID fieldName height delta } }`)
	sb.WriteString("\ncommits: " + canonJSON(sortNested(d)) + errs)
	return sb.String()
}

type rsOp struct {
	desc string
	run  func(x *Nd) string // returns a canonical result / error text
}

func engRestart(e *Env) {
	ctx := context.Background()
	r := NewRng(e.Seed)
	e.Res.Rule = "histories of 12-25 operations (add type with 0-1 indexed field; add-field patch; switch of active version; create / drop index; create / update / delete documents), restart after an operation with probability 0.3, every intermediate storage commit inside an operation opened as a crash point (quick tier: at most 3 per history); distinct = distinct history; non-trivial = history with a restart after a schema / index operation followed by further schema / index operations"
	nHist, maxCrash := 6, 3
	if e.thorough() {
		nHist, maxCrash = 120, 1000
	}
	acpRounds := 2
	if e.thorough() {
		acpRounds = 25
	}
	restartACP(e, ctx, r, acpRounds)
	for hi := 0; hi < nHist; hi++ {
		n, ctl, raw := newTracedNode(ctx, "N")
		t := newNd(ctx, "T")
		n.noEvents()
		t.noEvents()
		var desc []string
		replay := map[string]any{"operations": &desc}
		types := []string{}
		fieldsOf := map[string][]string{}
		versionsOf := map[string][]string{} // type -> version ids (as assigned on T)
		indexesOf := map[string][]string{}  // type -> index names
		docsOf := map[string][]string{}
		serial := 0
		crashes := 0
		nontrivial, restartedAfterSchema := false, false
		bad := false

		gen := func() rsOp {
			for {
				switch c := r.Intn(12); {
				case c == 0 || len(types) == 0:
					name := fmt.Sprintf("R%d", len(types))
					idx := ""
					if r.Bool() {
						idx = " @index"
					}
					sdl := fmt.Sprintf(`type %s { a: Int%s b: String c: Int }`, name, idx)
					types = append(types, name)
					fieldsOf[name] = []string{"a", "b", "c"}
					return rsOp{"AddSchema " + sdl, func(x *Nd) string {
						cols, err := x.n.DB.AddSchema(ctx, sdl)
						if err != nil {
							return "ERR " + err.Error()
						}
						var ids []string
						for _, c := range cols {
							ids = append(ids, c.VersionID)
						}
						if x == t {
							versionsOf[name] = append(versionsOf[name], ids...)
						}
						return strings.Join(ids, ",")
					}}
				case c == 1:
					ty := Pick(r, types)
					f := fmt.Sprintf("p%d", len(fieldsOf[ty]))
					setActive := r.Chance(70)
					if setActive {
						fieldsOf[ty] = append(fieldsOf[ty], f)
					}
					p := fmt.Sprintf(`[{ "op": "add", "path": "/%s/Fields/-", "value": {"Name": "%s", "Kind": "Int"} }]`, ty, f)
					return rsOp{fmt.Sprintf("PatchSchema %s setActive=%v", p, setActive), func(x *Nd) string {
						if err := x.n.DB.PatchSchema(ctx, p, immutable.None[model.Lens](), setActive); err != nil {
							return "ERR " + err.Error()
						}
						return "ok"
					}}
				case c == 2:
					ty := Pick(r, types)
					f := Pick(r, fieldsOf[ty])
					name := fmt.Sprintf("ix%d", serial)
					serial++
					indexesOf[ty] = append(indexesOf[ty], name)
					return rsOp{fmt.Sprintf("CreateIndex %s.%s %s", ty, f, name), func(x *Nd) string {
						col, err := x.n.DB.GetCollectionByName(ctx, ty)
						if err != nil {
							return "ERR " + err.Error()
						}
						req := idxReq(f, false, false)
						req.Name = name
						d, err := col.CreateIndex(ctx, req)
						if err != nil {
							return "ERR " + err.Error()
						}
						return fmt.Sprintf("index id %d", d.ID)
					}}
				case c == 3:
					ty := Pick(r, types)
					if len(indexesOf[ty]) == 0 {
						continue
					}
					i := r.Intn(len(indexesOf[ty]))
					name := indexesOf[ty][i]
					indexesOf[ty] = append(indexesOf[ty][:i], indexesOf[ty][i+1:]...)
					return rsOp{fmt.Sprintf("DropIndex %s %s", ty, name), func(x *Nd) string {
						col, err := x.n.DB.GetCollectionByName(ctx, ty)
						if err != nil {
							return "ERR " + err.Error()
						}
						if err := col.DropIndex(ctx, name); err != nil {
							return "ERR " + err.Error()
						}
						return "ok"
					}}
				case c <= 7:
					ty := Pick(r, types)
					serial++
					q := fmt.Sprintf(`mutation { create_%s(input: {a: %d, b: "s%d", c: %d}) { _docID } }`, ty, r.Intn(5), serial, serial)
					return rsOp{q, func(x *Nd) string {
						d, errs := x.gql(ctx, q)
						if errs == "" && x == t {
							docsOf[ty] = append(docsOf[ty], fmt.Sprint(rowsOf(d, "create_"+ty)[0]["_docID"]))
						}
						return canonJSON(d) + errs
					}}
				case c <= 9:
					ty := Pick(r, types)
					if len(docsOf[ty]) == 0 {
						continue
					}
					serial++
					f := Pick(r, fieldsOf[ty])
					lit := fmt.Sprint(serial)
					if f == "b" {
						lit = fmt.Sprintf(`"u%d"`, serial)
					}
					q := fmt.Sprintf(`mutation { update_%s(docID: "%s", input: {%s: %s}) { _docID } }`, ty, Pick(r, docsOf[ty]), f, lit)
					return rsOp{q, func(x *Nd) string { d, errs := x.gql(ctx, q); return canonJSON(d) + errs }}
				case c == 10:
					ty := Pick(r, types)
					if len(docsOf[ty]) == 0 {
						continue
					}
					i := r.Intn(len(docsOf[ty]))
					id := docsOf[ty][i]
					docsOf[ty] = append(docsOf[ty][:i], docsOf[ty][i+1:]...)
					q := fmt.Sprintf(`mutation { delete_%s(docID: "%s") { _docID } }`, ty, id)
					return rsOp{q, func(x *Nd) string { d, errs := x.gql(ctx, q); return canonJSON(d) + errs }}
				default:
					ty := Pick(r, types)
					if len(versionsOf[ty]) == 0 {
						continue
					}
					// switch to the first version (fields a b c) and back is covered by C19; here: re-activate the newest
					q := fmt.Sprintf(`query { %s { _docID a b c } }`, ty)
					return rsOp{"noop " + ty, func(x *Nd) string { d, errs := x.gql(ctx, q); return canonJSON(d) + errs }}
				}
			}
		}

		nOps := 12 + r.Intn(14)
		for oi := 0; oi < nOps && !bad; oi++ {
			op := gen()
			isSchemaOp := !strings.HasPrefix(op.desc, "mutation") && !strings.HasPrefix(op.desc, "noop")
			if isSchemaOp && restartedAfterSchema {
				nontrivial = true
			}
			before := ""
			var snaps []map[string]string
			lastHash := ""
			if crashes < maxCrash {
				before = observe(ctx, t)
				ctl.onCommit = func() {
					s := dumpStore(ctx, raw)
					h := sha256hex([]byte(canonJSON(s)))
					if h != lastHash {
						lastHash = h
						snaps = append(snaps, s)
					}
				}
			}
			rn := op.run(n)
			ctl.onCommit = nil
			rt := op.run(t)
			desc = append(desc, op.desc+" => "+trunc(rt))
			e.Res.Evaluations++
			if rn != rt {
				e.violate("restart-op-result", fmt.Sprintf("operation %q: the (restarted) node answers %s, the twin %s", op.desc, trunc(rn), trunc(rt)), replay)
				bad = true
				break
			}
			on, ot := observe(ctx, n), observe(ctx, t)
			if on != ot {
				e.violate("restart-diverged", fmt.Sprintf("after %q the node and its never-restarted twin differ: %s", op.desc, firstDiff(on, ot)), replay)
				bad = true
				break
			}
			// crash points: every intermediate commit of this operation
			if len(snaps) > 1 {
				for si, s := range snaps[:len(snaps)-1] {
					if crashes >= maxCrash {
						break
					}
					crashes++
					e.count("crash_points_opened")
					m, _, _, err := newNodeOnSnapshot(ctx, "M", s)
					e.Res.Evaluations++
					if err != nil {
						e.violate("crash-open-failed", fmt.Sprintf("a node cannot be opened on the store as of commit %d of %d inside %q: %v", si+1, len(snaps), op.desc, err), replay)
						bad = true
						continue
					}
					m.noEvents()
					om := observe(ctx, m)
					if om != before && om != ot {
						e.violate("crash-intermediate-state", fmt.Sprintf("the store as of commit %d of %d inside %q shows neither the state before nor the state after the operation: vs before: %s", si+1, len(snaps), op.desc, firstDiff(om, before)), replay)
						bad = true
					}
					m.close(ctx)
				}
			}
			// restart
			if r.Chance(30) {
				snap := dumpStore(ctx, raw)
				n.close(ctx)
				var err error
				n, ctl, raw, err = newNodeOnSnapshot(ctx, "N", snap)
				desc = append(desc, "RESTART")
				e.count("restarts")
				if err != nil {
					e.violate("restart-open-failed", "the node cannot be reopened on its own store: "+err.Error(), replay)
					bad = true
					break
				}
				n.noEvents()
				restartedAfterSchema = restartedAfterSchema || isSchemaOp
				e.Res.Evaluations++
				if on2 := observe(ctx, n); on2 != ot {
					e.violate("restart-diverged", fmt.Sprintf("right after reopening (last operation %q) the node differs from its twin: %s", op.desc, firstDiff(on2, ot)), replay)
					bad = true
				}
			}
		}
		if nontrivial {
			e.distinct(strings.Join(desc, "|"))
		}
		if hi == 0 {
			e.sample(map[string]any{"operations": desc})
		}
		if n != nil {
			n.close(ctx)
		}
		t.close(ctx)
	}
}

func firstDiff(a, b string) string {
	la, lb := strings.Split(a, "\n"), strings.Split(b, "\n")
	for i := 0; i < len(la) && i < len(lb); i++ {
		if la[i] != lb[i] {
			x, y := la[i], lb[i]
			j := 0
			for j < len(x) && j < len(y) && x[j] == y[j] {
				j++
			}
			lo := j - 40
			if lo < 0 {
				lo = 0
			}
			hx, hy := j+120, j+120
			if hx > len(x) {
				hx = len(x)
			}
			if hy > len(y) {
				hy = len(y)
			}
			return fmt.Sprintf("line %d: ...%s <> ...%s", i, x[lo:hx], y[lo:hy])
		}
	}
	return fmt.Sprintf("lengths %d / %d lines", len(la), len(lb))
}

func init() { engines["restart"] = engRestart }
