package main

import (
	"context"
	"fmt"
	"sort"
	"strings"
	"sync"
)

// concIndexWitness (C16): an index is created on a collection with a few hundred documents while other goroutines keep
// creating documents. Every create and the index creation that reported success must have their effect in the final
// state: the index-backed listing equals the scan.
func concIndexWitness(e *Env) {
	ctx := context.Background()
	x := newNd(ctx, "CI")
	x.noEvents()
	defer x.close(ctx)
	x.addSchema(ctx, `type Cx { a: Int b: String }`)
	for i := 0; i < 300; i++ {
		x.gql(ctx, fmt.Sprintf(`mutation { create_Cx(input: {a: %d, b: "pre%d"}) { _docID } }`, i%7, i))
	}
	col, err := x.n.DB.GetCollectionByName(ctx, "Cx")
	if err != nil {
		e.violate("harness-conc", err.Error(), nil)
		return
	}
	var wg sync.WaitGroup
	var mu sync.Mutex
	created := map[string]bool{}
	idxOK := false
	stop := make(chan struct{})
	for g := 0; g < 3; g++ {
		wg.Add(1)
		go func(g int) {
			defer wg.Done()
			for k := 0; ; k++ {
				select {
				case <-stop:
					return
				default:
				}
				key := fmt.Sprintf("g%dk%d", g, k)
				if _, errs := x.gql(ctx, fmt.Sprintf(`mutation { create_Cx(input: {a: %d, b: "%s"}) { _docID } }`, k%7, key)); errs == "" {
					mu.Lock()
					created[key] = true
					mu.Unlock()
				}
				if k > 400 {
					return
				}
			}
		}(g)
	}
	req := idxReq("a", false, false)
	req.Name = "ix_a"
	_, ierr := col.CreateIndex(ctx, req)
	idxOK = ierr == nil
	close(stop)
	wg.Wait()
	e.count(fmt.Sprintf("conc_index_created_%v", idxOK))
	if !idxOK {
		e.count("conc_index_creation_refused")
		return
	}
	scan, _ := x.gql(ctx, `query { Cx { b } }`)
	var all []string
	for _, row := range rowsOf(scan, "Cx") {
		all = append(all, fmt.Sprint(row["b"]))
	}
	sort.Strings(all)
	var viaIndex []string
	for v := 0; v < 7; v++ {
		d, errs := x.gql(ctx, fmt.Sprintf(`query { Cx(filter: {a: {_eq: %d}}) { b } }`, v))
		if errs != "" {
			e.violate("concurrent-error", errs, nil)
		}
		for _, row := range rowsOf(d, "Cx") {
			viaIndex = append(viaIndex, fmt.Sprint(row["b"]))
		}
	}
	sort.Strings(viaIndex)
	e.Res.Evaluations += 8
	mu.Lock()
	n := len(created)
	mu.Unlock()
	e.count("conc_index_creates_during_build")
	if strings.Join(all, ",") != strings.Join(viaIndex, ",") {
		missing := 0
		have := map[string]bool{}
		for _, b := range viaIndex {
			have[b] = true
		}
		var ex []string
		for _, b := range all {
			if !have[b] {
				missing++
				if len(ex) < 5 {
					ex = append(ex, b)
				}
			}
		}
		e.violate("concurrent-index-incomplete", fmt.Sprintf("an index on a was created while 3 goroutines created %d documents; both reported success; afterwards the scan lists %d documents, the index-backed lookups %d (missing e.g. %v)", n, len(all), len(viaIndex), ex), map[string]any{"missing": missing})
	}
}
