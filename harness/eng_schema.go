package main

// Engine "schema" (C19).
// Node A: histories of add-field patches (made active or not), switches of the active version back and forth, creates
// and updates under whatever version is active.  A peer B applies only a prefix of the patches (it lags behind), writes
// its own documents, and all commits are exchanged both ways.
//   - a patch or a switch must leave the document ids, the commit listing (cid, height, delta) and the values of every
//     field that stays visible exactly as they were;
//   - under the active version every live document is listed, with its written values, and fields it never wrote
//     read null; fields outside the active version cannot be queried;
//   - after the exchange A and B agree on every field both know.
// The history of A and the final per-field observations are written as a Coq case for Schema/Evolve.v.

import (
	"context"
	"fmt"
	"sort"
	"strings"
	"time"

	"github.com/sourcenetwork/immutable"

	"github.com/sourcenetwork/defradb/client"
	"github.com/sourcenetwork/lens/host-go/config/model"
)

type evField struct {
	name string
	kind string
	no   int
}

var evBase = []evField{{"name", "String", 0}, {"n", "Int", 1}}
var evPool = []evField{{"f2", "String", 2}, {"f3", "Int", 3}, {"f4", "Boolean", 4}, {"f5", "Float", 5}, {"f6", "String", 6}}

type evNode struct {
	x        *Nd
	versions [][]evField // field lists, oldest first
	vids     []string
	active   int
}

func (n *evNode) versionIDs(ctx context.Context) map[string]bool {
	cols, err := n.x.n.DB.GetCollections(ctx, client.CollectionFetchOptions{IncludeInactive: immutable.Some(true)})
	if err != nil {
		panic(err)
	}
	out := map[string]bool{}
	for _, c := range cols {
		out[c.Version().VersionID] = true
	}
	return out
}

func (n *evNode) patch(ctx context.Context, f evField, setActive bool) error {
	before := n.versionIDs(ctx)
	p := fmt.Sprintf(`[{ "op": "add", "path": "/Ev/Fields/-", "value": {"Name": "%s", "Kind": "%s"} }]`, f.name, f.kind)
	if err := n.x.n.DB.PatchSchema(ctx, p, immutable.None[model.Lens](), setActive); err != nil {
		return err
	}
	for id := range n.versionIDs(ctx) {
		if !before[id] {
			n.vids = append(n.vids, id)
		}
	}
	// a patch is relative to the active version: the new version is the active one plus the field
	base := n.versions[n.active]
	n.versions = append(n.versions, append(append([]evField{}, base...), f))
	if setActive {
		n.active = len(n.versions) - 1
	}
	if len(n.vids) != len(n.versions) {
		return fmt.Errorf("expected one new version id, have %d ids for %d versions", len(n.vids), len(n.versions))
	}
	return nil
}

func (n *evNode) knows(f string) bool {
	for _, v := range n.versions {
		for _, g := range v {
			if g.name == f {
				return true
			}
		}
	}
	return false
}

// widest returns the index of the version with the most fields
func (n *evNode) widest() int {
	w := 0
	for i, v := range n.versions {
		if len(v) > len(n.versions[w]) {
			w = i
		}
	}
	return w
}

func evLiteral(r *Rng, f evField, serial int) (gql string, want any, id int) {
	switch f.kind {
	case "String":
		s := fmt.Sprintf("v%d", serial)
		return `"` + s + `"`, s, serial
	case "Int":
		return fmt.Sprint(serial), int64(serial), serial
	case "Boolean":
		b := serial%2 == 0
		return fmt.Sprint(b), b, serial
	default:
		v := float64(serial) + 0.5
		return fmt.Sprint(v), v, serial
	}
}

func engSchema(e *Env) {
	ctx := context.Background()
	r := NewRng(e.Seed)
	e.Res.Rule = "histories of 10-22 operations on node A: add-field patch (5 kinds; made active with probability 0.6), switch of the active version to any existing one, create / update under the active version; peer B applies a strict prefix of A's patches and writes its own documents; all commits exchanged both ways at the end and once in the middle; distinct = distinct operation sequence; non-trivial = the history contains a switch to an older version followed by a write, or a write under a version B does not know"
	nHist := 10
	if e.thorough() {
		nHist = 250
	}
	var cases []string
	for hi := 0; hi < nHist; hi++ {
		mk := func(name string) *evNode {
			x := newNd(ctx, name)
			x.addSchema(ctx, `type Ev { name: String n: Int }`)
			n := &evNode{x: x, versions: [][]evField{append([]evField{}, evBase...)}}
			for id := range n.versionIDs(ctx) {
				n.vids = append(n.vids, id)
			}
			return n
		}
		a, b := mk("A"), mk("B")
		colID := getCol(ctx, a.x, "Ev").Version().CollectionID
		var desc, coqOps []string
		replay := map[string]any{"operations": &desc}
		ref := map[string]map[string]any{}   // docID -> field -> value (all fields ever written, both nodes)
		refID := map[string]map[string]int{} // value ids for the Coq case
		owner := map[string]string{}
		var docOrder []string
		serial := 0
		poolAt, bPatches := 0, 0
		nontrivial := false
		bad := false
		type pend struct {
			docID  string
			c      string
			fields []string
		}
		var pendingA, pendingB []pend
		lost := map[string]bool{} // receiver|doc|field: a write was delivered while the field was not in the receiver's active version
		inActive := func(n *evNode, f string) bool {
			for _, g := range n.versions[n.active] {
				if g.name == f {
					return true
				}
			}
			return false
		}

		stale := map[string]bool{} // documents with commits not yet delivered to the other node
		commitsOf := func(n *evNode) string {
			d, errs := n.x.gql(ctx, `query { commits { cid docID fieldName height delta } }`)
			return canonJSON(sortNested(d)) + errs
		}
		// dump under the active version; returns docID -> row
		dump := func(n *evNode) (map[string]map[string]any, string) {
			var fs []string
			for _, f := range n.versions[n.active] {
				fs = append(fs, f.name)
			}
			d, errs := n.x.gql(ctx, fmt.Sprintf(`query { Ev { _docID %s } }`, strings.Join(fs, " ")))
			out := map[string]map[string]any{}
			for _, row := range rowsOf(d, "Ev") {
				out[fmt.Sprint(row["_docID"])] = row
			}
			return out, errs
		}
		checkView := func(n *evNode, when string, docs []string) {
			got, errs := dump(n)
			if errs != "" {
				e.violate("schema-query-error", fmt.Sprintf("%s %s: %s", n.x.name, when, errs), replay)
				bad = true
				return
			}
			e.Res.Evaluations++
			if len(got) != len(docs) {
				e.violate("schema-docs-missing", fmt.Sprintf("%s %s: %d documents listed under the active version, %d exist", n.x.name, when, len(got), len(docs)), replay)
				bad = true
			}
			for _, id := range docs {
				row, ok := got[id]
				if !ok {
					e.violate("schema-docs-missing", fmt.Sprintf("%s %s: document %s is not listed under the active version", n.x.name, when, id), replay)
					bad = true
					continue
				}
				for _, f := range n.versions[n.active] {
					want := ref[id][f.name]
					if owner[id] != n.x.name && (stale[id] || lost[n.x.name+"|"+id+"|"+f.name]) {
						continue // the other node has written since the last exchange / the write was ignored on arrival (F42)
					}
					if canonJSON(row[f.name]) != canonJSON(want) {
						e.violate("schema-value-changed", fmt.Sprintf("%s %s: document %s field %s reads %s, written %s", n.x.name, when, id, f.name, canonJSON(row[f.name]), canonJSON(want)), replay)
						bad = true
					}
				}
			}
		}
		docsOf := func(n *evNode, merged map[string]bool) []string {
			var out []string
			for _, id := range docOrder {
				if owner[id] == n.x.name || merged[id] {
					out = append(out, id)
				}
			}
			return out
		}
		mergedA, mergedB := map[string]bool{}, map[string]bool{}

		var forced map[string]bool // when set, exactly these fields are written
		write := func(n *evNode, create bool) {
			fields := n.versions[n.active]
			var parts []string
			vals := map[string]any{}
			ids := map[string]int{}
			for _, f := range fields {
				if (forced == nil && r.Chance(55)) || forced[f.name] {
					serial++
					g, w, id := evLiteral(r, f, serial)
					parts = append(parts, f.name+": "+g)
					vals[f.name], ids[f.name] = w, id
				}
			}
			if len(parts) == 0 {
				serial++
				g, w, id := evLiteral(r, fields[0], serial)
				parts = append(parts, fields[0].name+": "+g)
				vals[fields[0].name], ids[fields[0].name] = w, id
			}
			var q, docID string
			if create {
				q = fmt.Sprintf(`mutation { create_Ev(input: {%s}) { _docID } }`, strings.Join(parts, ", "))
			} else {
				var mine []string
				for _, id := range docOrder {
					if owner[id] == n.x.name {
						mine = append(mine, id)
					}
				}
				if len(mine) == 0 {
					return
				}
				docID = Pick(r, mine)
				q = fmt.Sprintf(`mutation { update_Ev(docID: "%s", input: {%s}) { _docID } }`, docID, strings.Join(parts, ", "))
			}
			d, errs := n.x.gql(ctx, q)
			desc = append(desc, n.x.name+": "+q+" "+errs)
			if errs != "" {
				e.violate("schema-write-rejected", fmt.Sprintf("%s: a write of fields of the active version was rejected: %s", n.x.name, errs), replay)
				bad = true
				return
			}
			if create {
				docID = fmt.Sprint(rowsOf(d, "create_Ev")[0]["_docID"])
				docOrder = append(docOrder, docID)
				owner[docID] = n.x.name
				ref[docID], refID[docID] = map[string]any{}, map[string]int{}
			}
			for f, v := range vals {
				ref[docID][f] = v
				refID[docID][f] = ids[f]
			}
			stale[docID] = true
			evs := n.x.drainUpdates(1, 2*time.Second)
			for _, ev := range evs {
				var fl []string
				for f := range vals {
					fl = append(fl, f)
				}
				p := pend{ev.DocID, ev.Cid.String(), fl}
				if n == a {
					pendingA = append(pendingA, p)
				} else {
					pendingB = append(pendingB, p)
				}
			}
			if n == a {
				di := 0
				for i, id := range docOrder {
					if id == docID {
						di = i
					}
				}
				for _, f := range fields {
					if id, ok := ids[f.name]; ok {
						coqOps = append(coqOps, fmt.Sprintf("Apply {| w_doc := %d%%nat; w_fld := %d%%nat; w_val := (%d%%nat, [%d%%Z]) |}", di, f.no, id, id))
					}
				}
				if a.active < len(a.versions)-1 {
					nontrivial = true
				}
				if len(a.versions) > len(b.versions) && a.active >= len(b.versions) {
					nontrivial = true
				}
			}
		}
		exchange := func() {
			for _, p := range pendingA {
				for _, f := range p.fields {
					if !inActive(b, f) {
						lost["B|"+p.docID+"|"+f] = true
					}
				}
				copyClosure(ctx, a.x, b.x, mustCid(p.c))
				if et := b.x.merge(ctx, p.docID, mustCid(p.c), colID); et != "" {
					e.violate("schema-merge-failed", fmt.Sprintf("B (at version %d of %d) failed to merge a commit of A: %s", len(b.versions), len(a.versions), et), replay)
					bad = true
				} else {
					mergedB[p.docID] = true
				}
			}
			for _, p := range pendingB {
				for _, f := range p.fields {
					if !inActive(a, f) {
						lost["A|"+p.docID+"|"+f] = true
					}
				}
				copyClosure(ctx, b.x, a.x, mustCid(p.c))
				if et := a.x.merge(ctx, p.docID, mustCid(p.c), colID); et != "" {
					e.violate("schema-merge-failed", "A failed to merge a commit of B: "+et, replay)
					bad = true
				} else {
					mergedA[p.docID] = true
				}
			}
			pendingA, pendingB = nil, nil
			stale = map[string]bool{}
			a.x.drainUpdates(0, 5*time.Millisecond)
			b.x.drainUpdates(0, 5*time.Millisecond)
			desc = append(desc, "exchange of all commits")
		}

		write(a, true)
		write(b, true)
		if hi == 0 {
			// scripted: the peer learns a new version without activating it, merges under the old one, switches to the
			// new one with SetActiveSchemaVersion, and then receives a write of the field that only the new version has
			f := evPool[poolAt]
			poolAt++
			bPatches++
			ea, eb := a.patch(ctx, f, true), b.patch(ctx, f, false)
			if ea != nil || eb != nil {
				e.violate("harness-schema", fmt.Sprint("scripted patch failed: ", ea, eb), replay)
				bad = true
			} else {
				desc = append(desc, fmt.Sprintf("A: patch add %s (active); B: patch add %s (not active)", f.name, f.name))
				coqOps = append(coqOps, fmt.Sprintf("Patch [%d%%nat] true", f.no))
				forced = map[string]bool{"name": true}
				write(a, true)
				exchange()
				if err := b.x.n.DB.SetActiveSchemaVersion(ctx, b.vids[len(b.vids)-1]); err != nil {
					e.violate("schema-switch-failed", "B: "+err.Error(), replay)
					bad = true
				}
				b.active = len(b.versions) - 1
				desc = append(desc, "B: set active version to the new one")
				forced = map[string]bool{f.name: true}
				write(a, false)
				forced = nil
				exchange()
				if !bad {
					checkView(b, "after the exchange that follows the switch", docsOf(b, mergedB))
				}
			}
		}
		nOps := 10 + r.Intn(13)
		for oi := 0; oi < nOps && !bad; oi++ {
			switch c := r.Intn(10); {
			case c < 2 && poolAt < len(evPool): // patch on A
				f := evPool[poolAt]
				poolAt++
				setActive := r.Chance(60)
				before := commitsOf(a)
				if err := a.patch(ctx, f, setActive); err != nil {
					e.violate("harness-schema", "patch failed: "+err.Error(), replay)
					bad = true
					break
				}
				desc = append(desc, fmt.Sprintf("A: patch add %s:%s setActive=%v", f.name, f.kind, setActive))
				coqOps = append(coqOps, fmt.Sprintf("Patch [%d%%nat] %s", f.no, coqBool(setActive)))
				if after := commitsOf(a); after != before {
					e.violate("schema-history-changed", "the commit listing changed across an add-field patch", replay)
					bad = true
				}
				checkView(a, "after the patch", docsOf(a, mergedA))
				// B follows with probability 0.4, but always stays at least one patch behind
				if bPatches < poolAt-1 && r.Chance(40) {
					g := evPool[bPatches]
					if err := b.patch(ctx, g, r.Chance(60)); err != nil {
						e.violate("harness-schema", "patch on B failed: "+err.Error(), replay)
						bad = true
						break
					}
					bPatches++
					desc = append(desc, fmt.Sprintf("B: patch add %s", g.name))
				}
			case c < 4 && len(a.versions) > 1: // switch
				to := r.Intn(len(a.versions))
				before := commitsOf(a)
				if err := a.x.n.DB.SetActiveSchemaVersion(ctx, a.vids[to]); err != nil {
					e.violate("schema-switch-failed", err.Error(), replay)
					bad = true
					break
				}
				a.active = to
				desc = append(desc, fmt.Sprintf("A: set active version %d of %d", to, len(a.versions)))
				coqOps = append(coqOps, fmt.Sprintf("Activate %d%%nat", to))
				if after := commitsOf(a); after != before {
					e.violate("schema-history-changed", "the commit listing changed across a switch of the active version", replay)
					bad = true
				}
				checkView(a, "after the switch", docsOf(a, mergedA))
			case c < 6:
				write(a, true)
				checkView(a, "after a create", docsOf(a, mergedA))
			case c < 8:
				write(a, false)
				checkView(a, "after an update", docsOf(a, mergedA))
			case c < 9:
				if len(b.versions) > 1 && r.Chance(40) {
					// the peer switches its active version as well (after it has merged commits under another one)
					to := r.Intn(len(b.versions))
					if err := b.x.n.DB.SetActiveSchemaVersion(ctx, b.vids[to]); err != nil {
						e.violate("schema-switch-failed", "B: "+err.Error(), replay)
						bad = true
						break
					}
					b.active = to
					desc = append(desc, fmt.Sprintf("B: set active version %d of %d", to, len(b.versions)))
					nontrivial = true
				} else {
					write(b, r.Bool())
				}
			default:
				exchange()
				if !bad {
					checkView(a, "after the exchange", docsOf(a, mergedA))
					checkView(b, "after the exchange", docsOf(b, mergedB))
				}
			}
		}
		if !bad {
			exchange()
			// both nodes look through their newest version: agreement on the common fields
			_ = a.x.n.DB.SetActiveSchemaVersion(ctx, a.vids[a.widest()])
			a.active = a.widest()
			_ = b.x.n.DB.SetActiveSchemaVersion(ctx, b.vids[b.widest()])
			b.active = b.widest()
			da, ea := dump(a)
			db, eb := dump(b)
			if ea != "" || eb != "" {
				e.violate("schema-query-error", ea+eb, replay)
				bad = true
			}
			for _, id := range docOrder {
				for _, f := range b.versions[b.active] {
					e.Res.Evaluations++
					inA := false
					for _, g := range a.versions[a.active] {
						if g.name == f.name {
							inA = true
						}
					}
					if !inA {
						continue
					}
					if da[id] == nil || db[id] == nil {
						e.violate("schema-docs-missing", fmt.Sprintf("after the exchange document %s is listed on A: %v, on B: %v", id, da[id] != nil, db[id] != nil), replay)
						bad = true
						break
					}
					if canonJSON(da[id][f.name]) != canonJSON(db[id][f.name]) {
						note := ""
						if lost["A|"+id+"|"+f.name] || lost["B|"+id+"|"+f.name] {
							note = " [a write to this field was delivered while the field was not in the receiver's active version]"
						}
						e.violate("schema-nodes-disagree", fmt.Sprintf("document %s field %s: A (version %d) reads %s, B (version %d) reads %s%s", id, f.name, len(a.versions), canonJSON(da[id][f.name]), len(b.versions), canonJSON(db[id][f.name]), note), replay)
						bad = true
					}
				}
			}
			// Coq case: the per-field view of A's own documents under every known field
			if !bad {
				coqOps = append(coqOps, fmt.Sprintf("Activate %d%%nat", a.widest()))
				var obs []string
				for di, id := range docOrder {
					if owner[id] != "A" {
						continue
					}
					for _, f := range a.versions[a.active] {
						v := "[]"
						if vid, ok := refID[id][f.name]; ok && da[id][f.name] != nil {
							v = fmt.Sprintf("[%d%%Z]", vid)
						}
						obs = append(obs, fmt.Sprintf("(%d%%nat, %d%%nat, %s)", di, f.no, v))
					}
				}
				cases = append(cases, fmt.Sprintf("EvCase [%s] [%s]", strings.Join(coqOps, "; "), strings.Join(obs, "; ")))
			}
		}
		sort.Strings(desc[:0])
		if nontrivial {
			e.distinct(strings.Join(desc, "|"))
		}
		e.count(fmt.Sprintf("versions_A_%d_B_%d", len(a.versions), len(b.versions)))
		if hi == 0 {
			e.sample(map[string]any{"operations": desc})
		}
		a.x.close(ctx)
		b.x.close(ctx)
	}
	e.writeCasesSharded("cases_C19", "CorrC19", "evcase", cases, 300)
}

func init() { engines["schema"] = engSchema }
