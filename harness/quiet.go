package main

import "github.com/sourcenetwork/corelog"

func init() { corelog.SetConfig(corelog.Config{Level: "error", Output: "stderr"}) }
