package main

import (
	"context"
	"crypto/ed25519"
	"fmt"
	"os"
	"sort"
	"strings"
	"time"
)

// routingHistories (C14, Net/Routing.v): histories of SetReplicator / DeleteReplicator calls (two targets, two
// collections, all or named collections) and restarts of the source; then one new document per collection. Which
// target receives which document, and what GetAllReplicators reports, go to the model.
func routingHistories(e *Env, basePort int) {
	ctx := context.Background()
	nHist := 2
	if e.thorough() {
		nHist = 12
	}
	r := NewRng(e.Seed + 77)
	mk := func(name string, port int) *p2pNode {
		_, key, _ := ed25519.GenerateKey(nil)
		dir, err := os.MkdirTemp("/var/tmp", "vreplt")
		if err != nil {
			panic(err)
		}
		return &p2pNode{name: name, dir: dir, port: port, key: key}
	}
	colNames := []string{"User", "Other"}
	sdl := `type User { name: String age: Int }
type Other { title: String }`
	var cases []string
	for h := 0; h < nHist; h++ {
		a, b, c := mk("A", basePort+3*h), mk("B", basePort+3*h+1), mk("C", basePort+3*h+2)
		nodes := []*p2pNode{a, b, c}
		var desc, ops []string
		replay := map[string]any{"events": &desc}
		ok := true
		for _, n := range nodes {
			if err := n.open(ctx); err != nil {
				e.violate("harness-repl", "open "+n.name+": "+err.Error(), replay)
				ok = false
				break
			}
			n.x.addSchema(ctx, sdl)
		}
		if ok {
			targets := []*p2pNode{b, c}
			infos := []any{nil, nil}
			_ = infos
			binfo, cinfo := b.x.n.Peer.PeerInfo(), c.x.n.Peer.PeerInfo()
			nOps := 3 + r.Intn(4)
			for oi := 0; oi < nOps; oi++ {
				p := r.Intn(2)
				info := binfo
				if p == 1 {
					info = cinfo
				}
				// a subset of the collections; the empty selection means "all" for Set and "the whole replicator" for Delete
				var sel []int
				switch r.Intn(4) {
				case 0:
				case 1:
					sel = []int{0}
				case 2:
					sel = []int{1}
				default:
					sel = []int{0, 1}
				}
				var names []string
				var coqSel []string
				for _, ci := range sel {
					names = append(names, colNames[ci])
					coqSel = append(coqSel, fmt.Sprint(ci))
				}
				switch k := r.Intn(10); {
				case k < 5:
					err := a.x.n.Peer.SetReplicator(ctx, info, names...)
					if len(sel) == 0 {
						coqSel = []string{"0", "1"}
					}
					ops = append(ops, fmt.Sprintf("SetRep %d [%s]", p+1, strings.Join(coqSel, "; ")))
					desc = append(desc, fmt.Sprintf("A: SetReplicator(%s, %v) -> %v", targets[p].name, names, err))
				case k < 8:
					err := a.x.n.Peer.DeleteReplicator(ctx, info, names...)
					ops = append(ops, fmt.Sprintf("DelRep %d [%s]", p+1, strings.Join(coqSel, "; ")))
					desc = append(desc, fmt.Sprintf("A: DeleteReplicator(%s, %v) -> %v", targets[p].name, names, err))
				default:
					a.close(ctx)
					if err := a.open(ctx); err != nil {
						e.violate("restart-open-failed", "reopen A: "+err.Error(), replay)
						ok = false
					}
					ops = append(ops, "Restart")
					desc = append(desc, "A: close and reopen")
				}
				if !ok {
					break
				}
				time.Sleep(300 * time.Millisecond)
			}
		}
		if ok {
			tag := fmt.Sprintf("h%d", h)
			a.x.gql(ctx, fmt.Sprintf(`mutation { create_User(input: {name: "new-%s", age: 1}) { _docID } }`, tag))
			a.x.gql(ctx, fmt.Sprintf(`mutation { create_Other(input: {title: "new-%s"}) { _docID } }`, tag))
			desc = append(desc, "A: create one User and one Other")
			got := func() [4]bool {
				var g [4]bool
				for pi, n := range []*p2pNode{b, c} {
					g[2*pi] = strings.Contains(dumpCol(ctx, n.x, "User", "name"), "new-"+tag)
					g[2*pi+1] = strings.Contains(dumpCol(ctx, n.x, "Other", "title"), "new-"+tag)
				}
				return g
			}
			// wait until the picture has been stable for a while
			last, stableSince := got(), time.Now()
			// (a first push that fails is repeated by the retry loop within a few seconds: the window is wider than that)
			deadline := time.Now().Add(30 * time.Second)
			for time.Now().Before(deadline) && time.Since(stableSince) < 7*time.Second {
				time.Sleep(200 * time.Millisecond)
				if g := got(); g != last {
					last, stableSince = g, time.Now()
				}
			}
			var del []string
			for pi := 0; pi < 2; pi++ {
				for ci := 0; ci < 2; ci++ {
					del = append(del, fmt.Sprintf("(%d, %d, %v)", ci, pi+1, last[2*pi+ci]))
				}
			}
			// what the node reports as its configuration
			rootOf := map[string]int{}
			for ci, name := range colNames {
				if col, err := a.x.n.DB.GetCollectionByName(ctx, name); err == nil {
					rootOf[col.SchemaRoot()] = ci
				}
			}
			reps, err := a.x.n.Peer.GetAllReplicators(ctx)
			if err != nil {
				e.violate("peerconfig-replicators", "GetAllReplicators: "+err.Error(), replay)
			}
			conf := map[int][]int{1: nil, 2: nil}
			for _, rep := range reps {
				p := 1
				if rep.Info.ID == c.x.n.Peer.PeerInfo().ID {
					p = 2
				}
				for _, id := range rep.CollectionIDs {
					conf[p] = append(conf[p], rootOf[id])
				}
				sort.Ints(conf[p])
			}
			var cf []string
			for p := 1; p <= 2; p++ {
				var cs []string
				for _, ci := range conf[p] {
					cs = append(cs, fmt.Sprint(ci))
				}
				cf = append(cf, fmt.Sprintf("(%d, [%s])", p, strings.Join(cs, "; ")))
			}
			e.Res.Evaluations += 6
			cases = append(cases, fmt.Sprintf("(RCase [%s] [%s] [%s])%%nat", strings.Join(ops, "; "), strings.Join(del, "; "), strings.Join(cf, "; ")))
			e.count(fmt.Sprintf("routing_history_ops_%d", len(ops)))
			if h == 0 {
				e.sample(map[string]any{"routing_history": desc, "delivered(User->B,Other->B,User->C,Other->C)": last})
			}
		}
		for _, n := range nodes {
			n.close(ctx)
			os.RemoveAll(n.dir)
		}
	}
	e.writeCasesSharded("cases_C14r", "CorrC14r", "rcase", cases, 300)
}
