package main

import (
	"context"
	"fmt"
	"sort"
	"strings"

	"github.com/sourcenetwork/defradb/acp/identity"
	"github.com/sourcenetwork/defradb/crypto"
)

// acpIndexWitness: indexes created after the data on a collection under document access control. Whoever creates the
// index, afterwards every requester must get from the index-backed plan the documents the scan gave them before, and
// a unique index must not come into being over two live documents sharing a value.
func acpIndexWitness(e *Env, ctx context.Context, r *Rng) {
	for ci := 0; ci < 3; ci++ {
		acpIndexWitnessAs(e, ctx, r, ci)
	}
}

func acpIndexWitnessAs(e *Env, ctx context.Context, r *Rng, ci int) {
	x := newNd(ctx, "IA")
	x.noEvents()
	defer x.close(ctx)
	O, _ := identity.Generate(crypto.KeyTypeSecp256k1)
	S, _ := identity.Generate(crypto.KeyTypeSecp256k1)
	octx, sctx := withIdent(ctx, O), withIdent(ctx, S)
	pol, err := x.n.DB.AddDACPolicy(octx, acpPolicy)
	if err != nil {
		e.violate("harness-index", "policy: "+err.Error(), nil)
		return
	}
	x.addSchema(ctx, fmt.Sprintf(`type Item @policy(id: "%s", resource: "items") { k: Int cat: String qty: Int uid: String }`, pol.PolicyID))
	cats := []string{"a", "b", "c"}
	n := 8 + r.Intn(6)
	for i := 0; i < n; i++ {
		cctx := ctx
		if i%3 != 0 {
			cctx = octx
		}
		// uid: documents 1 and 2 (both private to O) share a value
		uid := fmt.Sprintf("u%d", i)
		if i == 2 {
			uid = "u1"
		}
		if _, errs := x.gql(cctx, fmt.Sprintf(`mutation { create_Item(input: {k: %d, cat: "%s", qty: %d, uid: "%s"}) { _docID } }`, i, cats[r.Intn(3)], r.Intn(5), uid)); errs != "" {
			e.violate("harness-index", "create under acp: "+errs, nil)
			return
		}
	}
	reqs := []string{
		`query { Item(filter: {cat: {_eq: "a"}}) { k } }`,
		`query { Item(filter: {cat: {_ne: "a"}}) { k } }`,
		`query { Item(filter: {cat: {_in: ["b", "c"]}}) { k } }`,
		`query { Item(filter: {qty: {_ge: 2}}) { k } }`,
		`query { Item(filter: {qty: {_lt: 3}, cat: {_eq: "b"}}) { k } }`,
		`query { Item(order: {qty: ASC}) { qty } }`,
		`query { _count(Item: {filter: {cat: {_eq: "c"}}}) }`,
	}
	type who struct {
		name string
		ctx  context.Context
	}
	whos := []who{{"owner", octx}, {"stranger", sctx}, {"anonymous", ctx}}
	before := map[string]string{}
	for _, w := range whos {
		for _, q := range reqs {
			d, _ := x.gql(w.ctx, q)
			before[w.name+q] = canonSet(d)
		}
	}
	col, err := x.n.DB.GetCollectionByName(ctx, "Item")
	if err != nil {
		e.violate("harness-index", err.Error(), nil)
		return
	}
	creators := []who{{"stranger", sctx}, {"anonymous", ctx}, {"owner", octx}}
	creator := creators[ci]
	e.count("acp_index_creator_" + creator.name)
	for _, f := range []string{"cat", "qty"} {
		if _, err := col.CreateIndex(creator.ctx, idxReq(f, r.Bool(), false)); err != nil {
			e.Res.Notes = append(e.Res.Notes, "index creation under acp as "+creator.name+": "+err.Error())
			return
		}
	}
	for _, w := range whos {
		for _, q := range reqs {
			d, errs := x.gql(w.ctx, q)
			e.Res.Evaluations++
			if got := canonSet(d); errs != "" || got != before[w.name+q] {
				e.violate("index-mismatch", fmt.Sprintf("collection under access control, indexes on cat and qty created by the %s after the data: as %s, %s returned %s before the indexes existed and returns %s %s with them", creator.name, w.name, q, before[w.name+q], got, errs), map[string]any{"request": q, "requester": w.name, "index_creator": creator.name})
			}
		}
	}
	// a unique index over a value two live documents share must be refused, whoever asks for it
	for _, c := range creators[ci : ci+1] {
		_, err := col.CreateIndex(c.ctx, idxReq("uid", false, true))
		e.Res.Evaluations++
		if err == nil {
			e.violate("unique-violated", fmt.Sprintf("collection under access control: the %s created a unique index on uid although two live documents (k=1 and k=2, private to the owner) share the value u1", c.name), map[string]any{"index_creator": c.name})
			break
		}
	}
}

// canonSet: rows of the only selection as a sorted multiset (sequence kept for ordered requests by the caller's choice
// of selection: sort keys only)
func canonSet(d map[string]any) string {
	for key := range d {
		if rows := rowsOf(d, key); rows != nil {
			ls := strings.Split(canonRows(d, key, true), "\n")
			sort.Strings(ls)
			return strings.Join(ls, "\n")
		}
	}
	return canonJSON(d)
}
