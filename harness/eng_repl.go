package main

// Engine "repl" (C15, and the peer-configuration part of C14).
// Two real nodes A and B on the loopback interface (libp2p, pubsub enabled, Badger file stores so that a node can be
// closed and reopened on its store).  A has a replicator to B.  A generated event sequence is executed: writes on A
// (creates and updates of a few documents, register and counter fields), B taken down (closed) and brought back
// (reopened on its store, same address and key), A restarted, an add-field patch on A only or on both, P2P
// collection subscriptions added / removed on A.  At the end B is reachable and traffic stops:
//   - within a deadline B's documents must equal A's, and the replicator must be reported active again;
//   - after every restart of A the list of replicators and of P2P collections must be what it was (and what the
//     reference says).
// The executed event sequence is written as a Coq case (Net/Replicate.v): the model predicts complete delivery.

import (
	"context"
	"crypto/ed25519"
	"fmt"
	"os"
	"sort"
	"strings"
	"time"

	libpeer "github.com/libp2p/go-libp2p/core/peer"
	"github.com/sourcenetwork/immutable"

	"github.com/sourcenetwork/defradb/client"
	"github.com/sourcenetwork/defradb/event"
	netConfig "github.com/sourcenetwork/defradb/net/config"
	"github.com/sourcenetwork/defradb/node"
	"github.com/sourcenetwork/lens/host-go/config/model"
)

type p2pNode struct {
	noPubSub bool
	name     string
	dir      string
	port     int
	key      []byte
	x        *Nd
	retry    time.Duration // retry interval of the replicator retry loop (default 300ms)
}

func (p *p2pNode) open(ctx context.Context) error {
	retry := p.retry
	if retry == 0 {
		retry = 300 * time.Millisecond
	}
	opts := []node.Option{node.WithDisableAPI(true), node.WithStorePath(p.dir), node.WithStoreType(node.BadgerStore), node.WithBadgerInMemory(false),
		netConfig.WithListenAddresses(fmt.Sprintf("/ip4/127.0.0.1/tcp/%d", p.port)), netConfig.WithPrivateKey(p.key),
		netConfig.WithEnablePubSub(!p.noPubSub), netConfig.WithRetryInterval([]time.Duration{retry})}
	n, err := node.New(ctx, opts...)
	if err != nil {
		return err
	}
	if err := n.Start(ctx); err != nil {
		return err
	}
	p.x = &Nd{name: p.name, n: n}
	return nil
}

func (p *p2pNode) close(ctx context.Context) {
	if p.x != nil {
		_ = p.x.n.Close(ctx)
		p.x = nil
	}
}

func replDump(ctx context.Context, x *Nd, fields string) string {
	d, errs := x.gql(ctx, fmt.Sprintf(`query { User(showDeleted: true) { _docID _deleted %s } }`, fields))
	var rs []string
	for _, r := range rowsOf(d, "User") {
		rs = append(rs, canonJSON(r))
	}
	sort.Strings(rs)
	return strings.Join(rs, "\n") + errs
}

func engRepl(e *Env) {
	ctx := context.Background()
	r := NewRng(e.Seed)
	e.Res.Rule = "event sequences of 6-12 events over {write (create or update of 1-3 documents: register, counter), B down, B up, A restart, add-field patch on A only / on both, P2P collection add / remove}; at least one outage with a write inside; distinct = distinct event sequence; non-trivial = two separate outages, or an A restart while documents are pending, or a patch before a write made during an outage"
	nScen := 6
	if e.thorough() {
		nScen = 40
	}
	if e.Args["only"] != "" {
		nScen = 0 // only the scripted multi-node scenarios
	}
	basePort := 21000 + int(e.Seed%500)*40 + r.Intn(1000)
	var cases []string
	for si := 0; si < nScen; si++ {
		mk := func(name string, port int) *p2pNode {
			_, key, _ := ed25519.GenerateKey(nil)
			dir, err := os.MkdirTemp("/var/tmp", "vrepl")
			if err != nil {
				panic(err)
			}
			return &p2pNode{name: name, dir: dir, port: port, key: key}
		}
		a, b := mk("A", basePort+2*si), mk("B", basePort+2*si+1)
		// the fifth scripted scenario runs without the pubsub network: a replicator must work all the same
		if si == 4 {
			a.noPubSub, b.noPubSub = true, true
		}
		var desc, coq []string
		replay := map[string]any{"events": &desc}
		bad := false
		if err := a.open(ctx); err != nil {
			e.violate("harness-repl", "open A: "+err.Error(), replay)
			continue
		}
		if err := b.open(ctx); err != nil {
			e.violate("harness-repl", "open B: "+err.Error(), replay)
			a.close(ctx)
			continue
		}
		sdl := `type User { name: String age: Int pts: Int @crdt(type: pncounter) }
type Other { title: String }`
		a.x.addSchema(ctx, sdl)
		b.x.addSchema(ctx, sdl)
		binfo := b.x.n.Peer.PeerInfo()
		// in the fourth scripted scenario the replicator is configured late: after a patch and after documents exist
		lateReplicator := si == 3
		setRep := func() {
			if err := a.x.n.Peer.SetReplicator(ctx, binfo); err != nil {
				e.violate("harness-repl", "SetReplicator: "+err.Error(), replay)
				bad = true
			}
			desc = append(desc, "A: SetReplicator(B)")
		}
		if !lateReplicator {
			setRep()
		}
		fields := "name age pts"
		var docs []string
		docNo := map[string]int{}
		bUp := true
		p2pRef := map[string]bool{}
		patched := false
		outages, writesInOutage := 0, 0
		nontrivial := false
		serial := 0
		var script []int
		restarted := false

		write := func() {
			serial++
			if len(docs) < 3 && (len(docs) == 0 || r.Chance(40) || (script != nil && restarted)) {
				q := fmt.Sprintf(`mutation { create_User(input: {name: "n%d", age: %d, pts: %d}) { _docID } }`, serial, serial, serial)
				d, errs := a.x.gql(ctx, q)
				desc = append(desc, "A: "+q+" "+errs)
				if errs == "" {
					id := fmt.Sprint(rowsOf(d, "create_User")[0]["_docID"])
					docNo[id] = len(docs)
					docs = append(docs, id)
					coq = append(coq, fmt.Sprintf("Write %d", docNo[id]))
				}
			} else {
				id := Pick(r, docs)
				q := fmt.Sprintf(`mutation { update_User(docID: "%s", input: {name: "u%d", pts: %d}) { _docID } }`, id, serial, 1+r.Intn(5))
				_, errs := a.x.gql(ctx, q)
				desc = append(desc, "A: "+q+" "+errs)
				if errs == "" {
					coq = append(coq, fmt.Sprintf("Write %d", docNo[id]))
				}
			}
			if !bUp {
				writesInOutage++
			}
			time.Sleep(250 * time.Millisecond)
		}
		checkPeerConfig := func(when string) {
			reps, err := a.x.n.Peer.GetAllReplicators(ctx)
			e.Res.Evaluations++
			if err != nil || len(reps) != 1 || reps[0].Info.ID != binfo.ID {
				e.violate("peerconfig-replicators", fmt.Sprintf("%s: GetAllReplicators = %v (%v), expected the one replicator to B", when, reps, err), replay)
				bad = true
			}
			cols, err := a.x.n.Peer.GetAllP2PCollections(ctx)
			var want []string
			for c := range p2pRef {
				want = append(want, c)
			}
			sort.Strings(want)
			// the API lists collection ids: translate
			var got []string
			for _, c := range cols {
				cs, err2 := a.x.n.DB.GetCollections(ctx, client.CollectionFetchOptions{CollectionID: immutable.Some(c)})
				if err2 == nil && len(cs) > 0 {
					got = append(got, cs[0].Name())
				} else {
					got = append(got, c)
				}
			}
			sort.Strings(got)
			if err != nil || strings.Join(got, ",") != strings.Join(want, ",") {
				e.violate("peerconfig-p2p-collections", fmt.Sprintf("%s: GetAllP2PCollections = %v (%v), the calls made so far leave %v", when, got, err, want), replay)
				bad = true
			}
		}

		nEv := 6 + r.Intn(7)
		// the first scenario of every run is scripted: two separate outages with a full recovery in between
		// the second: P2P collection added, schema patched, collection removed, A restarted
		// the third: A restarted while the replicator is inactive, then a write to a new document
		scripts := [][]int{{0, 0, 4, 5, 0, 4, 5}, {8, 0, 7, 9, 6, 0}, {0, 4, 6, 0, 0, 5}, {7, 0, 0, 0}, {0, 0, 4, 5, 0}, {0, 20}}
		if si < len(scripts) {
			script = scripts[si]
			nEv = len(script)
		}
		for ei := 0; ei < nEv && !bad; ei++ {
			choice := r.Intn(11)
			if script != nil {
				choice = script[ei]
			}
			switch c := choice; {
			case c < 4:
				write()
			case c == 4 && bUp:
				b.close(ctx)
				bUp = false
				outages++
				desc = append(desc, "B: down")
				coq = append(coq, "Down")
				write() // at least one write inside every outage
			case c == 5 && !bUp:
				if err := b.open(ctx); err != nil {
					e.violate("harness-repl", "reopen B: "+err.Error(), replay)
					bad = true
					break
				}
				bUp = true
				desc = append(desc, "B: up")
				coq = append(coq, "Up")
				// wait for the recovery to complete before the next event (libp2p backs off dialling for a while)
				for t0 := time.Now(); time.Since(t0) < 20*time.Second; {
					reps, _ := a.x.n.Peer.GetAllReplicators(ctx)
					if replDump(ctx, a.x, fields) == replDump(ctx, b.x, fields) && len(reps) == 1 && reps[0].Status == client.ReplicatorStatusActive {
						break
					}
					time.Sleep(400 * time.Millisecond)
				}
				coq = append(coq, "Tick")
				if outages >= 1 {
					nontrivial = nontrivial || outages >= 2
				}
			case c == 20:
				// interrupted first delivery: B receives the head of a commit while A is unreachable, so it can store the
				// head but not fetch what the head links to; when A is back its retry must still complete the delivery
				if len(docs) == 0 {
					break
				}
				sub, err := a.x.n.DB.Events().Subscribe(event.UpdateName)
				if err != nil {
					panic(err)
				}
				b.close(ctx)
				bUp = false
				outages++
				desc = append(desc, "B: down")
				coq = append(coq, "Down")
				write()
				var head *event.Update
				deadline := time.After(2 * time.Second)
			collect:
				for {
					select {
					case m := <-sub.Message():
						if u, ok := m.Data.(event.Update); ok && u.DocID != "" {
							head = &u
						}
					case <-deadline:
						break collect
					case <-time.After(200 * time.Millisecond):
						if head != nil {
							break collect
						}
					}
				}
				a.x.n.DB.Events().Unsubscribe(sub)
				aID := a.x.n.Peer.PeerInfo().ID
				time.Sleep(1500 * time.Millisecond) // let the failed push be recorded for retry
				a.close(ctx)
				if err := b.open(ctx); err != nil {
					e.violate("harness-repl", "reopen B: "+err.Error(), replay)
					bad = true
					break
				}
				bUp = true
				if head != nil {
					type pusher interface {
						VerifPushLog(ctx context.Context, from libpeer.ID, docID string, cid []byte, collectionID string, block []byte) error
					}
					if pp, ok := b.x.n.Peer.(pusher); ok {
						err := pp.VerifPushLog(ctx, aID, head.DocID, head.Cid.Bytes(), head.CollectionID, head.Block)
						desc = append(desc, fmt.Sprintf("A: down; B: up; the head %s is delivered to B while A is unreachable -> %v", head.Cid, err != nil))
						e.count("interrupted_deliveries")
					} else {
						e.violate("harness-repl", "VerifPushLog hook missing", replay)
					}
				}
				if err := a.open(ctx); err != nil {
					e.violate("restart-open-failed", "reopen A: "+err.Error(), replay)
					bad = true
					break
				}
				desc = append(desc, "A: up")
				coq = append(coq, "ARestart", "Up")
				nontrivial = true
			case c == 6:
				pending := !bUp && writesInOutage > 0
				a.close(ctx)
				if err := a.open(ctx); err != nil {
					e.violate("restart-open-failed", "reopen A: "+err.Error(), replay)
					bad = true
					break
				}
				desc = append(desc, "A: restart")
				coq = append(coq, "ARestart")
				restarted = true
				if pending {
					nontrivial = true
				}
				checkPeerConfig("after restarting A")
			case c == 7 && !patched:
				patched = true
				both := r.Bool()
				if script != nil {
					both = false // scripted scenarios: the receiver stays on the old version
				}
				p := `[{ "op": "add", "path": "/User/Fields/-", "value": {"Name": "email", "Kind": "String"} }]`
				if err := a.x.n.DB.PatchSchema(ctx, p, immutable.None[model.Lens](), true); err != nil {
					e.violate("harness-repl", "patch A: "+err.Error(), replay)
					bad = true
					break
				}
				if both && bUp {
					if err := b.x.n.DB.PatchSchema(ctx, p, immutable.None[model.Lens](), true); err != nil {
						e.violate("harness-repl", "patch B: "+err.Error(), replay)
						bad = true
						break
					}
					desc = append(desc, "A and B: patch add email")
				} else {
					desc = append(desc, "A only: patch add email")
				}
				if !bUp {
					nontrivial = true
				}
			case c == 8 && !a.noPubSub:
				col := Pick(r, []string{"User", "Other"})
				if script != nil {
					col = "User"
				}
				if err := a.x.n.Peer.AddP2PCollections(ctx, col); err != nil {
					e.violate("harness-repl", "AddP2PCollections: "+err.Error(), replay)
					bad = true
					break
				}
				p2pRef[col] = true
				desc = append(desc, "A: AddP2PCollections "+col)
				checkPeerConfig("after AddP2PCollections")
			case c == 9 && len(p2pRef) > 0:
				var cs []string
				for c := range p2pRef {
					cs = append(cs, c)
				}
				sort.Strings(cs)
				col := Pick(r, cs)
				if err := a.x.n.Peer.RemoveP2PCollections(ctx, col); err != nil {
					e.violate("harness-repl", "RemoveP2PCollections: "+err.Error(), replay)
					bad = true
					break
				}
				delete(p2pRef, col)
				desc = append(desc, "A: RemoveP2PCollections "+col)
				checkPeerConfig("after RemoveP2PCollections")
			}
		}
		if !bad && lateReplicator {
			setRep()
		}
		if !bad && !lateReplicator {
			if outages == 0 {
				b.close(ctx)
				bUp = false
				outages++
				desc = append(desc, "B: down")
				coq = append(coq, "Down")
				write()
			}
			if !bUp {
				if err := b.open(ctx); err != nil {
					e.violate("harness-repl", "reopen B: "+err.Error(), replay)
					bad = true
				} else {
					bUp = true
					desc = append(desc, "B: up")
					coq = append(coq, "Up")
				}
			}
		}
		if !bad {
			// one more restart of A with the final configuration, then quiescence
			checkPeerConfig("at the end")
			deadline := time.Now().Add(25 * time.Second)
			var da, db string
			converged := false
			for time.Now().Before(deadline) {
				da, db = replDump(ctx, a.x, fields), replDump(ctx, b.x, fields)
				if da == db {
					converged = true
					break
				}
				time.Sleep(500 * time.Millisecond)
			}
			e.Res.Evaluations++
			if !converged {
				retryKeys := []string{}
				for k := range a.x.scan(ctx, "/rep") {
					retryKeys = append(retryKeys, k)
				}
				sort.Strings(retryKeys)
				kind := "replication-incomplete"
				if restarted {
					kind = "replication-incomplete-after-restart"
				}
				e.violate(kind, fmt.Sprintf("25 s after the last event, with B reachable, B's documents differ from A's: %s; replicator bookkeeping on A: %v", firstDiff(db, da), retryKeys), replay)
			} else {
				// the replicator must become active again
				act := false
				for time.Now().Before(deadline) {
					reps, _ := a.x.n.Peer.GetAllReplicators(ctx)
					if len(reps) == 1 && reps[0].Status == client.ReplicatorStatusActive {
						act = true
						break
					}
					time.Sleep(500 * time.Millisecond)
				}
				if !act {
					e.violate("replication-status", "B holds everything but the replicator is still reported inactive", replay)
				}
				cases = append(cases, fmt.Sprintf("ReplCase [%s] %d%%nat", strings.Join(coq, "; "), len(docs)))
			}
		}
		if nontrivial {
			e.distinct(strings.Join(desc, "|"))
		}
		e.count(fmt.Sprintf("outages_%d", outages))
		e.count(fmt.Sprintf("pubsub_%v", !a.noPubSub))
		if si == 0 {
			e.sample(map[string]any{"events": desc})
		}
		a.close(ctx)
		b.close(ctx)
		os.RemoveAll(a.dir)
		os.RemoveAll(b.dir)
	}
	replMultiScenarios(e, basePort+2*nScen+4)
	interruptedRetryScenario(e, basePort+2*nScen+14)
	crashDuringRetryScenario(e, basePort+2*nScen+18)
	routingHistories(e, basePort+2*nScen+24)
	failureDuringRetryMarkScenario(e, basePort+2*nScen+22)
	e.writeCasesSharded("cases_C15", "CorrC15", "replcase", cases, 300)
}

func init() { engines["repl"] = engRepl }
