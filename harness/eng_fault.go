package main

// Engine "fault" (C05): exhaustive fault enumeration at the corekv boundary.
// For each mutating API call of a generated workload the call is first run fault-free (N store operations are
// counted and logged), then re-run from the same prior state with the k-th operation failing, k = 1..N
// (get / set / delete / has / iterator open / next / commit). Every run is on a fresh node built by the same
// deterministic setup. Oracle (direct, on the implementation):
//   error   => raw store contents byte-identical to before the call, no update event;
//   success => logical dump equal to the fault-free run's, same number of update events;
//   anything else (success with a partial effect, nil error with a changed prefix of the effect, event without commit)
//   is a violation with replay (scenario, k, failed operation).
// The fault-free operation log of each call is written as a Coq case: Kv/TxnDiscipline.v replays it on the model
// transaction (every read must see snapshot + own writes, the committed write set must produce the observed store).

import (
	"context"
	"errors"
	"fmt"
	"os"
	"path/filepath"
	"runtime"
	"sort"
	"strings"
	"sync"
	"time"

	"github.com/sourcenetwork/corekv"
	"github.com/sourcenetwork/immutable"

	"github.com/sourcenetwork/defradb/client"
	"github.com/sourcenetwork/defradb/event"
	"github.com/sourcenetwork/lens/host-go/config/model"
)

const faultSchema = `type User { name: String @index age: Int email: String @index(unique: true) points: Int @crdt(type: pncounter) }`

type scenario struct {
	name  string
	setup func(ctx context.Context, x *Nd, r *Rng) any // returns scenario state passed to call
	call  func(ctx context.Context, x *Nd, st any) (string, error)
}

func gqlErr(x *Nd, ctx context.Context, q string) (string, error) {
	d, e := x.gql(ctx, q)
	if e != "" {
		return "", errors.New(e)
	}
	return canonJSON(d), nil
}

// faultCol defers the error of looking the collection up (it can be the injected fault) to the call.
type faultCol struct {
	client.Collection
	err error
}

type faultState struct {
	docIDs []string
	names  []string
	extra  any
}

func baseSetup(ctx context.Context, x *Nd, r *Rng) *faultState {
	return baseSetupWith(ctx, x, r, faultSchema)
}

const faultSchemaBranchable = `type User @branchable { name: String @index age: Int email: String @index(unique: true) points: Int @crdt(type: pncounter) }`

func baseSetupWith(ctx context.Context, x *Nd, r *Rng, schema string) *faultState {
	x.addSchema(ctx, schema)
	st := &faultState{}
	n := 3 + r.Intn(2)
	for j := 0; j < n; j++ {
		name := fmt.Sprintf("n%d", j)
		d, e := x.gql(ctx, fmt.Sprintf(`mutation { create_User(input: {name: "%s", age: %d, email: "e%d", points: %d}) { _docID } }`, name, j%3, j, 1+j))
		if e != "" {
			panic(e)
		}
		st.docIDs = append(st.docIDs, fmt.Sprint(rowsOf(d, "create_User")[0]["_docID"]))
		st.names = append(st.names, name)
	}
	// the update events of the setup are delivered asynchronously: take them all before the call is observed
	want := n
	if strings.Contains(schema, "@branchable") {
		want = 2 * n
	}
	if got := len(x.drainUpdates(want, 3*time.Second)); got != want {
		panic(fmt.Sprintf("setup: %d update events for %d creates", got, n))
	}
	return st
}

func faultScenarios(tmp string) []scenario {
	col := func(ctx context.Context, x *Nd) faultCol {
		c, err := x.n.DB.GetCollectionByName(ctx, "User")
		return faultCol{c, err}
	}
	return []scenario{
		{"create", func(ctx context.Context, x *Nd, r *Rng) any { return baseSetup(ctx, x, r) },
			func(ctx context.Context, x *Nd, st any) (string, error) {
				c := col(ctx, x)
				if c.err != nil {
					return "", c.err
				}
				doc, err := client.NewDocFromJSON([]byte(`{"name":"new","age":9,"email":"enew","points":2}`), c.Definition())
				if err != nil {
					return "", err
				}
				return "", c.Create(ctx, doc)
			}},
		{"create-gql", func(ctx context.Context, x *Nd, r *Rng) any { return baseSetup(ctx, x, r) },
			func(ctx context.Context, x *Nd, st any) (string, error) {
				return gqlErr(x, ctx, `mutation { create_User(input: {name: "new", age: 9, email: "enew", points: 2}) { _docID } }`)
			}},
		{"create-many-gql", func(ctx context.Context, x *Nd, r *Rng) any { return baseSetup(ctx, x, r) },
			func(ctx context.Context, x *Nd, st any) (string, error) {
				return gqlErr(x, ctx, `mutation { create_User(input: [{name: "m1", age: 7, email: "em1"}, {name: "m2", age: 8, email: "em2", points: 3}]) { _docID } }`)
			}},
		{"create-unique-clash", func(ctx context.Context, x *Nd, r *Rng) any { return baseSetup(ctx, x, r) },
			func(ctx context.Context, x *Nd, st any) (string, error) {
				// second document of the request violates the unique index: the whole request must be rejected
				return gqlErr(x, ctx, `mutation { create_User(input: [{name: "m1", age: 7, email: "em1"}, {name: "m2", age: 8, email: "e0"}]) { _docID } }`)
			}},
		{"update", func(ctx context.Context, x *Nd, r *Rng) any { return baseSetup(ctx, x, r) },
			func(ctx context.Context, x *Nd, st any) (string, error) {
				c := col(ctx, x)
				if c.err != nil {
					return "", c.err
				}
				id, _ := client.NewDocIDFromString(st.(*faultState).docIDs[1])
				doc, err := c.Get(ctx, id, false)
				if err != nil {
					return "", err
				}
				if err := doc.Set("name", "renamed"); err != nil {
					return "", err
				}
				if err := doc.Set("points", 5); err != nil {
					return "", err
				}
				return "", c.Update(ctx, doc)
			}},
		{"update-gql-docid", func(ctx context.Context, x *Nd, r *Rng) any { return baseSetup(ctx, x, r) },
			func(ctx context.Context, x *Nd, st any) (string, error) {
				return gqlErr(x, ctx, fmt.Sprintf(`mutation { update_User(docID: "%s", input: {email: "changed", age: 42}) { _docID } }`, st.(*faultState).docIDs[0]))
			}},
		{"update-with-filter", func(ctx context.Context, x *Nd, r *Rng) any { return baseSetup(ctx, x, r) },
			func(ctx context.Context, x *Nd, st any) (string, error) {
				c := col(ctx, x)
				if c.err != nil {
					return "", c.err
				}
				res, err := c.UpdateWithFilter(ctx, `{age: {_ge: 0}}`, `{"points": 5}`)
				if err == nil && res == nil {
					return "nil-result", nil
				}
				return fmt.Sprint(res), err
			}},
		{"update-gql-filter", func(ctx context.Context, x *Nd, r *Rng) any { return baseSetup(ctx, x, r) },
			func(ctx context.Context, x *Nd, st any) (string, error) {
				return gqlErr(x, ctx, `mutation { update_User(filter: {age: {_ge: 1}}, input: {name: "zz"}) { _docID } }`)
			}},
		{"delete", func(ctx context.Context, x *Nd, r *Rng) any { return baseSetup(ctx, x, r) },
			func(ctx context.Context, x *Nd, st any) (string, error) {
				id, _ := client.NewDocIDFromString(st.(*faultState).docIDs[2])
				c := col(ctx, x)
				if c.err != nil {
					return "", c.err
				}
				ok, err := c.Delete(ctx, id)
				return fmt.Sprint(ok), err
			}},
		{"delete-with-filter", func(ctx context.Context, x *Nd, r *Rng) any { return baseSetup(ctx, x, r) },
			func(ctx context.Context, x *Nd, st any) (string, error) {
				c := col(ctx, x)
				if c.err != nil {
					return "", c.err
				}
				res, err := c.DeleteWithFilter(ctx, `{age: {_le: 1}}`)
				if err == nil && res == nil {
					return "nil-result", nil
				}
				return fmt.Sprint(res), err
			}},
		{"delete-gql-filter", func(ctx context.Context, x *Nd, r *Rng) any { return baseSetup(ctx, x, r) },
			func(ctx context.Context, x *Nd, st any) (string, error) {
				return gqlErr(x, ctx, `mutation { delete_User(filter: {name: {_in: ["n0", "n2"]}}) { _docID } }`)
			}},
		{"upsert-update", func(ctx context.Context, x *Nd, r *Rng) any { return baseSetup(ctx, x, r) },
			func(ctx context.Context, x *Nd, st any) (string, error) {
				return gqlErr(x, ctx, `mutation { upsert_User(filter: {name: {_eq: "n1"}}, create: {name: "n1", age: 1}, update: {age: 77}) { _docID } }`)
			}},
		{"upsert-create", func(ctx context.Context, x *Nd, r *Rng) any { return baseSetup(ctx, x, r) },
			func(ctx context.Context, x *Nd, st any) (string, error) {
				return gqlErr(x, ctx, `mutation { upsert_User(filter: {name: {_eq: "nobody"}}, create: {name: "nobody", age: 1, email: "enobody"}, update: {age: 77}) { _docID } }`)
			}},
		{"index-create", func(ctx context.Context, x *Nd, r *Rng) any { return baseSetup(ctx, x, r) },
			func(ctx context.Context, x *Nd, st any) (string, error) {
				c := col(ctx, x)
				if c.err != nil {
					return "", c.err
				}
				_, err := c.CreateIndex(ctx, client.IndexCreateRequest{Name: "age_idx", Fields: []client.IndexedFieldDescription{{Name: "age"}}})
				return "", err
			}},
		{"index-drop", func(ctx context.Context, x *Nd, r *Rng) any {
			st := baseSetup(ctx, x, r)
			idx, err := getCol(ctx, x, "User").GetIndexes(ctx)
			if err != nil || len(idx) == 0 {
				panic(fmt.Sprint("no indexes ", err))
			}
			names := []string{}
			for _, i := range idx {
				names = append(names, i.Name)
			}
			sort.Strings(names)
			st.extra = names[0]
			return st
		},
			func(ctx context.Context, x *Nd, st any) (string, error) {
				c := col(ctx, x)
				if c.err != nil {
					return "", c.err
				}
				return "", c.DropIndex(ctx, st.(*faultState).extra.(string))
			}},
		{"schema-add", func(ctx context.Context, x *Nd, r *Rng) any { return baseSetup(ctx, x, r) },
			func(ctx context.Context, x *Nd, st any) (string, error) {
				_, err := x.n.DB.AddSchema(ctx, `type Book { title: String @index pages: Int }`)
				return "", err
			}},
		{"schema-patch", func(ctx context.Context, x *Nd, r *Rng) any { return baseSetup(ctx, x, r) },
			func(ctx context.Context, x *Nd, st any) (string, error) {
				patch := `[{ "op": "add", "path": "/User/Fields/-", "value": {"Name": "nick", "Kind": "String"} }]`
				return "", x.n.DB.PatchSchema(ctx, patch, immutable.None[model.Lens](), true)
			}},
		{"import", func(ctx context.Context, x *Nd, r *Rng) any {
			st := baseSetup(ctx, x, r)
			fn := filepath.Join(tmp, fmt.Sprintf("imp_%d.json", storeSeq.Add(1)))
			body := `{"User":[{"_docID":"bae-00000000-0000-5000-8000-000000000001","_docIDNew":"bae-00000000-0000-5000-8000-000000000001","name":"i1","age":11,"email":"ei1"},{"_docID":"bae-00000000-0000-5000-8000-000000000002","_docIDNew":"bae-00000000-0000-5000-8000-000000000002","name":"i2","age":12,"email":"ei2"}]}`
			if err := os.WriteFile(fn, []byte(body), 0o644); err != nil {
				panic(err)
			}
			st.extra = fn
			return st
		},
			func(ctx context.Context, x *Nd, st any) (string, error) {
				return "", x.n.DB.BasicImport(ctx, st.(*faultState).extra.(string))
			}},
		{"branchable-delete-filter", func(ctx context.Context, x *Nd, r *Rng) any { return baseSetupWith(ctx, x, r, faultSchemaBranchable) },
			func(ctx context.Context, x *Nd, st any) (string, error) {
				return gqlErr(x, ctx, `mutation { delete_User(filter: {age: {_ge: 0}}) { _docID } }`)
			}},
		{"branchable-update", func(ctx context.Context, x *Nd, r *Rng) any { return baseSetupWith(ctx, x, r, faultSchemaBranchable) },
			func(ctx context.Context, x *Nd, st any) (string, error) {
				return gqlErr(x, ctx, `mutation { update_User(filter: {age: {_ge: 1}}, input: {name: "bb"}) { _docID } }`)
			}},
		{"merge-into-deleted", func(ctx context.Context, x *Nd, r *Rng) any {
			st := baseSetup(ctx, x, r)
			donor := newNd(ctx, "donor")
			defer donor.close(ctx)
			donor.addSchema(ctx, faultSchema)
			for j := range st.docIDs {
				donor.gql(ctx, fmt.Sprintf(`mutation { create_User(input: {name: "n%d", age: %d, email: "e%d", points: %d}) { _docID } }`, j, j%3, j, 1+j))
			}
			donor.drainUpdates(len(st.docIDs), 2*time.Second)
			_, e := donor.gql(ctx, fmt.Sprintf(`mutation { update_User(docID: "%s", input: {name: "merged", points: 4}) { _docID } }`, st.docIDs[0]))
			if e != "" {
				panic(e)
			}
			evs := donor.drainUpdates(1, 2*time.Second)
			if len(evs) != 1 {
				panic("donor event")
			}
			// the document is deleted locally before the remote update arrives
			if _, e := x.gql(ctx, fmt.Sprintf(`mutation { delete_User(docID: "%s") { _docID } }`, st.docIDs[0])); e != "" {
				panic(e)
			}
			x.drainUpdates(1, 2*time.Second)
			copyClosure(ctx, donor, x, evs[0].Cid)
			st.extra = evs[0]
			return st
		},
			func(ctx context.Context, x *Nd, st any) (string, error) {
				ev := st.(*faultState).extra.(event.Update)
				if t := x.merge(ctx, ev.DocID, ev.Cid, ev.CollectionID); t != "" {
					return "", errors.New(t)
				}
				return "", nil
			}},
		{"merge-remote", func(ctx context.Context, x *Nd, r *Rng) any {
			st := baseSetup(ctx, x, r)
			// a donor node with the same history plus one update of doc 0; its blocks are copied over
			donor := newNd(ctx, "donor")
			defer donor.close(ctx)
			r2 := NewRng(1)
			_ = r2
			donor.addSchema(ctx, faultSchema)
			for j := range st.docIDs {
				donor.gql(ctx, fmt.Sprintf(`mutation { create_User(input: {name: "n%d", age: %d, email: "e%d", points: %d}) { _docID } }`, j, j%3, j, 1+j))
			}
			donor.drainUpdates(0, 0)
			_, e := donor.gql(ctx, fmt.Sprintf(`mutation { update_User(docID: "%s", input: {name: "merged", points: 4}) { _docID } }`, st.docIDs[0]))
			if e != "" {
				panic(e)
			}
			evs := donor.drainUpdates(1, 2*time.Second)
			if len(evs) != 1 {
				panic("donor event")
			}
			copyClosure(ctx, donor, x, evs[0].Cid)
			st.extra = evs[0]
			return st
		},
			func(ctx context.Context, x *Nd, st any) (string, error) {
				ev := st.(*faultState).extra.(event.Update)
				if t := x.merge(ctx, ev.DocID, ev.Cid, ev.CollectionID); t != "" {
					return "", errors.New(t)
				}
				return "", nil
			}},
	}
}

func logicalDump(ctx context.Context, x *Nd, raw corekv.TxnStore) string {
	var sb strings.Builder
	for _, q := range []string{
		`query { User(showDeleted: true, order: {name: ASC}) { _docID _deleted name age email points } }`,
		`query { User(filter: {name: {_eq: "n1"}}) { _docID } }`,
		`query { User(filter: {name: {_ge: "m"}}, order: {name: ASC}) { name } }`,
		`query { User(filter: {email: {_eq: "e1"}}) { _docID } }`,
		`query { User(filter: {email: {_eq: "enew"}}) { _docID } }`,
	} {
		d, e := x.gql(ctx, q)
		sb.WriteString(canonJSON(d) + "|" + e + "\n")
	}
	cols, err := x.n.DB.GetCollections(ctx, client.CollectionFetchOptions{IncludeInactive: immutable.Some(true)})
	if err != nil {
		sb.WriteString("collections error " + err.Error())
	}
	var cs []string
	for _, c := range cols {
		v := c.Version()
		var idx []string
		for _, i := range v.Indexes {
			idx = append(idx, fmt.Sprintf("%s/%v/%v", i.Name, i.Unique, i.Fields))
		}
		sort.Strings(idx)
		var fs []string
		for _, f := range v.Fields {
			fs = append(fs, f.Name)
		}
		cs = append(cs, fmt.Sprintf("%s active=%v fields=%v idx=%v", v.Name, v.IsActive, fs, idx))
	}
	sort.Strings(cs)
	sb.WriteString(strings.Join(cs, ";") + "\n")
	// shape of the raw store: number of keys per store
	counts := map[string]int{}
	for k := range dumpStore(ctx, raw) {
		p := strings.SplitN(k, "/", 4)
		if len(p) >= 3 {
			counts[p[2]]++
		}
	}
	sb.WriteString(fmt.Sprint(counts))
	return sb.String()
}

type faultRun struct {
	nops   int
	log    []opRec
	err    error
	res    string
	before map[string]string
	after  map[string]string
	dump   string
	events int
	panicV any
}

func runFault(ctx context.Context, sc scenario, seed int64, k int, keep bool) faultRun {
	x, ctl, raw := newTracedNode(ctx, "F")
	defer x.close(ctx)
	st := sc.setup(ctx, x, NewRng(seed))
	x.drainUpdates(0, 0)
	fr := faultRun{before: dumpStore(ctx, raw)}
	ctl.arm(k, keep)
	func() {
		defer func() {
			if p := recover(); p != nil {
				fr.panicV = fmt.Sprintf("%v\n%s", p, shortStack())
				fr.err = fmt.Errorf("PANIC %v", p)
			}
		}()
		fr.res, fr.err = sc.call(ctx, x, st)
	}()
	fr.nops, fr.log = ctl.disarm()
	fr.after = dumpStore(ctx, raw)
	// events are published from the success callback through the bus goroutine
	wait := 30 * time.Millisecond
	if fr.err == nil {
		wait = 300 * time.Millisecond
	}
	fr.events = len(x.drainUpdates(1<<30, wait))
	if fr.panicV == nil {
		fr.dump = logicalDump(ctx, x, raw)
	}
	return fr
}

func shortStack() string {
	buf := make([]byte, 1<<16)
	n := runtime.Stack(buf, false)
	var keep []string
	for _, l := range strings.Split(string(buf[:n]), "\n") {
		if strings.Contains(l, "/repo/") {
			keep = append(keep, strings.TrimSpace(l))
		}
	}
	if len(keep) > 14 {
		keep = keep[:14]
	}
	return strings.Join(keep, " < ")
}

func kvDiff(a, b map[string]string) []string {
	var d []string
	for k, v := range b {
		if av, ok := a[k]; !ok {
			d = append(d, "+"+trunc(k))
		} else if av != v {
			d = append(d, "~"+trunc(k))
		}
	}
	for k := range a {
		if _, ok := b[k]; !ok {
			d = append(d, "-"+trunc(k))
		}
	}
	sort.Strings(d)
	return d
}
func trunc(s string) string {
	if len(s) > 70 {
		return fmt.Sprintf("%q", s[:70])
	}
	return fmt.Sprintf("%q", s)
}

func engFault(e *Env) {
	ctx := context.Background()
	r := NewRng(e.Seed)
	tmp, _ := os.MkdirTemp("", "vfault")
	defer os.RemoveAll(tmp)
	e.Res.Rule = "for each of the mutating API calls (create, multi-create, unique clash, update, filtered update, delete, filtered delete, upsert, index create/drop, schema add/patch, import, merge of a remote commit) on a generated prior state: the fault-free run, then one run per fault point k (every store operation get/set/del/has/iter/next/commit issued by the call; quick tier: a PRNG sample of the points plus every commit and every iterator operation); distinct = (scenario, failed operation kind, key class); non-trivial = the failed operation is not the first operation of the call"
	scs := faultScenarios(tmp)
	if only := e.Args["scenario"]; only != "" {
		var f []scenario
		for _, s := range scs {
			if s.name == only {
				f = append(f, s)
			}
		}
		scs = f
	}
	perScenario := 110
	if e.thorough() {
		perScenario = 1 << 30
	}
	if e.N > 0 {
		perScenario = e.N
	}
	type job struct {
		sc   scenario
		seed int64
		k    int
		base faultRun
	}
	var jobs []job
	var cases []string
	for _, sc := range scs {
		seed := int64(r.Intn(1000))
		base := runFault(ctx, sc, seed, 0, true)
		e.Res.Evaluations++
		e.count("faultfree_" + sc.name)
		if base.panicV != nil {
			e.violate("panic", fmt.Sprintf("%s: fault-free call panics: %v", sc.name, base.panicV), map[string]any{"scenario": sc.name, "k": 0})
			continue
		}
		wantErr := sc.name == "create-unique-clash"
		if (base.err != nil) != wantErr {
			e.violate("faultfree-result", fmt.Sprintf("%s: fault-free call returned err=%v", sc.name, base.err), map[string]any{"scenario": sc.name, "k": 0})
			continue
		}
		if base.err != nil && (len(kvDiff(base.before, base.after)) > 0 || base.events > 0) {
			e.violate("error-with-effect", fmt.Sprintf("%s: the call reported %v but changed %v and published %d events", sc.name, base.err, kvDiff(base.before, base.after), base.events), map[string]any{"scenario": sc.name, "k": 0})
		}
		if len(e.Res.Samples) < 3 {
			var ops []string
			for i, o := range base.log {
				if i < 12 {
					ops = append(ops, fmt.Sprintf("%d:%s %s", o.N, o.Op, trunc(o.Key)))
				}
			}
			e.sample(map[string]any{"scenario": sc.name, "store_operations": base.nops, "first_ops": ops, "changed_keys": len(kvDiff(base.before, base.after)), "events": base.events})
		}
		cases = append(cases, faultCase(sc.name, base))
		// choose fault points
		ks := map[int]bool{}
		for _, o := range base.log {
			if o.Op == "commit" || o.Op == "iter" || o.Op == "next" {
				ks[o.N] = true
			}
		}
		if base.nops <= perScenario {
			for k := 1; k <= base.nops; k++ {
				ks[k] = true
			}
		} else {
			for len(ks) < perScenario+len(ks)/4 && len(ks) < base.nops {
				ks[1+r.Intn(base.nops)] = true
			}
		}
		// keep iterator/commit points bounded in the quick tier
		var list []int
		for k := range ks {
			list = append(list, k)
		}
		sort.Ints(list)
		if !e.thorough() && len(list) > 2*perScenario {
			Shuffle(r, list)
			list = list[:2*perScenario]
			sort.Ints(list)
		}
		for _, k := range list {
			jobs = append(jobs, job{sc, seed, k, base})
		}
	}
	var mu sync.Mutex
	var wg sync.WaitGroup
	ch := make(chan job)
	for w := 0; w < 12; w++ {
		wg.Add(1)
		go func() {
			defer wg.Done()
			for j := range ch {
				fr := runFault(ctx, j.sc, j.seed, j.k, true)
				failedOp := "?"
				for _, o := range fr.log {
					if o.Failed {
						failedOp = fmt.Sprintf("%s %s", o.Op, trunc(o.Key))
					}
				}
				replay := map[string]any{"scenario": j.sc.name, "setup_seed": j.seed, "k": j.k, "failed_operation": failedOp, "store_operations_fault_free": j.base.nops}
				diff := kvDiff(fr.before, fr.after)
				mu.Lock()
				e.Res.Evaluations++
				opKind := strings.SplitN(failedOp, " ", 2)[0]
				e.count("fail_" + opKind)
				if j.k > 1 {
					e.distinct(j.sc.name + "|" + opKind + "|" + keyClass(failedOp))
				}
				switch {
				case fr.panicV != nil:
					e.violate("panic", fmt.Sprintf("%s k=%d (%s): panic %v", j.sc.name, j.k, failedOp, fr.panicV), replay)
				case failedOp == "?":
					// the failing index was not reached (nondeterministic operation count): nothing injected
					e.count("not_reached")
					if fr.err == nil && fr.dump != j.base.dump && j.base.err == nil {
						e.violate("nondeterministic-effect", fmt.Sprintf("%s: fault-free rerun differs from the first fault-free run", j.sc.name), replay)
					}
				case fr.err != nil:
					e.count("outcome_error_clean")
					if len(diff) > 0 {
						e.violate("error-with-effect", fmt.Sprintf("%s k=%d (%s): the call reported %q but the store changed: %v", j.sc.name, j.k, failedOp, fr.err, diff[:min(len(diff), 6)]), replay)
					}
					if fr.events > 0 {
						e.violate("event-without-commit", fmt.Sprintf("%s k=%d (%s): the call reported an error but %d update events were published", j.sc.name, j.k, failedOp, fr.events), replay)
					}
				default:
					// success although an operation failed: the complete effect must be there
					e.count("outcome_success_tolerated")
					if j.base.err != nil {
						// the fault-free call is rejected (unique clash); success under a fault is a partial effect by definition
						e.violate("success-of-rejected-call", fmt.Sprintf("%s k=%d (%s): call that must be rejected reported success", j.sc.name, j.k, failedOp), replay)
					} else if fr.dump != j.base.dump || fr.events != j.base.events || fr.res == "nil-result" {
						e.violate("success-with-partial-effect", fmt.Sprintf("%s k=%d (%s): the call reported success (result %.40q) with %d changed keys and %d events; the fault-free call changes %d keys and publishes %d events", j.sc.name, j.k, failedOp, fr.res, len(diff), fr.events, len(kvDiff(j.base.before, j.base.after)), j.base.events), replay)
					}
				}
				mu.Unlock()
			}
		}()
	}
	for _, j := range jobs {
		ch <- j
	}
	close(ch)
	wg.Wait()
	e.writeCasesSharded("cases_C05", "CorrC05", "fcase", cases, 6)
}

func keyClass(op string) string {
	for _, p := range []string{"/db/data", "/db/heads", "/db/blocks", "/db/system", "/db/enc", "/db/ps"} {
		if strings.Contains(op, p) {
			return p
		}
	}
	return "-"
}

// faultCase renders the fault-free operation log with interned keys/values for the model replay.
func faultCase(name string, fr faultRun) string {
	keys := map[string]bool{}
	for k := range fr.before {
		keys[k] = true
	}
	for k := range fr.after {
		keys[k] = true
	}
	for _, o := range fr.log {
		if o.Op != "commit" && o.Op != "discard" && !(o.Op == "next" && !o.Found) {
			keys[o.Key] = true
			if o.Op == "next" {
				keys[o.Val] = true
			}
		}
	}
	// prefixes are keys too (for iterator ranges): rank by byte order so that id order = key order
	sorted := make([]string, 0, len(keys))
	for k := range keys {
		sorted = append(sorted, k)
	}
	sort.Strings(sorted)
	kid := map[string]int{}
	for i, k := range sorted {
		kid[k] = 2 * (i + 1) // even ids: room for "prefix end" positions
	}
	vals := map[string]int{}
	vid := func(v string) int {
		if id, ok := vals[v]; ok {
			return id
		}
		vals[v] = len(vals) + 1
		return vals[v]
	}
	prefixEnd := func(p string) int {
		// first key id that does not have prefix p and is greater: position after the last key with the prefix
		hi := kid[p]
		for _, k := range sorted {
			if strings.HasPrefix(k, p) && kid[k] > hi {
				hi = kid[k]
			}
		}
		return hi + 1
	}
	pairs := func(m map[string]string) string {
		var ps []string
		for _, k := range sorted {
			if v, ok := m[k]; ok {
				ps = append(ps, fmt.Sprintf("(%d,%d)", kid[k], vid(v)))
			}
		}
		return "[" + strings.Join(ps, ";") + "]"
	}
	initS := pairs(fr.before)
	var ops []string
	for _, o := range fr.log {
		switch o.Op {
		case "get":
			if o.Found {
				ops = append(ops, fmt.Sprintf("KGet %d %d (Some %d)", o.Txn, kid[o.Key], vid(o.Val)))
			} else {
				ops = append(ops, fmt.Sprintf("KGet %d %d None", o.Txn, kid[o.Key]))
			}
		case "has":
			ops = append(ops, fmt.Sprintf("KHas %d %d %s", o.Txn, kid[o.Key], coqBool(o.Found)))
		case "set":
			ops = append(ops, fmt.Sprintf("KSet %d %d %d", o.Txn, kid[o.Key], vid(o.Val)))
		case "del":
			ops = append(ops, fmt.Sprintf("KDel %d %d", o.Txn, kid[o.Key]))
		case "iter":
			ops = append(ops, fmt.Sprintf("KIter %d %d %d", o.Txn, kid[o.Key], prefixEnd(o.Key)))
		case "next":
			if o.Found {
				ops = append(ops, fmt.Sprintf("KNext %d (Some %d)", o.Txn, kid[o.Val]))
			} else {
				ops = append(ops, fmt.Sprintf("KNext %d None", o.Txn))
			}
		case "commit":
			ops = append(ops, fmt.Sprintf("KCommit %d", o.Txn))
		case "discard":
			ops = append(ops, fmt.Sprintf("KDiscard %d", -o.Txn))
		}
	}
	finalS := pairs(fr.after)
	return fmt.Sprintf("mkF %s\n  [%s]\n  %s %s %d", initS, strings.Join(ops, ";"), finalS, coqBool(fr.err == nil), fr.events)
}

func init() { engines["fault"] = engFault }
