package main

// Engine "enc" (C11).
// Histories: a document is created on node A with document-level encryption or with a subset of encrypted fields,
// with a subset of the fields present; then 2-8 updates (fields present at creation and fields written for the first
// time; LWW registers and counters) on A or on a peer K that holds the keys; every commit is delivered to K (keys
// copied into its key store: stand-in for the key service) and to N (no keys; key requests are answered "none").
// Every written value is a unique random byte pattern.  After every step:
//   - all values under /db/blocks of A and K, every update event (event.Update.Block) of A and K and the whole store
//     of N are searched for the patterns of the fields that must be encrypted;
//   - the key material (read from /db/enc) is searched for in /db/blocks and in the events;
//   - K must read back exactly the written values, N must show none of them;
//   - for the control fields (not encrypted) the pattern must be found (the search is effective).
// The encryption flag of every written field block is compared with the Coq model (Sec/Encrypt.v).

import (
	"bytes"
	"context"
	"encoding/binary"
	"fmt"
	"math"
	"strings"
	"time"

	"github.com/ipfs/go-cid"

	"github.com/sourcenetwork/defradb/event"
	"github.com/sourcenetwork/defradb/verifhook"
)

type encField struct {
	name string
	gql  string
	kind string // str int float ctr
}

var encFields = []encField{
	{"name", "String", "str"}, {"note", "String", "str"}, {"age", "Int", "int"}, {"score", "Float", "float"},
	{"pts", "Int @crdt(type: pncounter)", "ctr"}, {"tag", "String", "str"}, {"national_id", "String", "str"},
}

type secret struct {
	field   string
	pattern []byte
	gql     string
	value   any // expected read-back (nil for counters: sum kept separately)
	step    int
}

func genSecret(r *Rng, f encField, step int) secret {
	switch f.kind {
	case "str":
		const al = "ABCDEFGHJKLMNPQRSTUVWXYZ23456789"
		b := make([]byte, 22)
		for i := range b {
			b[i] = al[r.Intn(len(al))]
		}
		s := "S" + string(b)
		return secret{f.name, []byte(s), `"` + s + `"`, s, step}
	case "int", "ctr":
		// GraphQL Int literals are limited to 32 bits: CBOR 0x1a + 4 bytes
		v := int64(1<<24) + int64(r.U64()%(1<<31-1<<24))
		p := make([]byte, 5)
		p[0] = 0x1a
		binary.BigEndian.PutUint32(p[1:], uint32(v))
		return secret{f.name, p, fmt.Sprint(v), v, step}
	default:
		v := 1.0 + float64(r.U64()%(1<<52))/float64(uint64(1)<<52) // full mantissa in [1,2)
		v = v * 1e6
		p := make([]byte, 8)
		binary.BigEndian.PutUint64(p, math.Float64bits(v))
		return secret{f.name, p, fmt.Sprintf("%v", v), v, step}
	}
}

func encStoreBlock(ctx context.Context, x *Nd, link []byte) ([]byte, bool) {
	c, err := cid.Cast(link)
	if err != nil {
		return nil, false
	}
	v, err := x.n.DB.Rootstore().Get(ctx, []byte("/db/enc"+verifhook.BlockKeySuffix(c)))
	if err != nil {
		return nil, false
	}
	return append([]byte{}, v...), true
}

func engEnc(e *Env) {
	ctx := context.Background()
	r := NewRng(e.Seed)
	e.Res.Rule = "histories: create with encrypt:true or encryptFields:<random non-empty subset of 7 fields>, each field present at creation with probability 0.6 (at least one); 2-8 updates of 1-2 fields each (40% aimed at fields not yet written), 25% issued on the key-holding peer, under field-level encryption 15% issued on the key-less peer (its own plaintext; the next write of a key holder must still be ciphertext); plain and branchable collections; distinct = distinct (mode, fields at creation, update field sequence); non-trivial = some update writes a field for the first time or is issued on the peer"
	nHist := 32
	if e.thorough() {
		nHist = 600
	}
	var cases []string
	for hi := 0; hi < nHist; hi++ {
		branchable := hi%4 == 3
		a, k, n := newNd(ctx, "A"), newNd(ctx, "K"), newNd(ctx, "N")
		n.noEvents()
		nUpd := newUpdCollector(n)
		stopN, err := verifhook.AnswerKeyRequests(n.n.DB.Events(), func([]byte) ([]byte, bool) { return nil, false })
		if err != nil {
			panic(err)
		}
		stopK, err := verifhook.AnswerKeyRequests(k.n.DB.Events(), func(l []byte) ([]byte, bool) { return encStoreBlock(ctx, a, l) })
		if err != nil {
			panic(err)
		}
		var fl []string
		for _, f := range encFields {
			fl = append(fl, f.name+": "+f.gql)
		}
		dir := ""
		if branchable {
			dir = " @branchable"
		}
		sdl := fmt.Sprintf("type Sec%s { %s }", dir, strings.Join(fl, " "))
		for _, x := range []*Nd{a, k, n} {
			x.addSchema(ctx, sdl)
		}
		colID := getCol(ctx, a, "Sec").Version().CollectionID

		docEnc := r.Chance(50)
		listed := map[string]bool{}
		if !docEnc {
			for _, f := range encFields {
				if r.Chance(45) {
					listed[f.name] = true
				}
			}
			if len(listed) == 0 {
				listed[Pick(r, encFields).name] = true
			}
		}
		mustEnc := func(f string) bool { return docEnc || listed[f] }
		var desc []string
		replay := map[string]any{"schema": sdl}
		var secrets []secret
		written := map[string]bool{}
		current := map[string]any{}
		ctrSum := int64(0)
		atCreation := map[string]bool{}
		unreliable := map[string]bool{} // fields also written by the key-less peer: the register winner depends on heights
		var coqSteps, coqObs []string
		nontrivial := false
		perCommit := 1
		if branchable {
			perCommit = 2
		}

		// one step: run mutation on node w, collect its update events, deliver to the others, run all oracles
		step := func(si int, w *Nd, others []*Nd, mutation string, fields []encField, ss []secret) bool {
			if w == n {
				nUpd.drain()
			}
			d, errs := w.gql(ctx, mutation)
			desc = append(desc, fmt.Sprintf("%s: %s %s", w.name, mutation, errs))
			replay["operations"] = desc
			if errs != "" {
				e.violate("harness-enc", "mutation rejected: "+errs, replay)
				return false
			}
			_ = d
			var evs []event.Update
			if w == n {
				evs = nUpd.take(perCommit, 2*time.Second)
			} else {
				evs = w.drainUpdates(perCommit, 2*time.Second)
			}
			if len(evs) < perCommit {
				e.violate("harness-enc", fmt.Sprintf("expected %d update events, got %d", perCommit, len(evs)), replay)
				return false
			}
			var docEv *event.Update
			for i := range evs {
				if evs[i].DocID != "" {
					docEv = &evs[i]
				}
			}
			// deliver to the others (keys for K first)
			for _, o := range others {
				if o != n && w != n {
					for key, v := range w.scan(ctx, "/db/enc") {
						if err := o.n.DB.Rootstore().Set(ctx, []byte(key), v); err != nil {
							panic(err)
						}
					}
				}
				for _, ev := range evs {
					copyClosure(ctx, w, o, ev.Cid)
				}
				for _, ev := range evs {
					if ev.DocID == "" {
						continue // collection-level commits are copied but not merged here (double application: finding F20, C01/C02)
					}
					if et := o.merge(ctx, ev.DocID, ev.Cid, colID); et != "" {
						e.violate("enc-merge-failed", fmt.Sprintf("%s: merge of %s failed: %s", o.name, ev.Cid, et), replay)
					}
				}
				if o != n {
					o.drainUpdates(0, 10*time.Millisecond)
				}
			}
			// encryption flags of the field blocks of this commit
			var flags []string
			if docEv != nil {
				bi, err := verifhook.DecodeBlock(docEv.Block)
				if err == nil {
					byField := map[string]bool{}
					for _, l := range bi.Links {
						raw, ok := w.rawBlock(ctx, mustCid(l[1]))
						if !ok {
							continue
						}
						fb, err := verifhook.DecodeBlock(raw)
						if err == nil && fb.FieldName != "" {
							byField[fb.FieldName] = fb.Encryption != ""
							// C04 on encrypted blocks: height = 1 + max height of the parents
							want := uint64(1)
							for _, h := range fb.Heads {
								if praw, ok := w.rawBlock(ctx, mustCid(h)); ok {
									if pb, err := verifhook.DecodeBlock(praw); err == nil && pb.Priority+1 > want {
										want = pb.Priority + 1
									}
								}
							}
							e.Res.Evaluations++
							if fb.Priority != want {
								e.violate("dag-height", fmt.Sprintf("field block %s (%s, encrypted=%v) has height %d, its parents give %d", l[1], fb.FieldName, fb.Encryption != "", fb.Priority, want), replay)
							}
						}
					}
					for _, f := range fields {
						flags = append(flags, coqBool(byField[f.name]))
					}
				}
			}
			var fidx []string
			for _, f := range fields {
				for i, g := range encFields {
					if g.name == f.name {
						fidx = append(fidx, fmt.Sprint(i))
					}
				}
			}
			coqSteps = append(coqSteps, fmt.Sprintf("(%s, [%s]%%nat)", coqBool(w != n), strings.Join(fidx, ";")))
			coqObs = append(coqObs, "["+strings.Join(flags, ";")+"]")
			if w != n {
				secrets = append(secrets, ss...)
			}

			// ---- oracles
			blobs := map[string][]byte{}
			for _, x := range []*Nd{a, k} {
				for key, v := range x.scan(ctx, "/db/blocks") {
					blobs[x.name+":"+key] = v
				}
			}
			for i, ev := range evs {
				blobs[fmt.Sprintf("%s:update-event-%d", w.name, i)] = ev.Block
			}
			for key, v := range n.scan(ctx, "/") {
				blobs["N(no key):"+key] = v
			}
			for _, s := range secrets {
				found := ""
				for where, v := range blobs {
					if bytes.Contains(v, s.pattern) {
						found = where
						break
					}
				}
				e.Res.Evaluations++
				if mustEnc(s.field) && found != "" {
					kind := "plaintext-in-blockstore"
					if strings.Contains(found, "update-event") {
						kind = "plaintext-in-update-event"
					} else if strings.HasPrefix(found, "N(no key)") {
						kind = "plaintext-on-keyless-node"
					}
					firstWrite := "a later update of a field written at creation"
					if s.step == 0 {
						firstWrite = "the creating write"
					} else if !atCreation[s.field] {
						firstWrite = "an update of a field that was absent at creation"
					}
					mode := "document-level encryption"
					if !docEnc {
						mode = "field-level encryption of " + s.field
					}
					e.violate(kind, fmt.Sprintf("%s: the value of field %s written by %s (step %d) is readable in %s", mode, s.field, firstWrite, s.step, trunc(found)), replay)
				}
				if !mustEnc(s.field) && found == "" && s.step == si {
					e.violate("harness-enc", "control: the pattern of the unencrypted field "+s.field+" was not found: the search is ineffective", replay)
				}
			}
			// key material
			for key, v := range a.scan(ctx, "/db/enc") {
				// dag-cbor map entry "key": 0x63 'k' 'e' 'y' 0x58 0x20 <32 bytes>
				at := bytes.Index(v, []byte{0x63, 'k', 'e', 'y', 0x58, 0x20})
				if at < 0 || len(v) < at+6+32 {
					e.violate("harness-enc", "cannot locate the key inside the encryption block "+trunc(key), replay)
					continue
				}
				kb := v[at+6 : at+6+32]
				for where, b := range blobs {
					if strings.Contains(where, "/db/enc") {
						continue
					}
					if bytes.Contains(b, kb) {
						e.violate("key-in-shared-store", fmt.Sprintf("bytes of the encryption block %s occur in %s", trunc(key), trunc(where)), replay)
					}
				}
			}
			for key := range n.scan(ctx, "/db/enc") {
				e.violate("key-on-keyless-node", "N holds "+trunc(key), replay)
			}
			// read back
			want := map[string]any{}
			for f, v := range current {
				want[f] = v
			}
			if written["pts"] {
				want["pts"] = ctrSum
			}
			q := `query { Sec { name note age score pts tag national_id } }`
			for _, x := range []*Nd{a, k} {
				d, errs := x.gql(ctx, q)
				rows := rowsOf(d, "Sec")
				if errs != "" || len(rows) != 1 {
					e.violate("enc-readback", fmt.Sprintf("%s: %d rows %s", x.name, len(rows), errs), replay)
					continue
				}
				for f, v := range want {
					if unreliable[f] {
						continue
					}
					if fmt.Sprint(rows[0][f]) != fmt.Sprint(v) {
						e.violate("enc-readback", fmt.Sprintf("%s reads %s=%v, written %v", x.name, f, rows[0][f], v), replay)
					}
				}
			}
			return true
		}

		// create
		var createFields []encField
		for _, f := range encFields {
			if r.Chance(60) {
				createFields = append(createFields, f)
			}
		}
		if len(createFields) == 0 {
			createFields = append(createFields, encFields[0])
		}
		mk := func(si int, fields []encField) (string, []secret) {
			var parts []string
			var ss []secret
			for _, f := range fields {
				s := genSecret(r, f, si)
				parts = append(parts, fmt.Sprintf("%s: %s", f.name, s.gql))
				ss = append(ss, s)
				written[f.name] = true
				if f.kind == "ctr" {
					ctrSum += s.value.(int64)
				} else {
					current[f.name] = s.value
				}
			}
			return strings.Join(parts, ", "), ss
		}
		in, ss := mk(0, createFields)
		for _, f := range createFields {
			atCreation[f.name] = true
		}
		encArg := "encrypt: true"
		if !docEnc {
			var ls []string
			for _, f := range encFields {
				if listed[f.name] {
					ls = append(ls, f.name)
				}
			}
			encArg = "encryptFields: [" + strings.Join(ls, ", ") + "]"
		}
		ok := step(0, a, []*Nd{k, n}, fmt.Sprintf(`mutation { create_Sec(input: {%s}, %s) { _docID } }`, in, encArg), createFields, ss)
		var seq []string
		for _, f := range createFields {
			seq = append(seq, f.name)
		}
		key := fmt.Sprintf("%v|%s|", docEnc, strings.Join(seq, ","))
		nSteps := 2 + r.Intn(7)
		var follow *encField
		for si := 1; ok && si <= nSteps; si++ {
			var fields []encField
			m := 1 + r.Intn(2)
			if follow != nil {
				// the field the key-less peer has just written is written again by a key holder
				fields = append(fields, *follow)
				follow = nil
				m = r.Intn(2)
			}
			for j := 0; j < m; j++ {
				var cand []encField
				wantNew := r.Chance(40)
				for _, f := range encFields {
					dup := false
					for _, g := range fields {
						if g.name == f.name {
							dup = true
						}
					}
					if !dup && written[f.name] != wantNew {
						cand = append(cand, f)
					}
				}
				if len(cand) == 0 {
					continue
				}
				f := Pick(r, cand)
				if !written[f.name] {
					nontrivial = true
				}
				fields = append(fields, f)
			}
			if len(fields) == 0 {
				continue
			}
			w, others := a, []*Nd{k, n}
			if follow == nil && len(fields) > 0 && unreliable[fields[0].name] && r.Chance(50) {
				// key holder's follow-up write stays on A or K at random
				w, others = k, []*Nd{a, n}
			} else if r.Chance(25) {
				w, others = k, []*Nd{a, n}
				nontrivial = true
			} else if !docEnc && r.Chance(50) {
				// the key-less peer writes one register field (counters excluded: its view of the counter is empty)
				var regs []encField
				for _, f := range fields {
					if f.kind != "ctr" && written[f.name] {
						regs = append(regs, f)
					}
				}
				if len(regs) > 0 {
					w, others = n, []*Nd{a, k}
					fields = regs[:1]
					ff := fields[0]
					follow = &ff
					unreliable[fields[0].name] = true
					nontrivial = true
					e.count("keyless_peer_writes")
				}
			}
			in, ss := mk(si, fields)
			ok = step(si, w, others, fmt.Sprintf(`mutation { update_Sec(input: {%s}) { _docID } }`, in), fields, ss)
			for _, f := range fields {
				key += f.name + ","
			}
			key += w.name + ";"
		}
		if ok {
			var ls []string
			for i, f := range encFields {
				if listed[f.name] {
					ls = append(ls, fmt.Sprint(i))
				}
			}
			cases = append(cases, fmt.Sprintf("EncCase %s [%s]%%nat [%s] [%s]", coqBool(docEnc), strings.Join(ls, ";"), strings.Join(coqSteps, "; "), strings.Join(coqObs, "; ")))
		}
		e.count(fmt.Sprintf("docenc_%v_branchable_%v", docEnc, branchable))
		if nontrivial {
			e.distinct(key)
		}
		if hi == 0 {
			e.sample(replay)
		}
		stopN()
		stopK()
		for _, x := range []*Nd{a, k, n} {
			x.close(ctx)
		}
	}
	e.writeCasesSharded("cases_C11", "CorrC11", "enccase", cases, 400)
}

// update events of a node whose default subscription was dropped
type updCollector struct{ sub event.Subscription }

func newUpdCollector(x *Nd) *updCollector {
	s, err := x.n.DB.Events().Subscribe(event.UpdateName)
	if err != nil {
		panic(err)
	}
	return &updCollector{s}
}

// take drops events of merges (no local write pending) and returns the next `want` events
func (c *updCollector) take(want int, wait time.Duration) []event.Update {
	var out []event.Update
	deadline := time.After(wait)
	for len(out) < want {
		select {
		case m := <-c.sub.Message():
			if u, ok := m.Data.(event.Update); ok {
				out = append(out, u)
			}
		case <-deadline:
			return out
		}
	}
	return out
}

func (c *updCollector) drain() {
	for {
		select {
		case <-c.sub.Message():
		case <-time.After(5 * time.Millisecond):
			return
		}
	}
}

func writtenBefore(all []secret, s secret) bool {
	for _, t := range all {
		if t.field == s.field && t.step < s.step {
			return true
		}
	}
	return false
}

func init() { engines["enc"] = engEnc }
