package main

// C03: time-travel queries and subscriptions, evaluated on the histories of the crdt engine.
//   - for every commit c of the finished history: <Collection>(cid: c, docID: d) must show the state obtained
//     by applying c and each of its ancestors exactly once (harness reference: sums / causally latest writes over
//     Anc*(c)); when c was written locally on top of a single head chain, it must equal the ordinary query result
//     recorded right after c; at the current single head it must equal the current query result;
//   - a GraphQL subscription open on the writer must yield one result per committed change, with those values.

import (
	"context"
	"fmt"
	"strings"
	"sync"
	"time"

	"github.com/fxamacker/cbor/v2"
)

const versionedQuery = `query { User(cid: "%s", docID: "%s", showDeleted: true) { _docID _deleted name age flag points score rate } }`

type ancRef struct {
	deleted  bool
	counters map[string]float64
	latest   map[string]map[string]bool
}

func (h *history) refAt(c string) ancRef {
	anc := map[string]bool{}
	h.ancestors(c, anc)
	r := ancRef{counters: map[string]float64{}, latest: map[string]map[string]bool{}}
	fieldBlocks := map[string][]*cblock{}
	for a := range anc {
		b := h.blocks[a]
		if b.info.Status == 2 {
			r.deleted = true
		}
		for _, l := range b.info.Links {
			if fb := h.blocks[l[1]]; fb != nil && fb.info.Kind != "composite" {
				fieldBlocks[fb.info.FieldName] = append(fieldBlocks[fb.info.FieldName], fb)
			}
		}
	}
	for f, bs := range fieldBlocks {
		child := map[string]bool{}
		seen := map[string]bool{}
		for _, b := range bs {
			for _, p := range b.info.Heads {
				child[p] = true
			}
		}
		r.latest[f] = map[string]bool{}
		for _, b := range bs {
			if !child[b.cid] {
				r.latest[f][fmt.Sprintf("%x", b.info.Data)] = true
			}
			if b.info.Kind == "counter" && !seen[b.cid] {
				seen[b.cid] = true
				var v float64
				if err := cbor.Unmarshal(b.info.Data, &v); err == nil {
					r.counters[f] += v
				}
			}
		}
	}
	return r
}

// versionedSweep queries every commit of the history at node n and appends SVersioned steps.
func (h *history) versionedSweep(n int, rowAfter map[string]string) {
	x := h.nodes[n]
	for _, c := range h.comps {
		if !h.merged[n][c] {
			continue
		}
		b := h.blocks[c]
		headsBefore := fmt.Sprint(sortedKeys(x.scan(h.ctx, "/db/heads/d/"+h.docID+"/")))
		data, errs := x.gql(h.ctx, fmt.Sprintf(versionedQuery, c, h.docID))
		h.e.count("versioned_query")
		if headsAfter := fmt.Sprint(sortedKeys(x.scan(h.ctx, "/db/heads/d/"+h.docID+"/"))); headsAfter != headsBefore {
			h.e.violate("dag-heads-changed-by-query", fmt.Sprintf("%s: the time-travel query at commit #%d changed the head store of the document: %d head keys before, %d after", x.name, b.id, strings.Count(headsBefore, "/db/heads"), strings.Count(headsAfter, "/db/heads")), h.replay())
		}
		if errs != "" {
			h.e.violate("versioned-error", fmt.Sprintf("%s: time-travel query at commit #%d failed: %s", x.name, b.id, errs), h.replay())
			continue
		}
		rows := rowsOf(data, "User")
		if len(rows) != 1 {
			h.e.violate("versioned-rows", fmt.Sprintf("%s: time-travel query at commit #%d returned %d rows", x.name, b.id, len(rows)), h.replay())
			continue
		}
		r := rows[0]
		del, _ := r["_deleted"].(bool)
		ref := h.refAt(c)
		vals := map[string]any{}
		for _, f := range crdtFields {
			vals[f.name] = r[f.name]
		}
		if del != ref.deleted {
			h.e.violate("versioned-deleted", fmt.Sprintf("%s: at commit #%d _deleted=%v, a delete among its ancestors=%v", x.name, b.id, del, ref.deleted), h.replay())
		}
		for _, f := range crdtFields {
			v := vals[f.name]
			switch f.kind {
			case "pn", "p", "pnf":
				got, ok := numOf(v)
				if !ok || got != ref.counters[f.name] {
					h.e.violate("versioned-counter", fmt.Sprintf("%s: at commit #%d (height %d) counter %s reads %v, sum of the increments of the commit and its ancestors is %v", x.name, b.id, b.info.Priority, f.name, v, ref.counters[f.name]), h.replay())
				}
			default:
				enc, _ := cborEnc.Marshal(v)
				adm := ref.latest[f.name]
				if len(adm) == 0 {
					if v != nil {
						h.e.violate("versioned-register", fmt.Sprintf("%s: at commit #%d field %s reads %v, no ancestor wrote it", x.name, b.id, f.name, v), h.replay())
					}
				} else if !adm[fmt.Sprintf("%x", enc)] {
					h.e.violate("versioned-register", fmt.Sprintf("%s: at commit #%d field %s reads %v, not a causally latest write among the ancestors", x.name, b.id, f.name, v), h.replay())
				}
			}
		}
		// linear past: equals what the ordinary query returned right after the commit
		if want, ok := rowAfter[c]; ok {
			got := fmt.Sprintf("deleted=%v vals=%s", del, canonJSON(vals))
			if got != want {
				h.e.violate("versioned-past", fmt.Sprintf("%s: at commit #%d the time-travel query shows %s, the ordinary query right after that commit showed %s", x.name, b.id, got, want), h.replay())
			}
		}
		h.steps = append(h.steps, stepObs{kind: "versioned", node: n, cid: b.id, exists: true, deleted: del, vals: vals})
		// the same time-travel query with a filter the state at that commit satisfies (in the indexed configuration
		// the filtered field carries a secondary index): still exactly that one row
		if av, ok := vals["age"].(int64); ok && !del {
			fq := fmt.Sprintf(`query { User(cid: "%s", docID: "%s", filter: {age: {_eq: %d}}) { age } }`, c, h.docID, av)
			fd, ferr := x.gql(h.ctx, fq)
			h.e.Res.Evaluations++
			if n := len(rowsOf(fd, "User")); ferr != "" || n != 1 {
				h.e.violate("versioned-filter", fmt.Sprintf("%s (%s collection): at commit #%d the document has age %d; the time-travel query with filter {age: {_eq: %d}} returns %d rows %s", x.name, h.cfg, b.id, av, av, n, ferr), h.replay())
			}
		}
	}
	// at the current single head: equals the current query
	hs := sortedKeys(h.reference(n).heads)
	if len(hs) == 1 {
		ex, del, vals, _ := h.observe(n)
		data, errs := x.gql(h.ctx, fmt.Sprintf(versionedQuery, hs[0], h.docID))
		rows := rowsOf(data, "User")
		if errs == "" && len(rows) == 1 && ex {
			d2, _ := rows[0]["_deleted"].(bool)
			v2 := map[string]any{}
			for _, f := range crdtFields {
				v2[f.name] = rows[0][f.name]
			}
			if d2 != del || canonJSON(v2) != canonJSON(vals) {
				h.e.violate("versioned-head", fmt.Sprintf("%s: query at the single current head shows %s, the current query shows %s", x.name, canonJSON(v2), canonJSON(vals)), h.replay())
			}
		}
	}
}

// subscription collector
type subCollector struct {
	mu      sync.Mutex
	results []map[string]any
	errs    []string
	cancel  context.CancelFunc
}

func openSubscription(ctx context.Context, x *Nd, q string) *subCollector {
	sctx, cancel := context.WithCancel(ctx)
	sc := &subCollector{cancel: cancel}
	res := x.n.DB.ExecRequest(sctx, q)
	if len(res.GQL.Errors) > 0 {
		sc.errs = append(sc.errs, fmt.Sprint(res.GQL.Errors))
		return sc
	}
	if res.Subscription == nil {
		sc.errs = append(sc.errs, "no subscription channel")
		return sc
	}
	go func() {
		for r := range res.Subscription {
			sc.mu.Lock()
			if len(r.Errors) > 0 {
				sc.errs = append(sc.errs, fmt.Sprint(r.Errors))
			}
			for key := range asMap(r.Data) {
				sc.results = append(sc.results, rowsOf(asMap(r.Data), key)...)
			}
			sc.mu.Unlock()
		}
	}()
	return sc
}

func asMap(v any) map[string]any {
	m, _ := v.(map[string]any)
	return m
}

func (sc *subCollector) wait(n int, d time.Duration) []map[string]any {
	deadline := time.Now().Add(d)
	for {
		sc.mu.Lock()
		k := len(sc.results)
		sc.mu.Unlock()
		if k >= n || time.Now().After(deadline) {
			break
		}
		time.Sleep(2 * time.Millisecond)
	}
	time.Sleep(5 * time.Millisecond)
	sc.mu.Lock()
	defer sc.mu.Unlock()
	return append([]map[string]any{}, sc.results...)
}

// runLinearHistory: one writer, a long linear history (counters and registers), a subscription open on the writer.
func runLinearHistory(e *Env, ctx context.Context, r *Rng, nodes []*Nd, serial int) *history {
	h := &history{e: e, ctx: ctx, nodes: nodes, cfg: "linear", tag: fmt.Sprintf("L%d_%d", e.Seed, serial), blocks: map[string]*cblock{}}
	for range nodes {
		h.merged = append(h.merged, map[string]bool{})
	}
	w := r.Intn(len(nodes))
	sub := openSubscription(ctx, nodes[w], fmt.Sprintf(`subscription { User(filter: {tag: {_eq: "%s"}}) { _docID name age flag points score rate } }`, h.tag))
	defer sub.cancel()
	rowAfter := map[string]string{}
	var expectSub []string
	var txnCids []string
	record := func() {
		if len(h.comps) == 0 {
			return
		}
		c := h.comps[len(h.comps)-1]
		_, del, vals, _ := h.observe(w)
		rowAfter[c] = fmt.Sprintf("deleted=%v vals=%s", del, canonJSON(vals))
		if !del {
			expectSub = append(expectSub, canonJSON(vals))
		}
	}
	cv := h.randVals(r, true, true)
	cv["tag"] = h.tag
	cv["points"] = 1 + r.Intn(3)
	if !h.local(w, "create", fmt.Sprintf(`mutation { create_User(input: {%s}) { _docID } }`, gqlFields(cv))) {
		return h
	}
	record()
	n := 4 + r.Intn(9)
	for i := 0; i < n && !h.bad; i++ {
		uv := h.randVals(r, false, true)
		uv["points"] = 1 + r.Intn(5)
		if h.local(w, "update", fmt.Sprintf(`mutation { update_User(docID: "%s", input: {%s}) { _docID } }`, h.docID, gqlFields(uv))) {
			record()
		}
	}
	if h.bad {
		return h
	}
	// two updates of the document inside ONE explicit transaction: two commits become visible together; the
	// subscription must still report each change with the values of ITS commit
	if r.Chance(70) {
		x := nodes[w]
		x.drainUpdates(0, 0)
		t, err := x.n.DB.NewTxn(ctx, false)
		if err == nil {
			u1 := h.randVals(r, false, true)
			u1["points"] = 1 + r.Intn(5)
			u1["age"] = 50 + r.Intn(5)
			u2 := h.randVals(r, false, true)
			u2["points"] = 1 + r.Intn(5)
			u2["age"] = 60 + r.Intn(5)
			r1 := t.ExecRequest(ctx, fmt.Sprintf(`mutation { update_User(docID: "%s", input: {%s}) { _docID } }`, h.docID, gqlFields(u1)))
			r2 := t.ExecRequest(ctx, fmt.Sprintf(`mutation { update_User(docID: "%s", input: {%s}) { _docID } }`, h.docID, gqlFields(u2)))
			h.desc = append(h.desc, fmt.Sprintf("txn@%s { update %s ; update %s } commit", x.name, gqlFields(u1), gqlFields(u2)))
			if len(r1.GQL.Errors) == 0 && len(r2.GQL.Errors) == 0 && t.Commit(ctx) == nil {
				evs := x.drainUpdates(2, 2*time.Second)
				if len(evs) != 2 {
					e.violate("subscription-count", fmt.Sprintf("%d update events for a committed transaction with two updates", len(evs)), h.replay())
				}
				for _, ev := range evs {
					if b := h.register(x, ev.Cid); b != nil && b.info.Kind == "composite" {
						h.comps = appendUniq(h.comps, b.cid)
						h.merged[w][b.cid] = true
						txnCids = append(txnCids, b.cid)
						// a local write whose intermediate state cannot be observed from outside the transaction
						h.steps = append(h.steps, stepObs{kind: "local-quiet", node: w, cid: b.id})
					}
				}
				e.count("txn_double_update")
				h.afterStep("local-rejected", w, nil, "")
			} else {
				t.Discard(ctx)
			}
		}
	}
	h.versionedSweep(w, rowAfter)
	// the expected subscription result of a commit made inside the transaction is the time-travel state at that commit
	for _, c := range txnCids {
		data, errs := nodes[w].gql(ctx, fmt.Sprintf(versionedQuery, c, h.docID))
		if rows := rowsOf(data, "User"); errs == "" && len(rows) == 1 {
			vals := map[string]any{}
			for _, f := range crdtFields {
				vals[f.name] = rows[0][f.name]
			}
			expectSub = append(expectSub, canonJSON(vals))
		}
	}
	// subscription: exactly one result per committed change, with the values of that commit
	got := sub.wait(len(expectSub), 3*time.Second)
	for _, er := range sub.errs {
		e.violate("subscription-error", "subscription reported: "+er, h.replay())
	}
	if len(got) != len(expectSub) {
		e.violate("subscription-count", fmt.Sprintf("%d subscription results for %d committed changes", len(got), len(expectSub)), h.replay())
	} else {
		for i := range got {
			vals := map[string]any{}
			for _, f := range crdtFields {
				vals[f.name] = got[i][f.name]
			}
			if canonJSON(vals) != expectSub[i] {
				e.violate("subscription-values", fmt.Sprintf("subscription result %d shows %s, the query right after that commit showed %s", i, canonJSON(vals), expectSub[i]), h.replay())
				break
			}
		}
	}
	e.count("subscription_results")
	// deliver the head to another node and query there too
	if len(nodes) > 1 {
		o := (w + 1) % len(nodes)
		h.deliver(o, h.comps[len(h.comps)-1], "head")
		h.versionedSweep(o, rowAfter)
	}
	return h
}
