package main

// Engine "txn" (C06): explicit transactions on one real node. Two or three transactions with up to three
// document-level operations each (read by docID, update, create, delete; ended by commit or discard), ALL
// interleavings for two transactions (sampled for three), non-transactional probe reads after every step.
// Direct oracle (computed from the schedule alone):
//   snapshot reads   - a read in T returns T's own latest write, else the value committed before T began;
//   invisibility     - a probe outside sees exactly the effects of the transactions committed so far;
//   no lost update   - of two overlapping transactions that wrote the same document at most one commits,
//                      the other gets a conflict error;
//   discard          - a discarded or failed transaction leaves no trace.
// The same schedules with observed read / commit results are written as Coq cases for Kv/Mvcc.v.

import (
	"context"
	"encoding/json"
	"errors"
	"fmt"
	"os"
	"sort"
	"strings"
	"time"

	"github.com/sourcenetwork/corekv"

	"github.com/sourcenetwork/defradb/client"
)

type txOp struct {
	kind string // begin read write create delete commit discard
	txn  int
	doc  int // index into docs (creates use fresh indexes)
	val  int
}

type txObs struct {
	events  int // update events received right after this step
	op      txOp
	readVal *int // nil: document absent
	present bool
	err     string
	ok      bool
	probe   []string // outside view after the step: per doc "absent" or value
	listed  []int    // list: the document numbers the listing inside the transaction showed
}

func (o txOp) String() string {
	switch o.kind {
	case "begin", "commit", "discard":
		return fmt.Sprintf("T%d.%s", o.txn, o.kind)
	case "list":
		return fmt.Sprintf("T%d.list(%s)", o.txn, map[int]string{0: "request", 1: "export"}[o.val])
	case "read", "delete":
		return fmt.Sprintf("T%d.%s(d%d)", o.txn, o.kind, o.doc)
	}
	return fmt.Sprintf("T%d.%s(d%d,%d)", o.txn, o.kind, o.doc, o.val)
}

func genTxnProgram(r *Rng, t int, ndocs int, fresh *int) []txOp {
	n := 1 + r.Intn(3)
	ops := []txOp{{kind: "begin", txn: t}}
	for i := 0; i < n; i++ {
		switch r.Intn(10) {
		case 0, 1, 2:
			ops = append(ops, txOp{kind: "read", txn: t, doc: r.Intn(ndocs)})
		case 3:
			*fresh++
			ops = append(ops, txOp{kind: "create", txn: t, doc: *fresh, val: 100 + *fresh})
		case 4:
			ops = append(ops, txOp{kind: "delete", txn: t, doc: r.Intn(ndocs)})
		case 5:
			ops = append(ops, txOp{kind: "list", txn: t, val: r.Intn(2)})
		default:
			ops = append(ops, txOp{kind: "write", txn: t, doc: r.Intn(ndocs), val: 10*(t+1) + i})
		}
	}
	end := "commit"
	if r.Chance(20) {
		end = "discard"
	}
	return append(ops, txOp{kind: end, txn: t})
}

// interleavings of k sequences (each kept in order); calls f with every merged sequence until it returns false.
func interleave(seqs [][]txOp, f func([]txOp) bool) {
	idx := make([]int, len(seqs))
	var cur []txOp
	var rec func() bool
	rec = func() bool {
		done := true
		for i := range seqs {
			if idx[i] < len(seqs[i]) {
				done = false
				cur = append(cur, seqs[i][idx[i]])
				idx[i]++
				if !rec() {
					return false
				}
				idx[i]--
				cur = cur[:len(cur)-1]
			}
		}
		if done {
			return f(append([]txOp{}, cur...))
		}
		return true
	}
	rec()
}

type txnWorld struct {
	x      *Nd
	ctx    context.Context
	docIDs map[int]string // doc index -> docID (after creation)
	tag    string
}

func (w *txnWorld) readDoc(exec func(string) *client.RequestResult, d int) (*int, bool, string) {
	id, ok := w.docIDs[d]
	var q string
	if ok {
		q = fmt.Sprintf(`query { Acct(docID: "%s") { bal } }`, id)
	} else {
		q = fmt.Sprintf(`query { Acct(filter: {name: {_eq: "%s_d%d"}}) { bal } }`, w.tag, d)
	}
	res := exec(q)
	if len(res.GQL.Errors) > 0 {
		return nil, false, fmt.Sprint(res.GQL.Errors)
	}
	rows := rowsOf(asMap(res.GQL.Data), "Acct")
	if len(rows) == 0 {
		return nil, false, ""
	}
	switch v := rows[0]["bal"].(type) {
	case int64:
		i := int(v)
		return &i, true, ""
	case nil:
		return nil, true, ""
	}
	return nil, true, fmt.Sprintf("unexpected value %v", rows[0]["bal"])
}

// list: the documents of this world a listing inside the transaction shows - through a request, or through an export
// (the export walks the collection with GetAllDocIDs)
func (w *txnWorld) list(t client.Txn, export bool) ([]int, string) {
	var names []string
	if !export {
		res := t.ExecRequest(w.ctx, fmt.Sprintf(`query { Acct(filter: {name: {_like: "%s_d%%"}}) { name } }`, w.tag))
		if len(res.GQL.Errors) > 0 {
			return nil, fmt.Sprint(res.GQL.Errors)
		}
		for _, row := range rowsOf(asMap(res.GQL.Data), "Acct") {
			names = append(names, fmt.Sprint(row["name"]))
		}
	} else {
		f, err := os.CreateTemp("/var/tmp", "vtxnexp")
		if err != nil {
			return nil, err.Error()
		}
		f.Close()
		defer os.Remove(f.Name())
		if err := t.BasicExport(w.ctx, &client.BackupConfig{Filepath: f.Name(), Collections: []string{"Acct"}}); err != nil {
			return nil, err.Error()
		}
		raw, _ := os.ReadFile(f.Name())
		var parsed map[string][]map[string]any
		if err := json.Unmarshal(raw, &parsed); err != nil {
			return nil, "export file: " + err.Error()
		}
		for _, row := range parsed["Acct"] {
			names = append(names, fmt.Sprint(row["name"]))
		}
	}
	var out []int
	for _, n := range names {
		var d int
		if strings.HasPrefix(n, w.tag+"_d") {
			if _, err := fmt.Sscanf(n[len(w.tag)+2:], "%d", &d); err == nil {
				out = append(out, d)
			}
		}
	}
	sort.Ints(out)
	return out, ""
}

func runTxnSchedule(e *Env, ctx context.Context, x *Nd, serial int, ndocs int, sched []txOp, concurrent bool) ([]txObs, bool) {
	w := &txnWorld{x: x, ctx: ctx, docIDs: map[int]string{}, tag: fmt.Sprintf("s%d_%d", e.Seed, serial)}
	x.drainUpdates(0, 0)
	// initial documents, committed
	for d := 0; d < ndocs; d++ {
		data, errs := x.gql(ctx, fmt.Sprintf(`mutation { create_Acct(input: {name: "%s_d%d", bal: %d}) { _docID } }`, w.tag, d, d))
		if errs != "" {
			panic(errs)
		}
		w.docIDs[d] = fmt.Sprint(rowsOf(data, "create_Acct")[0]["_docID"])
	}
	if got := len(x.drainUpdates(ndocs, 2*time.Second)); got != ndocs {
		e.violate("txn-events", fmt.Sprintf("%d update events for %d committed creates", got, ndocs), nil)
	}
	txns := map[int]client.Txn{}
	nWrites := map[int]int{}
	execOut := func(q string) *client.RequestResult { return x.n.DB.ExecRequest(ctx, q) }
	var obs []txObs
	allDocs := func() []int {
		var ds []int
		seen := map[int]bool{}
		for d := 0; d < ndocs; d++ {
			ds = append(ds, d)
			seen[d] = true
		}
		for _, o := range sched {
			if o.kind == "create" && !seen[o.doc] {
				ds = append(ds, o.doc)
				seen[o.doc] = true
			}
		}
		return ds
	}()
	for _, o := range sched {
		ob := txObs{op: o, ok: true}
		var t client.Txn
		if o.kind != "begin" {
			t = txns[o.txn]
		}
		execIn := func(q string) *client.RequestResult { return t.ExecRequest(ctx, q) }
		switch o.kind {
		case "begin":
			var nt client.Txn
			var err error
			if concurrent {
				nt, err = x.n.DB.NewConcurrentTxn(ctx, false)
			} else {
				nt, err = x.n.DB.NewTxn(ctx, false)
			}
			if err != nil {
				panic(err)
			}
			txns[o.txn] = nt
		case "read":
			ob.readVal, ob.present, ob.err = w.readDoc(execIn, o.doc)
		case "write":
			id, ok := w.docIDs[o.doc]
			if !ok {
				ob.err = "no such doc"
				break
			}
			res := execIn(fmt.Sprintf(`mutation { update_Acct(docID: "%s", input: {bal: %d}) { _docID } }`, id, o.val))
			if len(res.GQL.Errors) > 0 {
				ob.err = fmt.Sprint(res.GQL.Errors)
				ob.ok = false
			} else if len(rowsOf(asMap(res.GQL.Data), "update_Acct")) == 0 {
				ob.ok = false // no such (visible) document: nothing written
			} else {
				nWrites[o.txn]++
			}
		case "create":
			res := execIn(fmt.Sprintf(`mutation { create_Acct(input: {name: "%s_d%d", bal: %d}) { _docID } }`, w.tag, o.doc, o.val))
			if len(res.GQL.Errors) > 0 {
				ob.err = fmt.Sprint(res.GQL.Errors)
				ob.ok = false
			} else {
				w.docIDs[o.doc] = fmt.Sprint(rowsOf(asMap(res.GQL.Data), "create_Acct")[0]["_docID"])
				nWrites[o.txn]++
			}
		case "delete":
			id := w.docIDs[o.doc]
			res := execIn(fmt.Sprintf(`mutation { delete_Acct(docID: "%s") { _docID } }`, id))
			if len(res.GQL.Errors) > 0 {
				ob.err = fmt.Sprint(res.GQL.Errors)
				ob.ok = false
			} else if len(rowsOf(asMap(res.GQL.Data), "delete_Acct")) == 0 {
				ob.ok = false
			} else {
				nWrites[o.txn]++
			}
		case "list":
			ob.listed, ob.err = w.list(t, o.val == 1)
		case "commit":
			if err := t.Commit(ctx); err != nil {
				ob.ok = false
				ob.err = err.Error()
				if errors.Is(err, corekv.ErrTxnConflict) || strings.Contains(err.Error(), "onflict") {
					ob.err = "conflict"
				}
			}
		case "discard":
			t.Discard(ctx)
		}
		if o.kind == "commit" && ob.ok {
			// wait for the events of the successful writes of this transaction, then a little longer for extra ones
			ob.events = len(x.drainUpdates(nWrites[o.txn], time.Second))
			ob.events += len(x.drainUpdates(1<<30, 2*time.Millisecond))
		} else {
			ob.events = len(x.drainUpdates(1<<30, time.Millisecond))
		}
		for _, d := range allDocs {
			v, present, perr := w.readDoc(execOut, d)
			switch {
			case perr != "":
				ob.probe = append(ob.probe, "error:"+perr)
			case !present:
				ob.probe = append(ob.probe, "absent")
			case v == nil:
				ob.probe = append(ob.probe, "null")
			default:
				ob.probe = append(ob.probe, fmt.Sprint(*v))
			}
		}
		obs = append(obs, ob)
	}
	// leave no transaction open
	for _, t := range txns {
		t.Discard(ctx)
	}
	return obs, true
}

// reference semantics computed from the schedule and the observed commit results only
type refTxn struct {
	writeLog []int // one entry per successful document-level write (each becomes a commit in the DAG)
	snap     map[int]*int
	writes   map[int]*int // nil pointer value = deleted/absent
	wrote    map[int]bool
	began    int
	ended    int
	active   bool
}

func checkTxnSchedule(e *Env, sched []txOp, obs []txObs, ndocs int, replay any) {
	committed := map[int]*int{}
	for d := 0; d < ndocs; d++ {
		v := d
		committed[d] = &v
	}
	txs := map[int]*refTxn{}
	cp := func(m map[int]*int) map[int]*int {
		o := map[int]*int{}
		for k, v := range m {
			o[k] = v
		}
		return o
	}
	show := func(p *int) string {
		if p == nil {
			return "absent"
		}
		return fmt.Sprint(*p)
	}
	var allDocs []int
	{
		seen := map[int]bool{}
		for d := 0; d < ndocs; d++ {
			allDocs = append(allDocs, d)
			seen[d] = true
		}
		for _, o := range sched {
			if o.kind == "create" && !seen[o.doc] {
				allDocs = append(allDocs, o.doc)
				seen[o.doc] = true
			}
		}
	}
	type commitRec struct{ txn, at int }
	var commits []commitRec
	for i, ob := range obs {
		o := ob.op
		t := txs[o.txn]
		switch o.kind {
		case "begin":
			txs[o.txn] = &refTxn{snap: cp(committed), writes: map[int]*int{}, wrote: map[int]bool{}, began: i, active: true}
		case "read":
			want, own := t.writes[o.doc]
			if !own {
				want = t.snap[o.doc]
			}
			got := "absent"
			if ob.present && ob.readVal != nil {
				got = fmt.Sprint(*ob.readVal)
			}
			if ob.err != "" {
				e.violate("txn-read-error", fmt.Sprintf("step %d %v: %s", i, o, ob.err), replay)
			} else if got != show(want) {
				e.violate("snapshot-read", fmt.Sprintf("step %d %v read %s; its snapshot plus own writes gives %s", i, o, got, show(want)), replay)
			}
		case "list":
			var want []int
			for _, d := range allDocs {
				cur, own := t.writes[d]
				if !own {
					cur = t.snap[d]
				}
				if cur != nil {
					want = append(want, d)
				}
			}
			sort.Ints(want)
			if ob.err != "" {
				e.violate("txn-read-error", fmt.Sprintf("step %d %v: %s", i, o, ob.err), replay)
			} else if fmt.Sprint(ob.listed) != fmt.Sprint(want) {
				e.violate("snapshot-read", fmt.Sprintf("step %d %v lists the documents %v; its snapshot plus own writes holds %v", i, o, ob.listed, want), replay)
			}
		case "write":
			// visible document in T's view?
			cur, own := t.writes[o.doc]
			if !own {
				cur = t.snap[o.doc]
			}
			if cur != nil && ob.ok {
				v := o.val
				t.writes[o.doc] = &v
				t.wrote[o.doc] = true
				t.writeLog = append(t.writeLog, o.doc)
			} else if cur != nil && !ob.ok {
				e.violate("txn-write-rejected", fmt.Sprintf("step %d %v was rejected (%s) although the document is visible in the transaction", i, o, ob.err), replay)
			} else if cur == nil && ob.ok {
				e.violate("txn-write-phantom", fmt.Sprintf("step %d %v updated a document that is not visible in the transaction", i, o), replay)
			}
		case "create":
			if ob.ok {
				v := o.val
				t.writes[o.doc] = &v
				t.wrote[o.doc] = true
				t.writeLog = append(t.writeLog, o.doc)
			}
		case "delete":
			cur, own := t.writes[o.doc]
			if !own {
				cur = t.snap[o.doc]
			}
			if cur != nil && ob.ok {
				t.writes[o.doc] = nil
				t.wrote[o.doc] = true
				t.writeLog = append(t.writeLog, o.doc)
			}
		case "commit":
			t.active = false
			t.ended = i
			if want := len(t.writeLog); ob.ok && ob.events != want {
				e.violate("txn-events", fmt.Sprintf("step %d %v committed %d document changes but %d update events were published", i, o, want, ob.events), replay)
			}
			if ob.ok {
				for d, v := range t.writes {
					committed[d] = v
				}
				commits = append(commits, commitRec{o.txn, i})
				// no lost update: an earlier committed transaction that overlapped and wrote a common document
				for _, c := range commits[:len(commits)-1] {
					other := txs[c.txn]
					if c.at > t.began { // other committed after this one began: they overlapped
						for d := range t.wrote {
							if other.wrote[d] {
								e.violate("lost-update", fmt.Sprintf("T%d and T%d overlapped, both wrote d%d and both committed", c.txn, o.txn, d), replay)
							}
						}
					}
				}
			} else if ob.err != "conflict" {
				e.violate("commit-error", fmt.Sprintf("step %d %v failed with %q (not a conflict)", i, o, ob.err), replay)
			} else {
				// a conflict must have a cause: some overlapping committed transaction
				cause := false
				for _, c := range commits {
					if c.at > t.began {
						cause = true
					}
				}
				if !cause {
					e.violate("spurious-conflict", fmt.Sprintf("step %d %v reported a conflict but no transaction committed since it began", i, o), replay)
				}
			}
		case "discard":
			t.active = false
			t.ended = i
		}
		if (o.kind != "commit" || !ob.ok) && ob.events > 0 {
			e.violate("txn-event-uncommitted", fmt.Sprintf("step %d %v: %d update events were published although nothing was committed by this step", i, o, ob.events), replay)
		}
		// invisibility / atomic visibility: the outside view is exactly the committed state
		for j, d := range allDocs {
			if j < len(ob.probe) && ob.probe[j] != show(committed[d]) {
				e.violate("visibility", fmt.Sprintf("after step %d %v the non-transactional view of d%d is %s, the committed state is %s", i, o, d, ob.probe[j], show(committed[d])), replay)
			}
		}
	}
}

func engTxn(e *Env) {
	ctx := context.Background()
	r := NewRng(e.Seed)
	e.Res.Rule = "two (all interleavings) or three (sampled interleavings) explicit transactions of 1-3 operations (read by docID, update, create, delete; commit or discard) over 2 documents on one real node, probe reads outside after every step; distinct = distinct schedule; non-trivial = two transactions touch a common document"
	x := newNd(ctx, "T")
	defer func() { x.close(ctx) }()
	x.addSchema(ctx, `type Acct { name: String @index bal: Int }`)
	nPrograms := 14
	maxSched := 1500
	if e.thorough() {
		nPrograms, maxSched = 150, 40000
	}
	if e.N > 0 {
		maxSched = e.N
	}
	var cases []string
	serial := 0
	ndocs := 2
	for p := 0; p < nPrograms && serial < maxSched; p++ {
		fresh := ndocs - 1
		m := 2
		if p%4 == 3 {
			m = 3
		}
		var progs [][]txOp
		for t := 0; t < m; t++ {
			progs = append(progs, genTxnProgram(r, t, ndocs, &fresh))
		}
		budget := 100
		if m == 3 {
			budget = 60
		}
		var all [][]txOp
		interleave(progs, func(s []txOp) bool {
			all = append(all, s)
			return len(all) < 20000
		})
		if len(all) > budget {
			Shuffle(r, all)
			all = all[:budget]
		} else {
			e.count("exhaustive_program_sets")
		}
		for _, sched := range all {
			if serial >= maxSched {
				break
			}
			serial++
			if serial%400 == 0 {
				// a fresh node: listings walk the whole collection, which grows with every schedule
				x.close(ctx)
				x = newNd(ctx, "T")
				x.addSchema(ctx, `type Acct { name: String @index bal: Int }`)
			}
			concurrent := serial%2 == 0
			if concurrent {
				e.count("flavour_concurrent_txn")
			} else {
				e.count("flavour_txn")
			}
			obs, _ := runTxnSchedule(e, ctx, x, serial, ndocs, sched, concurrent)
			var names []string
			for _, o := range sched {
				names = append(names, o.String())
			}
			replay := map[string]any{"documents": ndocs, "schedule": names, "concurrent_txn_flavour": concurrent}
			checkTxnSchedule(e, sched, obs, ndocs, replay)
			e.Res.Evaluations++
			e.count(fmt.Sprintf("txns_%d", m))
			touched := map[int]map[int]bool{}
			for _, o := range sched {
				if o.kind == "read" || o.kind == "write" || o.kind == "delete" {
					if touched[o.doc] == nil {
						touched[o.doc] = map[int]bool{}
					}
					touched[o.doc][o.txn] = true
				}
			}
			for _, ts := range touched {
				if len(ts) > 1 {
					e.distinct(strings.Join(names, " "))
					break
				}
			}
			if serial <= 2 {
				var os []string
				for _, ob := range obs {
					s := ob.op.String()
					if ob.op.kind == "read" {
						if ob.readVal != nil {
							s += fmt.Sprintf("=%d", *ob.readVal)
						} else {
							s += "=absent"
						}
					}
					if ob.op.kind == "commit" {
						s += fmt.Sprintf(" ok=%v %s", ob.ok, ob.err)
					}
					os = append(os, s)
				}
				e.sample(map[string]any{"schedule_with_observations": os})
			}
			cases = append(cases, txnCase(ndocs, obs))
		}
	}
	e.writeCasesSharded("cases_C06", "CorrC06", "tcase", cases, 400)
	acpDiscardWitness(e)
}

func txnCase(ndocs int, obs []txObs) string {
	var ops []string
	for _, ob := range obs {
		o := ob.op
		optv := func(p *int, present bool) string {
			if !present || p == nil {
				return "None"
			}
			return fmt.Sprintf("(Some %s)", zint(int64(*p)))
		}
		var probe []string
		for _, p := range ob.probe {
			switch p {
			case "absent", "null":
				probe = append(probe, "None")
			default:
				probe = append(probe, "(Some "+p+")")
			}
		}
		ps := "[" + strings.Join(probe, ";") + "]"
		switch o.kind {
		case "begin":
			ops = append(ops, fmt.Sprintf("(TBegin %d, %s)", o.txn, ps))
		case "read":
			ops = append(ops, fmt.Sprintf("(TRead %d %d %s, %s)", o.txn, o.doc, optv(ob.readVal, ob.present), ps))
		case "write":
			ops = append(ops, fmt.Sprintf("(TWrite %d %d %d %s, %s)", o.txn, o.doc, o.val, coqBool(ob.ok), ps))
		case "create":
			ops = append(ops, fmt.Sprintf("(TCreate %d %d %d %s, %s)", o.txn, o.doc, o.val, coqBool(ob.ok), ps))
		case "delete":
			ops = append(ops, fmt.Sprintf("(TDelete %d %d %s, %s)", o.txn, o.doc, coqBool(ob.ok), ps))
		case "list":
			var ls []string
			for _, d := range ob.listed {
				ls = append(ls, fmt.Sprint(d))
			}
			ops = append(ops, fmt.Sprintf("(TList %d [%s]%%nat, %s)", o.txn, strings.Join(ls, ";"), ps))
		case "commit":
			ops = append(ops, fmt.Sprintf("(TCommit %d %s, %s)", o.txn, coqBool(ob.ok), ps))
		case "discard":
			ops = append(ops, fmt.Sprintf("(TDiscard %d, %s)", o.txn, ps))
		}
	}
	return fmt.Sprintf("mkTC %d [%s]", ndocs, strings.Join(ops, "; "))
}

func init() { engines["txn"] = engTxn }
