package main

// kvtrace: a corekv.TxnStore wrapper around Badger-in-memory that counts and logs every store operation issued
// while armed, and can fail the k-th one with an injected error. Registered as a node store type through the
// verif hook node.VerifRegisterStore.

import (
	"context"
	"errors"
	"fmt"
	"sync"
	"sync/atomic"

	badgerds "github.com/dgraph-io/badger/v4"
	"github.com/sourcenetwork/corekv"
	"github.com/sourcenetwork/corekv/badger"

	"github.com/sourcenetwork/defradb/node"
)

var errInjected = errors.New("VERIF-INJECTED-FAULT")

type opRec struct {
	N      int
	Txn    int    // 0 = store-level (no transaction)
	Op     string // get has set del iter next commit discard
	Key    string
	Val    string // value written / read (raw bytes)
	Found  bool
	Failed bool
}

type traceCtl struct {
	mu     sync.Mutex
	armed  bool
	count  int
	failAt int
	log    []opRec
	keep   bool // keep the log
	txnSeq int
	// onCommit, if set, is called after every successful commit of a transaction
	onCommit func()
	// onSet, if set, is called after every completed write made outside a transaction
	onSet func(k, v []byte)
	// onTxnRead, if set, is called before a transaction reads a key (get / has): lets a scenario hold a transaction
	// at that point until something else has happened
	onTxnRead func(k []byte)
}

func (c *traceCtl) arm(failAt int, keep bool) {
	c.mu.Lock()
	c.armed, c.count, c.failAt, c.log, c.keep = true, 0, failAt, nil, keep
	c.mu.Unlock()
}
func (c *traceCtl) disarm() (int, []opRec) {
	c.mu.Lock()
	defer c.mu.Unlock()
	c.armed = false
	return c.count, c.log
}

// op registers an operation; returns the injected error if this is the failing one.
func (c *traceCtl) op(txn int, name string, key []byte) (int, error) {
	c.mu.Lock()
	defer c.mu.Unlock()
	if !c.armed {
		return -1, nil
	}
	c.count++
	idx := -1
	if c.keep {
		c.log = append(c.log, opRec{N: c.count, Txn: txn, Op: name, Key: string(key)})
		idx = len(c.log) - 1
	}
	if c.failAt == c.count {
		if idx >= 0 {
			c.log[idx].Failed = true
		}
		return idx, errInjected
	}
	return idx, nil
}
func (c *traceCtl) result(idx int, val []byte, found bool) {
	if idx < 0 {
		return
	}
	c.mu.Lock()
	if idx < len(c.log) {
		c.log[idx].Val, c.log[idx].Found = string(val), found
	}
	c.mu.Unlock()
}

type tstore struct {
	corekv.TxnStore
	c *traceCtl
}

func (s *tstore) NewTxn(ro bool) corekv.Txn {
	s.c.mu.Lock()
	s.c.txnSeq++
	id := s.c.txnSeq
	s.c.mu.Unlock()
	return &ttxn{Txn: s.TxnStore.NewTxn(ro), c: s.c, id: id}
}
func (s *tstore) Get(ctx context.Context, k []byte) ([]byte, error) {
	i, e := s.c.op(0, "get", k)
	if e != nil {
		return nil, e
	}
	v, err := s.TxnStore.Get(ctx, k)
	s.c.result(i, v, err == nil)
	return v, err
}
func (s *tstore) Has(ctx context.Context, k []byte) (bool, error) {
	i, e := s.c.op(0, "has", k)
	if e != nil {
		return false, e
	}
	ok, err := s.TxnStore.Has(ctx, k)
	s.c.result(i, nil, ok)
	return ok, err
}
func (s *tstore) Set(ctx context.Context, k, v []byte) error {
	i, e := s.c.op(0, "set", k)
	if e != nil {
		return e
	}
	s.c.result(i, v, true)
	err := s.TxnStore.Set(ctx, k, v)
	if err == nil && s.c.onSet != nil {
		s.c.onSet(k, v)
	}
	return err
}
func (s *tstore) Delete(ctx context.Context, k []byte) error {
	if _, e := s.c.op(0, "del", k); e != nil {
		return e
	}
	return s.TxnStore.Delete(ctx, k)
}
func (s *tstore) Iterator(ctx context.Context, o corekv.IterOptions) (corekv.Iterator, error) {
	if _, e := s.c.op(0, "iter", o.Prefix); e != nil {
		return nil, e
	}
	it, err := s.TxnStore.Iterator(ctx, o)
	if err != nil {
		return nil, err
	}
	return &titer{Iterator: it, c: s.c, txn: 0}, nil
}

type ttxn struct {
	corekv.Txn
	c  *traceCtl
	id int
}

func (t *ttxn) Get(ctx context.Context, k []byte) ([]byte, error) {
	i, e := t.c.op(t.id, "get", k)
	if e != nil {
		return nil, e
	}
	v, err := t.Txn.Get(ctx, k)
	t.c.result(i, v, err == nil)
	return v, err
}
func (t *ttxn) Has(ctx context.Context, k []byte) (bool, error) {
	if f := t.c.onTxnRead; f != nil {
		f(k)
	}
	i, e := t.c.op(t.id, "has", k)
	if e != nil {
		return false, e
	}
	ok, err := t.Txn.Has(ctx, k)
	t.c.result(i, nil, ok)
	return ok, err
}
func (t *ttxn) Set(ctx context.Context, k, v []byte) error {
	i, e := t.c.op(t.id, "set", k)
	if e != nil {
		return e
	}
	t.c.result(i, v, true)
	return t.Txn.Set(ctx, k, v)
}
func (t *ttxn) Delete(ctx context.Context, k []byte) error {
	if _, e := t.c.op(t.id, "del", k); e != nil {
		return e
	}
	return t.Txn.Delete(ctx, k)
}
func (t *ttxn) Iterator(ctx context.Context, o corekv.IterOptions) (corekv.Iterator, error) {
	if _, e := t.c.op(t.id, "iter", o.Prefix); e != nil {
		return nil, e
	}
	it, err := t.Txn.Iterator(ctx, o)
	if err != nil {
		return nil, err
	}
	return &titer{Iterator: it, c: t.c, txn: t.id}, nil
}
func (t *ttxn) Commit() error {
	if _, e := t.c.op(t.id, "commit", nil); e != nil {
		t.Txn.Discard()
		return e
	}
	err := t.Txn.Commit()
	if err == nil && t.c.onCommit != nil {
		t.c.onCommit()
	}
	return err
}
func (t *ttxn) Discard() {
	_, _ = t.c.op(-t.id, "discard", nil) // never fails, never counted as a fault point (negative txn marks it)
	t.Txn.Discard()
}

type titer struct {
	corekv.Iterator
	c   *traceCtl
	txn int
}

func (i *titer) Next() (bool, error) {
	idx, e := i.c.op(i.txn, "next", nil)
	if e != nil {
		return false, e
	}
	ok, err := i.Iterator.Next()
	if ok {
		i.c.result(idx, i.Iterator.Key(), true)
	}
	return ok, err
}

var storeSeq atomic.Int64
var regMu sync.Mutex

// newTracedNode creates a node on a traced Badger-in-memory store.
func newTracedNode(ctx context.Context, name string, opts ...node.Option) (*Nd, *traceCtl, corekv.TxnStore) {
	c := &traceCtl{}
	var raw corekv.TxnStore
	st := node.StoreType(fmt.Sprintf("verif%d", storeSeq.Add(1)))
	// the registry of store constructors is a plain map: registration and node construction are serialised
	regMu.Lock()
	node.VerifRegisterStore(st, func(ctx context.Context) (corekv.TxnStore, error) {
		o := badgerds.DefaultOptions("")
		o.InMemory = true
		o.Logger = nil
		s, err := badger.NewDatastore("", o)
		raw = s
		return &tstore{TxnStore: s, c: c}, err
	})
	x := newNd(ctx, name, append([]node.Option{node.WithBadgerInMemory(false), node.WithStoreType(st)}, opts...)...)
	regMu.Unlock()
	return x, c, raw
}

// newNodeOnSnapshot opens a node on a fresh traced Badger-in-memory store that holds exactly the given contents.
func newNodeOnSnapshot(ctx context.Context, name string, snap map[string]string, opts ...node.Option) (x *Nd, c *traceCtl, raw corekv.TxnStore, err error) {
	c = &traceCtl{}
	st := node.StoreType(fmt.Sprintf("verif%d", storeSeq.Add(1)))
	regMu.Lock()
	defer regMu.Unlock()
	node.VerifRegisterStore(st, func(ctx context.Context) (corekv.TxnStore, error) {
		o := badgerds.DefaultOptions("")
		o.InMemory = true
		o.Logger = nil
		s, err := badger.NewDatastore("", o)
		if err != nil {
			return nil, err
		}
		for k, v := range snap {
			if err := s.Set(ctx, []byte(k), []byte(v)); err != nil {
				return nil, err
			}
		}
		raw = s
		return &tstore{TxnStore: s, c: c}, nil
	})
	defer func() {
		if p := recover(); p != nil {
			err = fmt.Errorf("%v", p)
		}
	}()
	x = newNd(ctx, name, append([]node.Option{node.WithBadgerInMemory(false), node.WithStoreType(st)}, opts...)...)
	return x, c, raw, nil
}

func dumpStore(ctx context.Context, st corekv.TxnStore) map[string]string {
	m := map[string]string{}
	it, err := st.Iterator(ctx, corekv.IterOptions{})
	if err != nil {
		panic(err)
	}
	for {
		ok, err := it.Next()
		if err != nil {
			panic(err)
		}
		if !ok {
			break
		}
		v, _ := it.Value()
		m[string(it.Key())] = string(v)
	}
	_ = it.Close()
	return m
}
