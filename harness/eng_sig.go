package main

// Engine "sig" (C12).
// Per round: a signing identity (secp256k1 / ed25519 alternating), a second identity of the same type and one of the
// other type.  Node A writes a short history (create, updates, sometimes a delete) under the signing identity.
//  (1) every composite commit and every height-1 field block must verify under the signer's public key through
//      DB.VerifySignature and fail under the two other keys;
//  (2) every single-field tampering of the block (delta data / priority / status / docID, heads drop / add / replace,
//      links drop / replace / rename / reorder / add) keeping its signature link, and of its signature block (value
//      bit, value of another commit, identity, type), is filed under its own content address and must fail
//      DB.VerifySignature under the signer's key;
//  (3) every tampered commit is pushed into a receiver through the DAG-sync entry point (all linked blocks already
//      delivered, offline block service): it must be rejected and the receiver's documents, commit listing and heads
//      must stay what they were; the untampered commit is accepted and merged.
// Every outcome is also written as a Coq case for Sec/Sign.v (symbolic description of the tampered block).

import (
	"context"
	"fmt"
	"strings"
	"time"

	"github.com/ipfs/go-cid"

	"github.com/sourcenetwork/defradb/acp/identity"
	"github.com/sourcenetwork/defradb/crypto"
	"github.com/sourcenetwork/defradb/event"
	dnet "github.com/sourcenetwork/defradb/net"
	"github.com/sourcenetwork/defradb/verifhook"
)

type interner struct{ m map[string]int }

func (in *interner) id(s string) int {
	if v, ok := in.m[s]; ok {
		return v
	}
	v := len(in.m) + 1
	in.m[s] = v
	return v
}

func coqUblock(in *interner, raw []byte) (string, bool) {
	bi, err := verifhook.DecodeBlock(raw)
	if err != nil {
		return "", false
	}
	delta := fmt.Sprintf("%s|%s|%s|%d|%x|%d|%d|%s", bi.Kind, bi.DocID, bi.FieldName, bi.Priority, bi.Data, bi.Status, bi.Nonce, bi.SchemaVersionID)
	var hs, ls []string
	for _, h := range bi.Heads {
		hs = append(hs, fmt.Sprint(in.id(h)))
	}
	for _, l := range bi.Links {
		ls = append(ls, fmt.Sprintf("(%d,%d)", in.id("name:"+l[0]), in.id(l[1])))
	}
	return fmt.Sprintf("{| u_delta := %d; u_heads := [%s]; u_links := [%s] |}", in.id(delta), strings.Join(hs, ";"), strings.Join(ls, ";")), true
}

var blockTamperModes = []string{"delta-data", "delta-priority", "delta-status", "delta-docid", "heads-drop", "heads-add", "heads-replace",
	"links-drop", "links-replace", "links-rename", "links-reorder", "links-add"}
var sigTamperModes = []string{"sig-value", "sig-value-other", "sig-identity", "sig-type"}

func engSig(e *Env) {
	ctx := context.Background()
	r := NewRng(e.Seed)
	e.Res.Rule = "rounds alternate the signer's key type; history = create + 1-3 updates (+ delete in 30%) of a document with register and counter fields; every signed block x (2 wrong keys + 12 block tamperings + 4 signature-block tamperings) through DB.VerifySignature; every composite commit x the same tamperings through the DAG-sync entry point of a receiver that holds the preceding history; distinct = (key type, block kind, height, tampering, path); non-trivial = tampered cases"
	rounds := 4
	if e.thorough() {
		rounds = 80
	}
	var cases []string
	for ri := 0; ri < rounds; ri++ {
		kt, otherKt := crypto.KeyTypeSecp256k1, crypto.KeyTypeEd25519
		parity := 0
		if ri%2 == 1 {
			kt, otherKt = otherKt, kt
			parity = 1
		}
		signer, err1 := identity.Generate(kt)
		sameType, err2 := identity.Generate(kt)
		otherType, err3 := identity.Generate(otherKt)
		if err1 != nil || err2 != nil || err3 != nil {
			panic(fmt.Sprint(err1, err2, err3))
		}
		// key numbers: ktype k = k mod 2 (0 = secp256k1, 1 = ed25519)
		keyNo := map[string]int{signer.PublicKey().String(): 10 + parity, sameType.PublicKey().String(): 20 + parity, otherType.PublicKey().String(): 31 - parity}
		typeNo := map[string]int{"ES256K": 0, "EdDSA": 1}
		a, rcv := newNd(ctx, "A"), newNd(ctx, "R")
		rcv.noEvents()
		stopKeys, kerr := verifhook.AnswerKeyRequests(rcv.n.DB.Events(), func(l []byte) ([]byte, bool) { return encStoreBlock(ctx, a, l) })
		if kerr != nil {
			panic(kerr)
		}
		sdl := `type Sg { name: String age: Int pts: Int @crdt(type: pncounter) }`
		a.addSchema(ctx, sdl)
		rcv.addSchema(ctx, sdl)
		colID := getCol(ctx, a, "Sg").Version().CollectionID
		sctx := withIdent(ctx, signer)
		in := &interner{m: map[string]int{}}
		var desc []string
		replay := map[string]any{"key_type": string(kt), "operations": &desc}

		run := func(q string) []event.Update {
			res := a.n.DB.ExecRequest(sctx, q)
			desc = append(desc, q)
			if len(res.GQL.Errors) > 0 {
				e.violate("harness-sig", fmt.Sprint(res.GQL.Errors), replay)
				return nil
			}
			return a.drainUpdates(1, 2*time.Second)
		}
		var commits []event.Update
		encArg := ""
		switch ri % 3 {
		case 1:
			encArg = ", encrypt: true"
		case 2:
			encArg = ", encryptFields: [name]"
		}
		e.count("round_encryption" + encArg)
		evs := run(fmt.Sprintf(`mutation { create_Sg(input: {name: "n%d", age: %d, pts: %d}%s) { _docID } }`, r.Intn(1000), r.Intn(100), r.Intn(50), encArg))
		commits = append(commits, evs...)
		nUpd := 1 + r.Intn(3)
		for u := 0; u < nUpd && len(commits) > 0; u++ {
			var parts []string
			if r.Bool() {
				parts = append(parts, fmt.Sprintf(`name: "m%d"`, r.Intn(1000)))
			}
			if r.Bool() || len(parts) == 0 {
				parts = append(parts, fmt.Sprintf(`pts: %d`, 1+r.Intn(20)))
			}
			if r.Chance(30) {
				parts = append(parts, fmt.Sprintf(`age: %d`, r.Intn(100)))
			}
			commits = append(commits, run(fmt.Sprintf(`mutation { update_Sg(input: {%s}) { _docID } }`, strings.Join(parts, ", ")))...)
		}
		if r.Chance(30) && len(commits) > 0 {
			commits = append(commits, run(fmt.Sprintf(`mutation { delete_Sg(docID: "%s") { _docID } }`, commits[0].DocID))...)
		}
		if len(commits) == 0 {
			a.close(ctx)
			rcv.close(ctx)
			continue
		}
		docID := commits[0].DocID

		// all signed blocks: composites + their height-1 field blocks
		type sblock struct {
			c      cid.Cid
			raw    []byte
			info   verifhook.BlockInfo
			isComp bool
		}
		var signed []sblock
		for _, cm := range commits {
			bi, err := verifhook.DecodeBlock(cm.Block)
			if err != nil {
				continue
			}
			signed = append(signed, sblock{cm.Cid, cm.Block, bi, true})
			if bi.Signature == "" {
				e.violate("commit-unsigned", fmt.Sprintf("composite commit %s written under a signing identity carries no signature", cm.Cid), replay)
			}
			for _, l := range bi.Links {
				raw, ok := a.rawBlock(ctx, mustCid(l[1]))
				if !ok {
					continue
				}
				fb, err := verifhook.DecodeBlock(raw)
				if err == nil && fb.Signature != "" {
					signed = append(signed, sblock{mustCid(l[1]), raw, fb, false})
				}
			}
		}
		verify := func(c cid.Cid, pk crypto.PublicKey) bool {
			return a.n.DB.VerifySignature(ctx, c.String(), pk) == nil
		}
		describeSig := func(sigRaw []byte, signerNo int, signedBody string) (string, bool) {
			ty, ident, _, err := verifhook.SignatureInfo(sigRaw)
			if err != nil {
				return "", false
			}
			idNo, ok := keyNo[string(ident)]
			if !ok {
				idNo = 98
			}
			return fmt.Sprintf("{| s_type := %d; s_identity := %d; s_value := (%d, %s) |}", typeNo[ty], idNo, signerNo, signedBody), true
		}
		signerNo := keyNo[signer.PublicKey().String()]

		for si, sb := range signed {
			if sb.info.Signature == "" {
				continue
			}
			sigCid := mustCid(sb.info.Signature)
			sigRaw, ok := a.rawBlock(ctx, sigCid)
			if !ok {
				e.violate("harness-sig", "signature block missing", replay)
				continue
			}
			body, _ := coqUblock(in, sb.raw)
			kind := "field"
			if sb.isComp {
				kind = "composite"
			}
			// (1) right and wrong keys
			for _, tk := range []struct {
				name string
				pk   crypto.PublicKey
				want bool
			}{{"signer", signer.PublicKey(), true}, {"other key of the same type", sameType.PublicKey(), false}, {"key of the other type", otherType.PublicKey(), false}} {
				got := verify(sb.c, tk.pk)
				e.Res.Evaluations++
				if got != tk.want {
					e.violate("verify-key", fmt.Sprintf("%s block %s (height %d): VerifySignature with the %s gives %v, expected %v", kind, sb.c, sb.info.Priority, tk.name, got, tk.want), replay)
				}
				if sd, ok := describeSig(sigRaw, signerNo, body); ok {
					cases = append(cases, fmt.Sprintf("(VerifyCase %s %s %d %s)%%nat", body, sd, keyNo[tk.pk.String()], coqBool(got)))
				}
			}
			// (2) block tamperings
			aux := commits[0].Cid
			if si > 0 {
				aux = signed[si-1].c
			}
			type forged struct {
				mode string
				raw  []byte
				c    cid.Cid
				sig  string // coq description of the signature block it points to
			}
			var forgeds []forged
			genuineSig, _ := describeSig(sigRaw, signerNo, body)
			for _, mode := range blockTamperModes {
				traw, tc, err := verifhook.TamperBlock(sb.raw, mode, aux)
				if err != nil || tc == sb.c {
					continue // not applicable to this block kind (e.g. composite deltas carry no data)
				}
				forgeds = append(forgeds, forged{mode, traw, tc, genuineSig})
			}
			// (2b) signature block tamperings
			for _, mode := range sigTamperModes {
				var auxB []byte
				sNo, sBody := signerNo, body
				switch mode {
				case "sig-value-other":
					// a genuine signature of the same key over another commit
					var other *sblock
					for j := range signed {
						if j != si && signed[j].info.Signature != "" {
							other = &signed[j]
							break
						}
					}
					if other == nil {
						continue
					}
					oraw, _ := a.rawBlock(ctx, mustCid(other.info.Signature))
					_, _, v, _ := verifhook.SignatureInfo(oraw)
					auxB = v
					sBody, _ = coqUblock(in, other.raw)
				case "sig-identity":
					auxB = []byte(sameType.PublicKey().String())
				case "sig-value":
					sNo = 99 // nobody's signature
				}
				sraw, err := verifhook.TamperSignature(sigRaw, mode, auxB)
				if err != nil {
					continue
				}
				sc, err := verifhook.CidOf(sraw)
				if err != nil {
					continue
				}
				a.putRawBlock(ctx, sc, sraw)
				rcv.putRawBlock(ctx, sc, sraw)
				traw, tc, err := verifhook.TamperBlock(sb.raw, "signature-link", sc)
				if err != nil {
					continue
				}
				sd, _ := describeSig(sraw, sNo, sBody)
				forgeds = append(forgeds, forged{mode, traw, tc, sd})
			}
			for _, f := range forgeds {
				a.putRawBlock(ctx, f.c, f.raw)
				got := verify(f.c, signer.PublicKey())
				e.Res.Evaluations++
				e.distinct(fmt.Sprintf("%s|%s|%d|%s|verify", kt, kind, sb.info.Priority, f.mode))
				e.count("tamper_" + f.mode)
				// a changed signature type leaves content and author authentic under the supplied key
				if got && f.mode != "sig-type" {
					e.violate("tamper-verifies", fmt.Sprintf("%s block %s (height %d) tampered by %s still verifies under the signer's key", kind, sb.c, sb.info.Priority, f.mode), replay)
				}
				if tb, ok := coqUblock(in, f.raw); ok {
					cases = append(cases, fmt.Sprintf("(VerifyCase %s %s %d %s)%%nat", tb, f.sig, signerNo, coqBool(got)))
				}
			}
			if !sb.isComp {
				continue
			}
			// (3) receive path: the receiver holds the history before this commit
			ci := -1
			for j, cm := range commits {
				if cm.Cid == sb.c {
					ci = j
				}
			}
			for j := 0; j < ci; j++ {
				copyClosure(ctx, a, rcv, commits[j].Cid)
				if et := rcv.merge(ctx, docID, commits[j].Cid, colID); et != "" {
					e.violate("harness-sig", "merge of genuine commit failed: "+et, replay)
				}
			}
			// deliver everything the commit links to (field blocks, signature blocks), not the commit itself
			for _, l := range sb.info.Links {
				copyClosure(ctx, a, rcv, mustCid(l[1]))
			}
			copyClosure(ctx, a, rcv, sigCid)
			bsrv := dnet.VerifOfflineBlockService(rcv.n.DB.Rootstore())
			dump := func() string {
				d1, e1 := rcv.gql(ctx, `query { Sg(showDeleted: true) { _docID _deleted name age pts } }`)
				d2, e2 := rcv.gql(ctx, `query { commits { cid docID fieldName height delta links { cid name } } }`)
				return canonJSON(d1) + e1 + canonJSON(sortNested(d2)) + e2 + canonJSON(rcv.heads(ctx, docID))
			}
			before := dump()
			for _, f := range forgeds {
				err := dnet.VerifSyncDAG(ctx, bsrv, f.raw)
				accepted := err == nil
				e.Res.Evaluations++
				e.distinct(fmt.Sprintf("%s|%s|%d|%s|receive", kt, kind, sb.info.Priority, f.mode))
				if tb, ok := coqUblock(in, f.raw); ok {
					cases = append(cases, fmt.Sprintf("(ReceiveCase %s %s %s)%%nat", tb, f.sig, coqBool(accepted)))
				}
				if accepted {
					et := rcv.merge(ctx, docID, f.c, colID)
					e.violate("forged-accepted", fmt.Sprintf("a commit tampered by %s (signature does not verify) passed the DAG sync entry point; merge result: %q", f.mode, et), replay)
				}
				if after := dump(); after != before {
					e.violate("forged-changed-state", fmt.Sprintf("after the rejected push of a commit tampered by %s the receiver's documents / commits / heads differ", f.mode), replay)
					before = after
				}
				// the rejected block must not be served as a commit
				d, _ := rcv.gql(ctx, fmt.Sprintf(`query { commits(cid: "%s") { cid } }`, f.c))
				if len(rowsOf(d, "commits")) > 0 && !accepted {
					e.violate("rejected-block-addressable", fmt.Sprintf("the rejected forged commit %s (tampered by %s) is returned by commits(cid:)", f.c, f.mode), replay)
				}
			}
			// nested forgery: an unsigned composite of the attacker that links to a field block carrying the victim's
			// signature link over tampered content
			if len(sb.info.Links) > 0 {
				fc := mustCid(sb.info.Links[0][1])
				if fraw, ok := a.rawBlock(ctx, fc); ok {
					if fb, err := verifhook.DecodeBlock(fraw); err == nil && fb.Signature != "" {
						if f2, f2c, err := verifhook.TamperBlock(fraw, "delta-data", aux); err == nil && f2c != fc {
							rcv.putRawBlock(ctx, f2c, f2)
							if c1, _, err := verifhook.TamperBlock(sb.raw, "links-replace", f2c); err == nil {
								if c2, c2c, err := verifhook.TamperBlock(c1, "signature-removed", aux); err == nil {
									err := dnet.VerifSyncDAG(ctx, bsrv, c2)
									e.Res.Evaluations++
									e.count("nested_forgery")
									e.distinct(fmt.Sprintf("%s|nested|%d", kt, sb.info.Priority))
									if err == nil {
										et := rcv.merge(ctx, docID, c2c, colID)
										e.violate("forged-accepted", fmt.Sprintf("an unsigned commit linking to a field block whose attached signature does not verify (tampered delta) passed the DAG sync entry point; merge result: %q", et), replay)
									}
									if after := dump(); after != before {
										e.violate("forged-changed-state", "after the push of an unsigned commit linking to a forged field block the receiver's documents / commits / heads differ", replay)
										before = after
									}
								}
							}
						}
					}
				}
			}
			// the genuine commit is accepted
			if err := dnet.VerifSyncDAG(ctx, bsrv, sb.raw); err != nil {
				e.violate("genuine-rejected", fmt.Sprintf("the untampered commit %s was rejected: %v", sb.c, err), replay)
			} else {
				cases = append(cases, fmt.Sprintf("(ReceiveCase %s %s true)%%nat", body, genuineSig))
				if et := rcv.merge(ctx, docID, sb.c, colID); et != "" {
					e.violate("genuine-rejected", "merge of the untampered commit failed: "+et, replay)
				}
			}
			e.Res.Evaluations++
		}
		if ri == 0 {
			e.sample(map[string]any{"key_type": string(kt), "operations": desc, "signed_blocks": len(signed)})
		}
		stopKeys()
		a.close(ctx)
		rcv.close(ctx)
	}
	cidMismatchWitness(e, 23000+int(e.Seed%500)*4)
	e.writeCasesSharded("cases_C12", "CorrC12", "sigcase", cases, 500)
}

func init() { engines["sig"] = engSig }
