package main

import (
	"context"
	"fmt"
	"os"
)

func init() {
	engines["faultlog"] = func(e *Env) {
		ctx := context.Background()
		tmp, _ := os.MkdirTemp("", "vf")
		for _, sc := range faultScenarios(tmp) {
			if sc.name != e.Args["scenario"] {
				continue
			}
			var k int
			fmt.Sscan(e.Args["k"], &k)
			fr := runFault(ctx, sc, 0, k, true)
			for _, o := range fr.log {
				fmt.Printf("%d txn=%d %s %s found=%v failed=%v\n", o.N, o.Txn, o.Op, trunc(o.Key), o.Found, o.Failed)
			}
			fmt.Println("err:", fr.err, "panic:", fr.panicV)
		}
		e.Res.Evaluations = 1
	}
}
