package main

import (
	"context"
	"fmt"
	"regexp"
	"sort"
	"strings"
)

var docIDRe = regexp.MustCompile(`bae-[0-9a-f]{8}-[0-9a-f]{4}-[0-9a-f]{4}-[0-9a-f]{4}-[0-9a-f]{12}`)

// maintHistories (C07, Query/IndexMaint.v): histories of creates / updates / deletes by id / deletes by filter (GraphQL
// and collection API) / index creation and removal on a small collection. After every operation the live documents,
// the owners of the entries found in the raw index key space and index-backed lookups are handed to the model.
func maintHistories(e *Env, ctx context.Context, r *Rng) {
	nHist := 10
	if e.thorough() {
		nHist = 150
	}
	x := newNd(ctx, "IM")
	x.noEvents()
	defer x.close(ctx)
	var cases []string
	for h := 0; h < nHist; h++ {
		if h > 0 && h%40 == 0 {
			// a fresh node keeps the collection and index ids in the one-byte range of the key encoding
			x.close(ctx)
			x = newNd(ctx, "IM")
			x.noEvents()
		}
		colName := fmt.Sprintf("Mt%d", h)
		x.addSchema(ctx, fmt.Sprintf(`type %s { k: Int v: Int }`, colName))
		col, err := x.n.DB.GetCollectionByName(ctx, colName)
		if err != nil {
			e.violate("harness-index", err.Error(), nil)
			return
		}
		idOf := map[int]string{} // k -> docID (every document ever created)
		kOf := map[string]int{}
		nextK := 0
		var ops, desc []string
		nOps := 4 + r.Intn(10)
		for oi := 0; oi < nOps; oi++ {
			switch c := r.Intn(12); {
			case c < 4 || nextK == 0:
				k, v := nextK, r.Intn(4)
				nextK++
				d, errs := x.gql(ctx, fmt.Sprintf(`mutation { create_%s(input: {k: %d, v: %d}) { _docID } }`, colName, k, v))
				if errs != "" {
					e.violate("harness-index", "create: "+errs, nil)
					continue
				}
				id := fmt.Sprint(rowsOf(d, "create_"+colName)[0]["_docID"])
				idOf[k], kOf[id] = id, k
				ops = append(ops, fmt.Sprintf("HCreate %d%%nat %d", k, v))
				desc = append(desc, fmt.Sprintf("create k=%d v=%d", k, v))
			case c < 6:
				k, v := r.Intn(nextK+1), r.Intn(4)
				x.gql(ctx, fmt.Sprintf(`mutation { update_%s(filter: {k: {_eq: %d}}, input: {v: %d}) { _docID } }`, colName, k, v))
				ops = append(ops, fmt.Sprintf("HUpdate %d%%nat %d", k, v))
				desc = append(desc, fmt.Sprintf("update k=%d v=%d", k, v))
			case c < 7:
				k := r.Intn(nextK)
				x.gql(ctx, fmt.Sprintf(`mutation { delete_%s(docID: "%s") { _docID } }`, colName, idOf[k]))
				ops = append(ops, fmt.Sprintf("HDelete %d%%nat", k))
				desc = append(desc, fmt.Sprintf("delete k=%d by docID", k))
			case c < 9:
				v := r.Intn(4)
				if r.Bool() {
					x.gql(ctx, fmt.Sprintf(`mutation { delete_%s(filter: {v: {_eq: %d}}) { _docID } }`, colName, v))
					desc = append(desc, fmt.Sprintf("delete where v=%d (GraphQL)", v))
				} else {
					_, _ = col.DeleteWithFilter(ctx, fmt.Sprintf(`{v: {_eq: %d}}`, v))
					desc = append(desc, fmt.Sprintf("delete where v=%d (Collection.DeleteWithFilter)", v))
				}
				ops = append(ops, fmt.Sprintf("HDeleteWhere %d", v))
			case c < 11:
				req := idxReq("v", r.Bool(), false)
				req.Name = "iv"
				_, _ = col.CreateIndex(ctx, req)
				ops = append(ops, "HIndex")
				desc = append(desc, "create index on v")
			default:
				_ = col.DropIndex(ctx, "iv")
				ops = append(ops, "HUnindex")
				desc = append(desc, "drop index")
			}
			// ---- observe
			d, errs := x.gql(ctx, fmt.Sprintf(`query { %s { _docID k v } }`, colName))
			if errs != "" {
				e.violate("index-maint-error", errs, map[string]any{"operations": desc})
				break
			}
			type kv struct{ k, v int64 }
			var lives []kv
			colByte := ""
			for _, row := range rowsOf(d, colName) {
				kk, _ := row["k"].(int64)
				vv, _ := row["v"].(int64)
				lives = append(lives, kv{kk, vv})
			}
			sort.Slice(lives, func(i, j int) bool { return lives[i].k < lives[j].k })
			// raw index entries of this collection: /db/data/<col>/<index>/... where <index> is not one of p, v, d
			var owners []int
			for key := range x.scan(ctx, "/db/data/") {
				rest := key[len("/db/data/"):]
				parts := strings.SplitN(rest, "/", 3)
				if len(parts) < 3 {
					continue
				}
				if parts[1] == "v" || parts[1] == "p" || parts[1] == "d" {
					if m := docIDRe.FindString(parts[2]); m != "" {
						if _, mine := kOf[m]; mine {
							colByte = parts[0]
						}
					}
				}
			}
			if colByte != "" {
				for key, val := range x.scan(ctx, "/db/data/"+colByte+"/") {
					rest := key[len("/db/data/"+colByte+"/"):]
					if len(rest) == 0 || rest[0] < 0x80 {
						continue // document keys (v, p, d)
					}
					m := docIDRe.FindString(key + string(val))
					if k, ok := kOf[m]; ok {
						owners = append(owners, k)
					} else {
						owners = append(owners, 99999)
					}
				}
			}
			sort.Ints(owners)
			var liveS, ownS, lookS []string
			for _, l := range lives {
				liveS = append(liveS, fmt.Sprintf("(%d%%nat, %d)", l.k, l.v))
			}
			for _, o := range owners {
				ownS = append(ownS, fmt.Sprintf("%d%%nat", o))
			}
			for v := 0; v < 4; v++ {
				ld, lerr := x.gql(ctx, fmt.Sprintf(`query { %s(filter: {v: {_eq: %d}}) { k } }`, colName, v))
				if lerr != "" {
					e.violate("index-maint-error", lerr, map[string]any{"operations": desc})
					continue
				}
				var ks []int
				for _, row := range rowsOf(ld, colName) {
					kk, _ := row["k"].(int64)
					ks = append(ks, int(kk))
				}
				sort.Ints(ks)
				var kS []string
				for _, k := range ks {
					kS = append(kS, fmt.Sprintf("%d%%nat", k))
				}
				lookS = append(lookS, fmt.Sprintf("(%d, [%s])", v, strings.Join(kS, "; ")))
			}
			e.Res.Evaluations += 6
			cases = append(cases, fmt.Sprintf("MCase [%s] [%s] [%s] [%s]", strings.Join(ops, "; "), strings.Join(liveS, "; "), strings.Join(ownS, "; "), strings.Join(lookS, "; ")))
			e.count("maint_op_" + strings.Fields(ops[len(ops)-1])[0])
		}
		if h == 0 {
			e.sample(map[string]any{"index_maintenance_history": desc})
		}
	}
	e.writeCasesSharded("cases_C07m", "CorrC07", "mcase", cases, 400)
}
