package main

// Engine "gql": replay helper - runs the requests of a file (one per line) on a fresh node with the given schema.

import (
	"bufio"
	"context"
	"fmt"
	"os"
)

func init() {
	engines["gql"] = func(e *Env) {
		ctx := context.Background()
		x, ctl, _ := newTracedNode(ctx, "D")
		x.noEvents()
		defer x.close(ctx)
		sdl, _ := os.ReadFile(e.Args["schemafile"])
		x.addSchema(ctx, string(sdl))
		f, err := os.Open(e.Args["file"])
		if err != nil {
			panic(err)
		}
		sc := bufio.NewScanner(f)
		sc.Buffer(make([]byte, 1<<20), 1<<20)
		for sc.Scan() {
			q := sc.Text()
			if q == "" {
				continue
			}
			func() {
				defer func() {
					if p := recover(); p != nil {
						fmt.Println("PANIC", p)
					}
				}()
				ctl.arm(0, true)
				d, er := x.gql(ctx, q)
				_, log := ctl.disarm()
				fmt.Printf("%s\n   => %s %s\n", q, canonJSON(d), er)
				if e.Args["trace"] != "" {
					for _, o := range log {
						if o.Op == "iter" {
							fmt.Printf("      iter %s\n", trunc(o.Key))
						}
					}
				}
			}()
			e.Res.Evaluations++
		}
	}
}
