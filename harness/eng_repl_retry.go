package main

import (
	"bytes"
	"context"
	"crypto/ed25519"
	"fmt"
	"net"
	"os"
	"strings"
	"sync"
	"time"

	netConfig "github.com/sourcenetwork/defradb/net/config"
	"github.com/sourcenetwork/defradb/node"
)

// interruptedRetryScenario (C15, C14): the replicator target is unreachable in the slow way (something accepts the
// connection and never answers), so that a retry of the pending documents is in flight for a while; the source is
// closed while that retry is in flight and reopened; then the target comes up. Everything written on the source must
// still reach the target.
func interruptedRetryScenario(e *Env, basePort int) {
	ctx := context.Background()
	mk := func(name string, port int) *p2pNode {
		_, key, _ := ed25519.GenerateKey(nil)
		dir, err := os.MkdirTemp("/var/tmp", "vreplr")
		if err != nil {
			panic(err)
		}
		return &p2pNode{name: name, dir: dir, port: port, key: key}
	}
	a, b := mk("A", basePort), mk("B", basePort+1)
	// longer than the dial back-off after one failure, so that the first retry really dials (and hangs on the silent
	// listener until the push times out)
	a.retry = 2 * time.Second
	defer func() {
		a.close(ctx)
		b.close(ctx)
		os.RemoveAll(a.dir)
		os.RemoveAll(b.dir)
	}()
	var desc []string
	replay := map[string]any{"events": &desc}
	sdl := `type User { name: String age: Int }`
	if err := a.open(ctx); err != nil {
		e.violate("harness-repl", "open A: "+err.Error(), replay)
		return
	}
	if err := b.open(ctx); err != nil {
		e.violate("harness-repl", "open B: "+err.Error(), replay)
		return
	}
	a.x.addSchema(ctx, sdl)
	b.x.addSchema(ctx, sdl)
	binfo := b.x.n.Peer.PeerInfo()
	if err := a.x.n.Peer.SetReplicator(ctx, binfo); err != nil {
		e.violate("harness-repl", "SetReplicator: "+err.Error(), replay)
		return
	}
	a.x.gql(ctx, `mutation { create_User(input: {name: "first", age: 1}) { _docID } }`)
	desc = append(desc, "A: SetReplicator(B)", "A: create User first")
	want := dumpCol(ctx, a.x, "User", "name age")
	waitUntil(15*time.Second, func() bool { return dumpCol(ctx, b.x, "User", "name age") == want })
	b.close(ctx)
	// B's address is now held by something that accepts connections and stays silent
	ln, err := net.Listen("tcp", fmt.Sprintf("127.0.0.1:%d", b.port))
	if err != nil {
		e.violate("harness-repl", "silent listener: "+err.Error(), replay)
		return
	}
	var held []net.Conn
	stop := make(chan struct{})
	go func() {
		for {
			c, err := ln.Accept()
			if err != nil {
				return
			}
			select {
			case <-stop:
				c.Close()
				return
			default:
				held = append(held, c)
			}
		}
	}()
	desc = append(desc, "B: down; its address accepts connections and never answers")
	a.x.gql(ctx, `mutation { create_User(input: {name: "second", age: 2}) { _docID } }`)
	a.x.gql(ctx, `mutation { update_User(filter: {name: {_eq: "first"}}, input: {age: 11}) { _docID } }`)
	desc = append(desc, "A: create User second, update User first")
	// wait until a retry is in flight (the persisted retry record says so), then close A
	inFlight := waitUntil(12*time.Second, func() bool {
		for _, v := range a.x.scan(ctx, "/db/ps/") {
			if bytes.Contains(v, append([]byte("Retrying"), 0xf5)) {
				return true
			}
		}
		return false
	})
	if os.Getenv("VERIF_DEBUG") != "" {
		for k, v := range a.x.scan(ctx, "/db/ps/") {
			fmt.Printf("PS %q = %q\n", k, v)
		}
	}
	e.count(fmt.Sprintf("retry_in_flight_at_close_%v", inFlight))
	a.close(ctx)
	desc = append(desc, fmt.Sprintf("A: close (a retry in flight: %v)", inFlight))
	close(stop)
	ln.Close()
	for _, c := range held {
		c.Close()
	}
	time.Sleep(300 * time.Millisecond)
	if err := b.open(ctx); err != nil {
		e.violate("harness-repl", "reopen B: "+err.Error(), replay)
		return
	}
	if err := a.open(ctx); err != nil {
		e.violate("restart-open-failed", "reopen A: "+err.Error(), replay)
		return
	}
	desc = append(desc, "B: up", "A: reopen")
	want = dumpCol(ctx, a.x, "User", "name age")
	conv := waitUntil(30*time.Second, func() bool { return dumpCol(ctx, b.x, "User", "name age") == want })
	e.Res.Evaluations++
	if !conv {
		e.violate("replication-incomplete-after-restart", fmt.Sprintf("A was closed while a retry towards the unreachable B was in flight (%v); B is up again and still configured: A has [%s], B has [%s]", inFlight, want, dumpCol(ctx, b.x, "User", "name age")), replay)
	}
	e.count("interrupted_retry_scenario")
}

// crashDuringRetryScenario (C14 crash points, C15): the source runs on a store whose writes are observed; the store
// contents as of the completed write that marks a retry round as in flight are taken as a crash point. A node opened
// on those contents (same identity and address) must still deliver everything to the replicator target.
func crashDuringRetryScenario(e *Env, basePort int) {
	ctx := context.Background()
	_, akey, _ := ed25519.GenerateKey(nil)
	p2pOpts := func(port int) []node.Option {
		return []node.Option{node.WithDisableP2P(false), netConfig.WithListenAddresses(fmt.Sprintf("/ip4/127.0.0.1/tcp/%d", port)),
			netConfig.WithPrivateKey(akey), netConfig.WithEnablePubSub(true), netConfig.WithRetryInterval([]time.Duration{300 * time.Millisecond})}
	}
	_, bkey, _ := ed25519.GenerateKey(nil)
	bdir, err := os.MkdirTemp("/var/tmp", "vreplc")
	if err != nil {
		panic(err)
	}
	b := &p2pNode{name: "B", dir: bdir, port: basePort + 1, key: bkey}
	defer func() {
		b.close(ctx)
		os.RemoveAll(bdir)
	}()
	var desc []string
	replay := map[string]any{"events": &desc}
	ax, ctl, raw := newTracedNode(ctx, "A", p2pOpts(basePort)...)
	ax.noEvents()
	closed := false
	defer func() {
		if !closed {
			ax.close(ctx)
		}
	}()
	if err := b.open(ctx); err != nil {
		e.violate("harness-repl", "open B: "+err.Error(), replay)
		return
	}
	sdl := `type User { name: String age: Int }`
	ax.addSchema(ctx, sdl)
	b.x.addSchema(ctx, sdl)
	if err := ax.n.Peer.SetReplicator(ctx, b.x.n.Peer.PeerInfo()); err != nil {
		e.violate("harness-repl", "SetReplicator: "+err.Error(), replay)
		return
	}
	ax.gql(ctx, `mutation { create_User(input: {name: "first", age: 1}) { _docID } }`)
	desc = append(desc, "A: SetReplicator(B)", "A: create User first")
	want := dumpCol(ctx, ax, "User", "name age")
	waitUntil(15*time.Second, func() bool { return dumpCol(ctx, b.x, "User", "name age") == want })
	b.close(ctx)
	desc = append(desc, "B: down")
	var mu sync.Mutex
	var snap map[string]string
	ctl.onSet = func(k, v []byte) {
		if bytes.Contains(k, []byte("/rep/retry/id/")) && bytes.Contains(v, append([]byte("Retrying"), 0xf5)) {
			mu.Lock()
			if snap == nil {
				snap = dumpStore(ctx, raw)
			}
			mu.Unlock()
		}
	}
	ax.gql(ctx, `mutation { create_User(input: {name: "second", age: 2}) { _docID } }`)
	ax.gql(ctx, `mutation { update_User(filter: {name: {_eq: "first"}}, input: {age: 11}) { _docID } }`)
	desc = append(desc, "A: create User second, update User first")
	want = dumpCol(ctx, ax, "User", "name age")
	got := waitUntil(30*time.Second, func() bool { mu.Lock(); defer mu.Unlock(); return snap != nil })
	e.count(fmt.Sprintf("crash_point_at_retry_mark_found_%v", got))
	ctl.onSet = nil
	ax.close(ctx)
	closed = true
	if !got {
		return
	}
	desc = append(desc, "A: crash right after the store write that marks the retry round as in flight")
	if err := b.open(ctx); err != nil {
		e.violate("harness-repl", "reopen B: "+err.Error(), replay)
		return
	}
	desc = append(desc, "B: up")
	time.Sleep(300 * time.Millisecond)
	a2, _, _, err := newNodeOnSnapshot(ctx, "A2", snap, p2pOpts(basePort)...)
	if err != nil {
		e.violate("restart-open-failed", "open A on the store contents of the crash point: "+err.Error(), replay)
		return
	}
	a2.noEvents()
	defer a2.close(ctx)
	desc = append(desc, "A: reopened on the store contents of the crash point")
	have := dumpCol(ctx, a2, "User", "name age")
	e.Res.Evaluations++
	if have != want {
		e.violate("restart-state-differs", fmt.Sprintf("A reopened on the crash point holds [%s], it held [%s]", have, want), replay)
	}
	conv := waitUntil(30*time.Second, func() bool { return dumpCol(ctx, b.x, "User", "name age") == want })
	e.Res.Evaluations++
	if !conv {
		e.violate("replication-incomplete-after-restart", fmt.Sprintf("A crashed right after marking a retry round towards the unreachable B as in flight and was reopened on that store state; B is up again and still configured: A has [%s], B has [%s]", want, dumpCol(ctx, b.x, "User", "name age")), replay)
	}
	e.count("crash_during_retry_scenario")
}

// failureDuringRetryMarkScenario (C15): while the target is unreachable a second document fails to be pushed at the
// moment the retry loop marks the retry record; the transaction that records the document for retry has read the
// record and is held until the loop has written its mark (a schedule of the two goroutines of the real node). Whatever
// the outcome of that transaction, the document must reach the target once it is reachable.
func failureDuringRetryMarkScenario(e *Env, basePort int) {
	ctx := context.Background()
	_, akey, _ := ed25519.GenerateKey(nil)
	opts := []node.Option{node.WithDisableP2P(false), netConfig.WithListenAddresses(fmt.Sprintf("/ip4/127.0.0.1/tcp/%d", basePort)),
		netConfig.WithPrivateKey(akey), netConfig.WithEnablePubSub(true), netConfig.WithRetryInterval([]time.Duration{300 * time.Millisecond})}
	_, bkey, _ := ed25519.GenerateKey(nil)
	bdir, err := os.MkdirTemp("/var/tmp", "vreplf")
	if err != nil {
		panic(err)
	}
	b := &p2pNode{name: "B", dir: bdir, port: basePort + 1, key: bkey}
	defer func() {
		b.close(ctx)
		os.RemoveAll(bdir)
	}()
	var desc []string
	replay := map[string]any{"events": &desc}
	ax, ctl, _ := newTracedNode(ctx, "A", opts...)
	ax.noEvents()
	defer ax.close(ctx)
	if err := b.open(ctx); err != nil {
		e.violate("harness-repl", "open B: "+err.Error(), replay)
		return
	}
	sdl := `type User { name: String age: Int }`
	ax.addSchema(ctx, sdl)
	b.x.addSchema(ctx, sdl)
	if err := ax.n.Peer.SetReplicator(ctx, b.x.n.Peer.PeerInfo()); err != nil {
		e.violate("harness-repl", "SetReplicator: "+err.Error(), replay)
		return
	}
	ax.gql(ctx, `mutation { create_User(input: {name: "first", age: 1}) { _docID } }`)
	desc = append(desc, "A: SetReplicator(B)", "A: create User first")
	want := dumpCol(ctx, ax, "User", "name age")
	waitUntil(15*time.Second, func() bool { return dumpCol(ctx, b.x, "User", "name age") == want })
	b.close(ctx)
	desc = append(desc, "B: down")
	ax.gql(ctx, `mutation { create_User(input: {name: "second", age: 2}) { _docID } }`)
	desc = append(desc, "A: create User second (push fails, the retry record is created)")
	// wait until the record exists
	waitUntil(10*time.Second, func() bool {
		for k := range ax.scan(ctx, "/db/ps/") {
			if strings.Contains(k, "/rep/retry/id/") {
				return true
			}
		}
		return false
	})
	marked := make(chan struct{}, 1)
	var once, held sync.Once
	ctl.onSet = func(k, v []byte) {
		if bytes.Contains(k, []byte("/rep/retry/id/")) && bytes.Contains(v, append([]byte("Retrying"), 0xf5)) {
			once.Do(func() { marked <- struct{}{} })
		}
	}
	heldOnce := false
	ctl.onTxnRead = func(k []byte) {
		if bytes.Contains(k, []byte("/rep/retry/id/")) {
			held.Do(func() {
				heldOnce = true
				select {
				case <-marked:
				case <-time.After(6 * time.Second):
				}
			})
		}
	}
	ax.gql(ctx, `mutation { create_User(input: {name: "third", age: 3}) { _docID } }`)
	desc = append(desc, "A: create User third (push fails; the transaction recording it for retry is held after reading the retry record until the retry loop has marked the record)")
	time.Sleep(8 * time.Second)
	ctl.onSet, ctl.onTxnRead = nil, nil
	e.count(fmt.Sprintf("failure_handler_held_%v", heldOnce))
	if err := b.open(ctx); err != nil {
		e.violate("harness-repl", "reopen B: "+err.Error(), replay)
		return
	}
	desc = append(desc, "B: up")
	want = dumpCol(ctx, ax, "User", "name age")
	conv := waitUntil(30*time.Second, func() bool { return dumpCol(ctx, b.x, "User", "name age") == want })
	e.Res.Evaluations++
	if !conv {
		e.violate("replication-incomplete", fmt.Sprintf("a document failed to be pushed while the retry loop marked the retry record; B is up again: A has [%s], B has [%s]", want, dumpCol(ctx, b.x, "User", "name age")), replay)
	}
	e.count("failure_during_retry_mark_scenario")
}
