package main

// Engine "events" (C20).
// Part A - the real channel bus (event.NewChannelBus) is driven with generated command sequences (subscribe with
//   name sets incl. the wildcard, publish, unsubscribe); every subscriber's received sequence is compared with a
//   reference (exactly the messages published between its subscribe and unsubscribe whose name it asked for, once,
//   in publish order) and written as a Coq case for Bus/EventBus.v.
// Part B - a real node with 1-4 bus subscribers and a GraphQL subscription: mutation histories incl. multi-document
//   requests, explicit transactions that commit or discard, rejected operations, branchable collections. Oracle:
//   one update event per committed document-level commit (+1 per collection-level commit when branchable), in the
//   order the operations completed, none for rolled-back or failed operations, the announced cid readable from the
//   block store with exactly the announced bytes, and one subscription result per matching committed change.

import (
	"bytes"
	"context"
	"fmt"
	"strings"
	"time"

	"github.com/sourcenetwork/defradb/event"
	"github.com/sourcenetwork/defradb/verifhook"
)

type busCmd struct {
	kind  string // sub unsub pub
	id    int
	names []string
	name  string
	pay   int
}

func nameID(n string) int {
	switch n {
	case "*":
		return 0
	case "a":
		return 1
	case "b":
		return 2
	}
	return 3
}

func busPartA(e *Env, r *Rng, nSeq int) []string {
	var cases []string
	for s := 0; s < nSeq; s++ {
		bus := event.NewChannelBus(0, 4096)
		n := 5 + r.Intn(40)
		var cmds []busCmd
		subs := map[int]event.Subscription{}
		open := []int{}
		nextID := 0
		for i := 0; i < n; i++ {
			switch {
			case r.Chance(20) || nextID == 0:
				var names []string
				for _, nm := range []string{"*", "a", "b", "c"} {
					if r.Chance(35) {
						names = append(names, nm)
					}
				}
				if len(names) == 0 {
					names = []string{"a"}
				}
				var evn []event.Name
				for _, nm := range names {
					evn = append(evn, event.Name(nm))
				}
				sub, err := bus.Subscribe(evn...)
				if err != nil {
					panic(err)
				}
				subs[nextID] = sub
				open = append(open, nextID)
				cmds = append(cmds, busCmd{kind: "sub", id: nextID, names: names})
				nextID++
			case r.Chance(12) && len(open) > 0:
				j := r.Intn(len(open))
				id := open[j]
				open = append(open[:j], open[j+1:]...)
				bus.Unsubscribe(subs[id])
				cmds = append(cmds, busCmd{kind: "unsub", id: id})
			default:
				nm := Pick(r, []string{"a", "b", "c"})
				bus.Publish(event.NewMessage(event.Name(nm), i))
				cmds = append(cmds, busCmd{kind: "pub", name: nm, pay: i})
			}
		}
		bus.Close() // processes everything queued, then closes every subscriber channel
		e.Res.Evaluations++
		e.count("bus_sequences")
		// reference
		var coqCmds []string
		for _, c := range cmds {
			switch c.kind {
			case "sub":
				var ns []string
				for _, nm := range c.names {
					ns = append(ns, fmt.Sprint(nameID(nm)))
				}
				coqCmds = append(coqCmds, fmt.Sprintf("CSub %d [%s]%%nat", c.id, strings.Join(ns, ";")))
			case "unsub":
				coqCmds = append(coqCmds, fmt.Sprintf("CUnsub %d", c.id))
			default:
				coqCmds = append(coqCmds, fmt.Sprintf("CPub %d %d", nameID(c.name), c.pay))
			}
		}
		var obs []string
		for id := 0; id < nextID; id++ {
			var got []string
			var gotCoq []string
			for m := range subs[id].Message() {
				got = append(got, fmt.Sprintf("%s:%v", m.Name, m.Data))
				gotCoq = append(gotCoq, fmt.Sprintf("(%d,%v)%%nat", nameID(string(m.Name)), m.Data))
			}
			// reference: messages published while subscribed, whose name was asked for
			var want []string
			active := false
			var names []string
			for _, c := range cmds {
				switch {
				case c.kind == "sub" && c.id == id:
					active, names = true, c.names
				case c.kind == "unsub" && c.id == id:
					active = false
				case c.kind == "pub" && active:
					for _, nm := range names {
						if nm == "*" || nm == c.name {
							want = append(want, fmt.Sprintf("%s:%d", c.name, c.pay))
							break
						}
					}
				}
			}
			if strings.Join(got, ",") != strings.Join(want, ",") {
				e.violate("bus-delivery", fmt.Sprintf("subscriber %d received [%s], published while it was subscribed to its names: [%s]", id, strings.Join(got, ","), strings.Join(want, ",")), map[string]any{"commands": coqCmds})
			}
			obs = append(obs, fmt.Sprintf("(%d%%nat, [%s])", id, strings.Join(gotCoq, ";")))
			if len(want) > 0 {
				e.distinct(fmt.Sprintf("%d|%d|%s", s, id, strings.Join(want, ",")))
			}
		}
		cases = append(cases, fmt.Sprintf("mkBus [%s] [%s]", strings.Join(coqCmds, "; "), strings.Join(obs, "; ")))
		if s == 0 {
			e.sample(map[string]any{"bus_commands": coqCmds})
		}
	}
	return cases
}

type evSub struct {
	sub   event.Subscription
	since int // number of expected events published before it subscribed
	got   []event.Update
}

func engEvents(e *Env) {
	ctx := context.Background()
	r := NewRng(e.Seed)
	e.Res.Rule = "A: command sequences of 5-45 subscribe / publish / unsubscribe commands on the real channel bus (names a b c and the wildcard); B: mutation histories of 8-20 operations on a real node (single and multi-document requests, filtered updates/deletes, explicit transactions with 1-3 writes that commit or discard, rejected operations, plain and branchable collections) observed by 1-4 bus subscribers subscribed at different times and a filtered GraphQL subscription; distinct = distinct history; non-trivial = the history contains a rolled-back or rejected operation or a multi-document operation"
	nSeq, nHist := 150, 14
	if e.thorough() {
		nSeq, nHist = 5000, 300
	}
	cases := busPartA(e, r, nSeq)

	for hi := 0; hi < nHist; hi++ {
		branchable := hi%3 == 2
		x := newNd(ctx, "E")
		x.noEvents()
		dir := ""
		if branchable {
			dir = " @branchable"
		}
		x.addSchema(ctx, fmt.Sprintf(`type Ev%s { k: Int @index(unique: true) name: String v: Int }
type Other%s { k: Int name: String v: Int }`, dir, dir))
		perCommit := 1
		if branchable {
			perCommit = 2
		}
		e.count(fmt.Sprintf("branchable_%v", branchable))
		var subs []*evSub
		addSub := func(since int) {
			s, err := x.n.DB.Events().Subscribe(event.UpdateName)
			if err != nil {
				panic(err)
			}
			subs = append(subs, &evSub{sub: s, since: since})
		}
		// expected: one entry per document-level commit, in completion order: docID
		var expected []string
		addSub(0)
		gsub := openSubscription(ctx, x, `subscription { Ev(filter: {v: {_ge: 5}}) { k v } }`)
		var expectGsub []string
		var desc []string
		nextK := 0
		live := map[int]string{} // k -> docID
		val := map[int]int{}
		nontrivial := false
		explicitPartial := false
		otherCommits := 0
		_ = otherCommits
		note := func(k int, v int, deleted bool) {
			expected = append(expected, live[k])
			if !deleted && v >= 5 {
				expectGsub = append(expectGsub, fmt.Sprintf("%d:%d", k, v))
			}
		}
		n := 8 + r.Intn(13)
		for i := 0; i < n; i++ {
			if r.Chance(12) && len(subs) < 4 {
				// wait until the bus has delivered everything published so far, so that "since" is exact
				time.Sleep(15 * time.Millisecond)
				addSub(len(expected) * perCommit)
				desc = append(desc, "subscribe")
			}
			if r.Chance(12) {
				// a committed change in ANOTHER collection: announced on the bus like any other commit, but the GraphQL
				// subscription on Ev must not yield anything for it
				d, errs := x.gql(ctx, fmt.Sprintf(`mutation { create_Other(input: {k: %d, name: "o", v: 9}) { _docID } }`, 1000+i))
				desc = append(desc, fmt.Sprintf("create Other k=%d %s", 1000+i, errs))
				if errs == "" {
					expected = append(expected, fmt.Sprint(rowsOf(d, "create_Other")[0]["_docID"]))
					otherCommits++
				}
			}
			switch r.Intn(9) {
			case 0, 1: // single create
				k, v := nextK, r.Intn(10)
				nextK++
				d, errs := x.gql(ctx, fmt.Sprintf(`mutation { create_Ev(input: {k: %d, name: "n", v: %d}) { _docID } }`, k, v))
				desc = append(desc, fmt.Sprintf("create k=%d v=%d %s", k, v, errs))
				if errs == "" {
					live[k] = fmt.Sprint(rowsOf(d, "create_Ev")[0]["_docID"])
					val[k] = v
					note(k, v, false)
				}
			case 2: // multi-document create
				k1, k2 := nextK, nextK+1
				nextK += 2
				v1, v2 := r.Intn(10), r.Intn(10)
				d, errs := x.gql(ctx, fmt.Sprintf(`mutation { create_Ev(input: [{k: %d, v: %d}, {k: %d, v: %d}]) { _docID k } }`, k1, v1, k2, v2))
				desc = append(desc, fmt.Sprintf("create2 k=%d,%d %s", k1, k2, errs))
				nontrivial = true
				if errs == "" {
					for _, row := range rowsOf(d, "create_Ev") {
						k := int(row["k"].(int64))
						live[k] = fmt.Sprint(row["_docID"])
					}
					val[k1], val[k2] = v1, v2
					note(k1, v1, false)
					note(k2, v2, false)
				}
			case 3: // rejected: unique clash in the second document, nothing may be announced
				if len(live) == 0 {
					continue
				}
				var anyK int
				for k := range live {
					anyK = k
					break
				}
				_, errs := x.gql(ctx, fmt.Sprintf(`mutation { create_Ev(input: [{k: %d, v: 9}, {k: %d, v: 9}]) { _docID } }`, nextK, anyK))
				desc = append(desc, fmt.Sprintf("create-clash k=%d,%d -> %.40s", nextK, anyK, errs))
				nextK++
				nontrivial = true
				if errs == "" {
					e.violate("event-setup", "unique clash accepted", nil)
				}
			case 4, 5: // update by filter (one document)
				if len(live) == 0 {
					continue
				}
				ks := sortedIntKeys(live)
				k := Pick(r, ks)
				v := r.Intn(10)
				_, errs := x.gql(ctx, fmt.Sprintf(`mutation { update_Ev(filter: {k: {_eq: %d}}, input: {v: %d}) { _docID } }`, k, v))
				desc = append(desc, fmt.Sprintf("update k=%d v=%d %s", k, v, errs))
				if errs == "" {
					val[k] = v
					note(k, v, false)
				}
			case 6: // delete
				if len(live) == 0 {
					continue
				}
				k := Pick(r, sortedIntKeys(live))
				_, errs := x.gql(ctx, fmt.Sprintf(`mutation { delete_Ev(docID: "%s") { _docID } }`, live[k]))
				desc = append(desc, fmt.Sprintf("delete k=%d %s", k, errs))
				if errs == "" {
					note(k, 0, true)
					delete(live, k)
				}
			default: // explicit transaction with 1-3 writes, committed or discarded
				t, err := x.n.DB.NewTxn(ctx, false)
				if err != nil {
					panic(err)
				}
				nontrivial = true
				type pend struct {
					k, v  int
					id    string
					del   bool
					isNew bool
				}
				var pending []pend
				m := 1 + r.Intn(3)
				touched := map[int]bool{}
				var what []string
				for j := 0; j < m; j++ {
					ks := sortedIntKeys(live)
					var cand []int
					for _, k := range ks {
						if !touched[k] {
							cand = append(cand, k)
						}
					}
					switch {
					case len(cand) > 0 && r.Chance(35): // delete an existing document
						k := Pick(r, cand)
						touched[k] = true
						res := t.ExecRequest(ctx, fmt.Sprintf(`mutation { delete_Ev(docID: "%s") { _docID } }`, live[k]))
						if len(res.GQL.Errors) == 0 {
							pending = append(pending, pend{k: k, id: live[k], del: true})
							what = append(what, fmt.Sprintf("delete k=%d", k))
						}
					case len(cand) > 0 && r.Chance(40): // update an existing document
						k := Pick(r, cand)
						touched[k] = true
						v := r.Intn(10)
						res := t.ExecRequest(ctx, fmt.Sprintf(`mutation { update_Ev(docID: "%s", input: {v: %d}) { _docID } }`, live[k], v))
						if len(res.GQL.Errors) == 0 {
							pending = append(pending, pend{k: k, v: v, id: live[k]})
							what = append(what, fmt.Sprintf("update k=%d v=%d", k, v))
						}
					default:
						k, v := nextK, r.Intn(10)
						nextK++
						res := t.ExecRequest(ctx, fmt.Sprintf(`mutation { create_Ev(input: {k: %d, v: %d}) { _docID } }`, k, v))
						if len(res.GQL.Errors) == 0 {
							pending = append(pending, pend{k: k, v: v, isNew: true, id: fmt.Sprint(rowsOf(asMap(res.GQL.Data), "create_Ev")[0]["_docID"])})
							what = append(what, fmt.Sprintf("create k=%d v=%d", k, v))
						}
					}
				}
				if r.Chance(60) {
					if err := t.Commit(ctx); err == nil {
						for _, p := range pending {
							live[p.k] = p.id
							val[p.k] = p.v
							note(p.k, p.v, p.del)
							if p.del {
								delete(live, p.k)
							}
						}
						desc = append(desc, fmt.Sprintf("txn(%s) commit", strings.Join(what, "; ")))
					} else {
						desc = append(desc, fmt.Sprintf("txn(%s) commit failed %s", strings.Join(what, "; "), err.Error()))
					}
				} else {
					t.Discard(ctx)
					desc = append(desc, fmt.Sprintf("txn(%s) discard", strings.Join(what, "; ")))
				}
			}
		}
		// explicit transaction in which one operation is rejected and the transaction is committed nevertheless:
		// the rejected operation must leave nothing behind and announce nothing
		if hi%4 == 1 && len(live) > 0 {
			var anyK int
			for k := range live {
				anyK = k
				break
			}
			t, err := x.n.DB.NewTxn(ctx, false)
			if err == nil {
				k1, k2 := nextK, nextK+1
				nextK += 2
				r1 := t.ExecRequest(ctx, fmt.Sprintf(`mutation { create_Ev(input: [{k: %d, v: 9}, {k: %d, v: 9}]) { _docID } }`, k1, anyK))
				r2 := t.ExecRequest(ctx, fmt.Sprintf(`mutation { create_Ev(input: {k: %d, v: 1}) { _docID } }`, k2))
				cerr := t.Commit(ctx)
				desc = append(desc, fmt.Sprintf("txn(create [k=%d, clash k=%d] -> rejected: %v; create k=%d) commit %v", k1, anyK, len(r1.GQL.Errors) > 0, k2, cerr))
				if len(r1.GQL.Errors) > 0 && len(r2.GQL.Errors) == 0 && cerr == nil {
					live[k2] = fmt.Sprint(rowsOf(asMap(r2.GQL.Data), "create_Ev")[0]["_docID"])
					val[k2] = 1
					note(k2, 1, false)
					d, _ := x.gql(ctx, fmt.Sprintf(`query { Ev(filter: {k: {_eq: %d}}) { _docID } }`, k1))
					e.Res.Evaluations++
					if len(rowsOf(d, "Ev")) > 0 {
						e.violate("explicit-txn-partial", fmt.Sprintf("inside an explicit transaction the request creating k=%d and a clashing k=%d was rejected, the transaction was committed: the document k=%d exists", k1, anyK, k1), map[string]any{"branchable": branchable, "operations": desc})
						explicitPartial = true
					}
				}
			}
		}
		// collect
		time.Sleep(60 * time.Millisecond)
		replay := map[string]any{"branchable": branchable, "operations": desc}
		for si, s := range subs {
			want := len(expected)*perCommit - s.since
		loop:
			for {
				select {
				case m := <-s.sub.Message():
					if u, ok := m.Data.(event.Update); ok {
						s.got = append(s.got, u)
					}
				case <-time.After(time.Duration(20+30*boolInt(len(s.got) < want)) * time.Millisecond):
					break loop
				}
			}
			// document-level events in order
			var gotDocs []string
			for _, u := range s.got {
				raw, ok := x.rawBlock(ctx, u.Cid)
				if !ok {
					e.violate("event-block-unreadable", fmt.Sprintf("subscriber %d: the announced cid %s is not in the block store", si, u.Cid), replay)
				} else if !bytes.Equal(raw, u.Block) {
					e.violate("event-block-bytes", fmt.Sprintf("subscriber %d: the announced block bytes differ from the stored block %s", si, u.Cid), replay)
				}
				if u.DocID != "" {
					gotDocs = append(gotDocs, u.DocID)
				}
			}
			// branchable: the collection-level event carries no docID; it links to the document-level commit it
			// records, which must have been announced before it
			seen := map[string]bool{}
			for _, u := range s.got {
				if u.DocID == "" {
					if bi, err := verifhook.DecodeBlock(u.Block); err == nil && bi.Kind == "collection" {
						for _, l := range bi.Links {
							if !seen[l[1]] && s.since == 0 {
								e.violate("event-causal-order", fmt.Sprintf("subscriber %d: the collection-level commit %s was announced before the document-level commit %s it links to", si, u.Cid, l[1]), replay)
							}
						}
					}
				}
				seen[u.Cid.String()] = true
			}
			wantDocs := expected[s.since/perCommit:]
			e.Res.Evaluations++
			if explicitPartial {
				continue // the partially applied request also announced its document (same finding)
			}
			if len(s.got) != want {
				e.violate("event-count", fmt.Sprintf("subscriber %d (subscribed after %d events) received %d update events, %d were due (one per committed document-level commit%s)", si, s.since, len(s.got), want, map[bool]string{true: " plus one per collection-level commit", false: ""}[branchable]), replay)
			} else if strings.Join(gotDocs, ",") != strings.Join(wantDocs, ",") {
				e.violate("event-order", fmt.Sprintf("subscriber %d received the document events in the order %v, the operations completed in the order %v", si, shortIDs(gotDocs), shortIDs(wantDocs)), replay)
			}
		}
		gres := gsub.wait(len(expectGsub), 2*time.Second)
		var gotG []string
		for _, row := range gres {
			gotG = append(gotG, fmt.Sprintf("%v:%v", row["k"], row["v"]))
		}
		for _, er := range gsub.errs {
			e.violate("subscription-error", er, replay)
		}
		if !explicitPartial && strings.Join(gotG, ",") != strings.Join(expectGsub, ",") {
			e.violate("subscription-results", fmt.Sprintf("the GraphQL subscription (v >= 5) yielded [%s], the committed matching changes are [%s]", strings.Join(gotG, ","), strings.Join(expectGsub, ",")), replay)
		}
		gsub.cancel()
		e.Res.Evaluations++
		if nontrivial {
			e.distinct(strings.Join(desc, "|"))
		}
		if hi == 0 {
			e.sample(replay)
		}
		for _, s := range subs {
			x.n.DB.Events().Unsubscribe(s.sub)
		}
		x.close(ctx)
	}
	e.writeCasesSharded("cases_C20", "CorrC20", "buscase", cases, 400)
}

func boolInt(b bool) int {
	if b {
		return 1
	}
	return 0
}
func sortedIntKeys(m map[int]string) []int {
	var ks []int
	for k := range m {
		ks = append(ks, k)
	}
	return sortedInts(ks)
}
func shortIDs(ids []string) []string {
	var o []string
	for _, s := range ids {
		if len(s) > 12 {
			s = s[4:12]
		}
		o = append(o, s)
	}
	return o
}

func init() { engines["events"] = engEvents }
