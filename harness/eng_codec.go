package main

// Engine "codec" (C17): runs the real index-key codec on boundary and random values and
//   (1) evaluates the property's oracle directly on the implementation: decode(encode v) = v and
//       byte order of keys = value order (per kind, direction, and for composite tuples);
//   (2) writes every (input, observed output) as a Coq case for the model correspondence.

import (
	"bytes"
	"fmt"
	"math"
	"sort"
	"strings"
	"time"

	"github.com/sourcenetwork/defradb/client"
	"github.com/sourcenetwork/defradb/verifhook"
)

type fv struct {
	kind  string // null bool int f64 f32 str time
	b     bool
	i     int64
	f64   uint64
	f32   uint32
	s     []byte
	sec   int64
	nanos int64
}

func zlist(b []byte) string {
	parts := make([]string, len(b))
	for i, c := range b {
		parts[i] = fmt.Sprint(c)
	}
	return "[" + strings.Join(parts, ";") + "]"
}
func zint(v int64) string {
	if v < 0 {
		return fmt.Sprintf("(%d)", v)
	}
	return fmt.Sprint(v)
}
func coqBool(b bool) string {
	if b {
		return "true"
	}
	return "false"
}

func (v fv) coq() string {
	switch v.kind {
	case "null":
		return "FNull"
	case "bool":
		return "(FBool " + coqBool(v.b) + ")"
	case "int":
		return "(FInt " + zint(v.i) + ")"
	case "f64":
		return fmt.Sprintf("(FF64 %d)", v.f64)
	case "f32":
		return fmt.Sprintf("(FF32 %d)", v.f32)
	case "str":
		return "(FStr " + zlist(v.s) + ")"
	case "time":
		return "(FTime " + zint(v.sec) + " " + zint(v.nanos) + ")"
	}
	panic("kind")
}

func (v fv) fieldKind() client.FieldKind {
	switch v.kind {
	case "bool":
		return client.FieldKind_NILLABLE_BOOL
	case "int":
		return client.FieldKind_NILLABLE_INT
	case "f64":
		return client.FieldKind_NILLABLE_FLOAT64
	case "f32":
		return client.FieldKind_NILLABLE_FLOAT32
	case "str":
		return client.FieldKind_NILLABLE_STRING
	case "time":
		return client.FieldKind_NILLABLE_DATETIME
	}
	return client.FieldKind_NILLABLE_INT
}

func (v fv) normal() client.NormalValue {
	switch v.kind {
	case "null":
		n, _ := client.NewNormalNil(client.FieldKind_NILLABLE_INT)
		return n
	case "bool":
		return client.NewNormalBool(v.b)
	case "int":
		return client.NewNormalInt(v.i)
	case "f64":
		return client.NewNormalFloat64(math.Float64frombits(v.f64))
	case "f32":
		return client.NewNormalFloat32(math.Float32frombits(v.f32))
	case "str":
		return client.NewNormalString(string(v.s))
	case "time":
		return client.NewNormalTime(time.Unix(v.sec, v.nanos).UTC())
	}
	panic("kind")
}

// value order within one kind (null lowest); NaN lowest among floats, -0 = +0.
func f64key(u uint64) (nan bool, f float64) {
	f = math.Float64frombits(u)
	return f != f, f
}
func cmpFv(a, b fv) int {
	if a.kind == "null" || b.kind == "null" {
		switch {
		case a.kind == b.kind:
			return 0
		case a.kind == "null":
			return -1
		default:
			return 1
		}
	}
	switch a.kind {
	case "bool":
		x, y := 0, 0
		if a.b {
			x = 1
		}
		if b.b {
			y = 1
		}
		return x - y
	case "int":
		switch {
		case a.i < b.i:
			return -1
		case a.i > b.i:
			return 1
		}
		return 0
	case "f64", "f32":
		var fa, fb float64
		var na, nb bool
		if a.kind == "f64" {
			na, fa = f64key(a.f64)
			nb, fb = f64key(b.f64)
		} else {
			fa, fb = float64(math.Float32frombits(a.f32)), float64(math.Float32frombits(b.f32))
			na, nb = fa != fa, fb != fb
		}
		switch {
		case na && nb:
			return 0
		case na:
			return -1
		case nb:
			return 1
		case fa < fb:
			return -1
		case fa > fb:
			return 1
		}
		return 0
	case "str":
		return bytes.Compare(a.s, b.s)
	case "time":
		switch {
		case a.sec < b.sec:
			return -1
		case a.sec > b.sec:
			return 1
		case a.nanos < b.nanos:
			return -1
		case a.nanos > b.nanos:
			return 1
		}
		return 0
	}
	panic("kind")
}

func sign(x int) int {
	switch {
	case x < 0:
		return -1
	case x > 0:
		return 1
	}
	return 0
}

// observable equality of a decoded value with the written one
func decodedFv(nv client.NormalValue, kind string) (fv, bool) {
	if nv.IsNil() {
		return fv{kind: "null"}, true
	}
	if x, ok := nv.Bool(); ok {
		return fv{kind: "bool", b: x}, true
	}
	if x, ok := nv.Int(); ok {
		return fv{kind: "int", i: x}, true
	}
	if x, ok := nv.Float64(); ok {
		return fv{kind: "f64", f64: math.Float64bits(x)}, true
	}
	if x, ok := nv.Float32(); ok {
		return fv{kind: "f32", f32: math.Float32bits(x)}, true
	}
	if x, ok := nv.String(); ok {
		return fv{kind: "str", s: []byte(x)}, true
	}
	if x, ok := nv.Time(); ok {
		return fv{kind: "time", sec: x.Unix(), nanos: int64(x.Nanosecond())}, true
	}
	return fv{}, false
}

// sameValue: the value read back equals the written one under the comparison the query layer
// uses (== on floats, so -0 == +0 and NaN is "a NaN").
func sameValue(a, b fv) bool {
	if a.kind != b.kind {
		return false
	}
	return cmpFv(a, b) == 0
}

var edgeInts = []int64{0, 1, -1, 108, 109, 110, 111, 127, 128, 255, 256, -255, -256, -257, 65535, 65536, -65535, -65536, -65537,
	1<<24 - 1, 1 << 24, -(1<<24 - 1), -(1 << 24), -(1<<24 + 1), 1<<32 - 1, 1 << 32, -(1<<32 - 1), -(1 << 32), -(1<<32 + 1),
	1<<40 - 1, 1 << 40, -(1<<40 - 1), -(1 << 40), -(1<<40 + 1), 1<<48 - 1, 1 << 48, -(1<<48 - 1), -(1 << 48), -(1<<48 + 1),
	1<<56 - 1, 1 << 56, -(1<<56 - 1), -(1 << 56), -(1<<56 + 1), math.MaxInt64, math.MaxInt64 - 1, math.MinInt64, math.MinInt64 + 1,
	1 << 53, 1<<53 + 1, 1 << 62, -(1 << 62)}

var edgeF64 = []uint64{0, 1 << 63, 1, 1<<63 | 1, 0x000FFFFFFFFFFFFF, 0x800FFFFFFFFFFFFF, 0x0010000000000000, 0x8010000000000000,
	0x3FF0000000000000, 0xBFF0000000000000, 0x7FEFFFFFFFFFFFFF, 0xFFEFFFFFFFFFFFFF, 0x7FF0000000000000, 0xFFF0000000000000,
	0x7FF8000000000001, 0x7FF0000000000001, 0xFFF8000000000000, 0x3FB999999999999A, 0x3FD3333333333333, 0x4000000000000000, 0xC000000000000000,
	0x3FF0000000000001, 0xBFF0000000000001}

var edgeF32 = []uint32{0, 1 << 31, 1, 1<<31 | 1, 0x007FFFFF, 0x807FFFFF, 0x00800000, 0x80800000, 0x3F800000, 0xBF800000, 0x7F7FFFFF, 0xFF7FFFFF,
	0x7F800000, 0xFF800000, 0x7FC00001, 0xFFC00000, 0x3DCCCCCD, 0x40000000, 0xC0000000}

var edgeStrs = [][]byte{{}, {0}, {0, 0}, {0, 1}, {0, 0xff}, {1}, {0xff}, {0xff, 0xff}, {0xff, 0}, {0xfe}, []byte("a"), []byte("a\x00"), []byte("a\x00b"),
	[]byte("a\x01"), []byte("ab"), []byte("b"), []byte("A"), {0, 0xff, 0}, {1, 0}, []byte("\x00\x01"), []byte("/"), []byte("a/b"), []byte("é"), []byte("zz")}

var edgeTimes = [][2]int64{{0, 0}, {0, 1}, {0, 999999999}, {-1, 0}, {-1, 999999999}, {1, 0}, {109, 0}, {110, 109}, {110, 110}, {255, 0}, {256, 0}, {-255, 1}, {-256, 1},
	{1700000000, 123456789}, {1700000000, 123456790}, {1700000001, 0}, {-2208988800, 0}, {253402300799, 999999999}, {-62135596800, 0}, {4102444800, 500}, {1 << 32, 5}, {-(1 << 32), 7}}

func genFv(r *Rng, kind string) fv {
	switch kind {
	case "null":
		return fv{kind: "null"}
	case "bool":
		return fv{kind: "bool", b: r.Bool()}
	case "int":
		switch r.Intn(4) {
		case 0:
			return fv{kind: "int", i: Pick(r, edgeInts)}
		case 1:
			// around a power of 256 boundary
			k := uint(8 * (1 + r.Intn(7)))
			v := int64(1)<<k + int64(r.Intn(5)) - 2
			if r.Bool() {
				v = -v
			}
			return fv{kind: "int", i: v}
		case 2:
			return fv{kind: "int", i: int64(r.U64()) >> uint(r.Intn(64))}
		default:
			return fv{kind: "int", i: int64(r.Intn(300)) - 150}
		}
	case "f64":
		switch r.Intn(3) {
		case 0:
			return fv{kind: "f64", f64: Pick(r, edgeF64)}
		case 1:
			return fv{kind: "f64", f64: r.U64()}
		default:
			return fv{kind: "f64", f64: math.Float64bits(float64(r.Intn(2001)-1000) / 8)}
		}
	case "f32":
		switch r.Intn(3) {
		case 0:
			return fv{kind: "f32", f32: Pick(r, edgeF32)}
		case 1:
			return fv{kind: "f32", f32: uint32(r.U64())}
		default:
			return fv{kind: "f32", f32: math.Float32bits(float32(r.Intn(2001)-1000) / 8)}
		}
	case "str":
		if r.Bool() {
			return fv{kind: "str", s: Pick(r, edgeStrs)}
		}
		n := r.Intn(6)
		s := make([]byte, n)
		alphabet := []byte{0, 0, 1, 0xff, 0xfe, 'a', 'b', '/', 0x80}
		for i := range s {
			s[i] = Pick(r, alphabet)
		}
		return fv{kind: "str", s: s}
	case "time":
		if r.Bool() {
			t := Pick(r, edgeTimes)
			return fv{kind: "time", sec: t[0], nanos: t[1]}
		}
		sec := int64(r.U64()>>uint(20+r.Intn(40))) - (1 << 33)
		if sec < -62135596800 {
			sec = -62135596800
		}
		if sec > 253402300799 {
			sec = 253402300799
		}
		return fv{kind: "time", sec: sec, nanos: int64(r.Intn(1000000000))}
	}
	panic("kind " + kind)
}

var codecKinds = []string{"bool", "int", "f64", "f32", "str", "time"}

func engCodec(e *Env) {
	r := NewRng(e.Seed)
	e.Res.Rule = "values: boundary tables (every width threshold +-1, int64 extremes, +-0, +-Inf, sub-normals, NaN payloads, strings with 0x00/0xFF/empty, " +
		"nanosecond and pre-1970 times) plus PRNG values per kind; a case is distinct by (function, input bytes); non-trivial = not a repeat"
	var cases []string
	add := func(key, c string) {
		if !e.seen[key] {
			cases = append(cases, c)
		}
		e.distinct(key)
	}
	nSingles, nPairs, nTuples, nMal := 1500, 4000, 1500, 600
	if e.thorough() {
		nSingles, nPairs, nTuples, nMal = 12000, 200000, 40000, 6000
	}
	if e.N > 0 {
		nSingles, nPairs, nTuples, nMal = e.N, e.N*3, e.N, e.N/2
	}

	// ---- single values: encode, decode, compare with the written value
	check1 := func(v fv, desc bool) []byte {
		enc := verifhook.EncodeFieldValue(nil, v.normal(), desc)
		e.Res.Evaluations++
		e.count("enc_" + v.kind)
		add(fmt.Sprintf("E%v%v", v.coq(), desc), fmt.Sprintf("CEnc %s %s %s", v.coq(), coqBool(desc), zlist(enc)))
		rest, nv, err := verifhook.DecodeFieldValue(append(append([]byte{}, enc...), 0x2f, 0x99), desc, v.fieldKind())
		if err != nil {
			e.violate("roundtrip-decode-error", fmt.Sprintf("decode(encode(%s,desc=%v)) failed: %v", v.coq(), desc, err), map[string]any{"value": v.coq(), "desc": desc, "encoded": enc})
			return enc
		}
		got, ok := decodedFv(nv, v.kind)
		if !ok || !sameValue(got, v) || !bytes.Equal(rest, []byte{0x2f, 0x99}) {
			e.violate("roundtrip-mismatch", fmt.Sprintf("decode(encode(%s,desc=%v)) = %s rest=%v", v.coq(), desc, got.coq(), rest), map[string]any{"value": v.coq(), "desc": desc, "encoded": enc})
		}
		if v.kind != "f32" {
			c := fmt.Sprintf("CDec %s %s (Some (%s, %s))", zlist(append(append([]byte{}, enc...), 0x2f, 0x99)), coqBool(desc), zlist(rest), got.coq())
			add("D"+c, c)
		}
		return enc
	}
	all := map[string][]fv{}
	for _, x := range edgeInts {
		all["int"] = append(all["int"], fv{kind: "int", i: x})
	}
	for _, x := range edgeF64 {
		all["f64"] = append(all["f64"], fv{kind: "f64", f64: x})
	}
	for _, x := range edgeF32 {
		all["f32"] = append(all["f32"], fv{kind: "f32", f32: x})
	}
	for _, x := range edgeStrs {
		all["str"] = append(all["str"], fv{kind: "str", s: x})
	}
	for _, x := range edgeTimes {
		all["time"] = append(all["time"], fv{kind: "time", sec: x[0], nanos: x[1]})
	}
	all["bool"] = []fv{{kind: "bool", b: false}, {kind: "bool", b: true}}
	for i := 0; i < nSingles; i++ {
		k := codecKinds[i%len(codecKinds)]
		all[k] = append(all[k], genFv(r, k))
	}
	for _, desc := range []bool{false, true} {
		check1(fv{kind: "null"}, desc)
		for _, k := range codecKinds {
			for _, v := range all[k] {
				check1(v, desc)
			}
		}
	}
	e.sample(map[string]any{"kind": "roundtrip", "value": all["int"][7].coq(), "encoded_asc": verifhook.EncodeFieldValue(nil, all["int"][7].normal(), false)})

	// ---- pairs: byte order = value order (null first)
	for i := 0; i < nPairs; i++ {
		k := codecKinds[r.Intn(len(codecKinds))]
		a, b := Pick(r, all[k]), Pick(r, all[k])
		if r.Intn(12) == 0 {
			a = fv{kind: "null"}
		}
		if r.Intn(12) == 0 {
			b = fv{kind: "null"}
		}
		desc := r.Bool()
		ea := verifhook.EncodeFieldValue(nil, a.normal(), desc)
		eb := verifhook.EncodeFieldValue(nil, b.normal(), desc)
		want := sign(cmpFv(a, b))
		if desc {
			want = -want
		}
		// a trailing component must not influence the order of different values
		ea2 := append(append([]byte{}, ea...), '/', byte(r.Intn(256)))
		eb2 := append(append([]byte{}, eb...), '/', byte(r.Intn(256)))
		e.Res.Evaluations++
		e.count("pair_" + k)
		got := sign(bytes.Compare(ea, eb))
		if got != want || (want != 0 && sign(bytes.Compare(ea2, eb2)) != want) {
			e.violate("order", fmt.Sprintf("kind=%s desc=%v a=%s b=%s value order %d, key order %d", k, desc, a.coq(), b.coq(), want, got),
				map[string]any{"a": a.coq(), "b": b.coq(), "desc": desc, "enc_a": ea, "enc_b": eb})
		}
		if i == 0 {
			e.sample(map[string]any{"kind": "pair", "a": a.coq(), "b": b.coq(), "desc": desc, "enc_a": ea, "enc_b": eb, "order": want})
		}
	}

	// ---- composite tuples through EncodeIndexDataStoreKey
	for i := 0; i < nTuples; i++ {
		n := 1 + r.Intn(3)
		kinds := make([]string, n)
		desc := make([]bool, n)
		for j := range kinds {
			kinds[j] = codecKinds[r.Intn(len(codecKinds))]
			desc[j] = r.Bool()
		}
		mk := func() []fv {
			t := make([]fv, n)
			for j := range t {
				if r.Intn(8) == 0 {
					t[j] = fv{kind: "null"}
				} else {
					t[j] = Pick(r, all[kinds[j]])
				}
			}
			return t
		}
		ta := mk()
		tb := mk()
		// share a prefix often so that later components decide
		for j := 0; j < n-1; j++ {
			if r.Intn(2) == 0 {
				tb[j] = ta[j]
			}
		}
		nvals := func(t []fv) []client.NormalValue {
			o := make([]client.NormalValue, len(t))
			for j := range t {
				o[j] = t[j].normal()
			}
			return o
		}
		col, idx := uint32(1+r.Intn(300)), uint32(1+r.Intn(300))
		ka := verifhook.IndexKey(col, idx, nvals(ta), desc)
		kb := verifhook.IndexKey(col, idx, nvals(tb), desc)
		want := 0
		for j := 0; j < n && want == 0; j++ {
			want = sign(cmpFv(ta[j], tb[j]))
			if desc[j] {
				want = -want
			}
		}
		e.Res.Evaluations++
		e.count(fmt.Sprintf("tuple_%d", n))
		if got := sign(bytes.Compare(ka, kb)); got != want {
			e.violate("tuple-order", fmt.Sprintf("tuple order %d key order %d", want, got), map[string]any{"a": fmt.Sprint(ta), "b": fmt.Sprint(tb), "desc": desc, "key_a": ka, "key_b": kb})
		}
		var fs []string
		for j := range ta {
			fs = append(fs, "("+ta[j].coq()+","+coqBool(desc[j])+")")
		}
		c := fmt.Sprintf("CKey %d %d [%s] %s", col, idx, strings.Join(fs, ";"), zlist(ka))
		if i < nTuples/4 || e.thorough() {
			add("K"+c, c)
		}
		pe := verifhook.IndexKeyPrefixEnd(col, idx, nvals(ta), desc)
		if bytes.Compare(ka, pe) >= 0 && !allFF(ka) {
			e.violate("prefix-end", "PrefixEnd(k) <= k", map[string]any{"key": ka, "end": pe})
		}
		if i < nTuples/8 {
			c := fmt.Sprintf("CPfx %s %s", zlist(ka), zlist(pe))
			add("P"+c, c)
		}
	}

	// ---- raw integer codec and malformed inputs for the decoders
	for i := 0; i < nSingles; i++ {
		v := genFv(r, "int").i
		add(fmt.Sprintf("IE2_%d", v), fmt.Sprintf("CIntEnc 2 %s %s", zint(v), zlist(verifhook.EncodeVarintAscending(nil, v))))
		add(fmt.Sprintf("IE3_%d", v), fmt.Sprintf("CIntEnc 3 %s %s", zint(v), zlist(verifhook.EncodeVarintDescending(nil, v))))
		u := uint64(v)
		if r.Bool() {
			u = uint64(v) >> uint(r.Intn(64))
		}
		add(fmt.Sprintf("IE0_%d", u), fmt.Sprintf("CIntEnc 0 %d %s", u, zlist(verifhook.EncodeUvarintAscending(nil, u))))
		add(fmt.Sprintf("IE1_%d", u), fmt.Sprintf("CIntEnc 1 %d %s", u, zlist(verifhook.EncodeUvarintDescending(nil, u))))
		e.Res.Evaluations += 4
		e.count("raw_int")
	}
	type dec struct {
		w int
		f func([]byte) ([]byte, string, error)
	}
	decs := []dec{
		{0, func(b []byte) ([]byte, string, error) {
			r, v, err := verifhook.DecodeUvarintAscending(b)
			return r, fmt.Sprint(v), err
		}},
		{1, func(b []byte) ([]byte, string, error) {
			r, v, err := verifhook.DecodeUvarintDescending(b)
			return r, fmt.Sprint(v), err
		}},
		{2, func(b []byte) ([]byte, string, error) {
			r, v, err := verifhook.DecodeVarintAscending(b)
			return r, zint(v), err
		}},
		{3, func(b []byte) ([]byte, string, error) {
			r, v, err := verifhook.DecodeVarintDescending(b)
			return r, zint(v), err
		}},
	}
	for i := 0; i < nMal; i++ {
		// mostly-valid encodings, truncated / extended / with a mutated tag
		v := genFv(r, "int").i
		var b []byte
		switch r.Intn(4) {
		case 0:
			b = verifhook.EncodeVarintAscending(nil, v)
		case 1:
			b = verifhook.EncodeVarintDescending(nil, v)
		case 2:
			b = verifhook.EncodeUvarintAscending(nil, uint64(v))
		default:
			b = verifhook.EncodeUvarintDescending(nil, uint64(v))
		}
		switch r.Intn(5) {
		case 0:
			if len(b) > 1 {
				b = b[:1+r.Intn(len(b)-1)]
			}
		case 1:
			b = append(b, byte(r.Intn(256)), byte(r.Intn(256)))
		case 2:
			b[0] = byte(120 + r.Intn(136))
		case 3:
			b = []byte{}
		}
		for _, d := range decs {
			func() {
				defer func() {
					if p := recover(); p != nil {
						e.violate("decoder-panic", fmt.Sprintf("decoder %d panics on %v: %v", d.w, b, p), map[string]any{"decoder": d.w, "input": b})
					}
				}()
				rest, v, err := d.f(append([]byte{}, b...))
				res := "None"
				if err == nil {
					res = fmt.Sprintf("(Some (%s, %s))", zlist(rest), v)
				}
				c := fmt.Sprintf("CIntDec %d %s %s", d.w, zlist(b), res)
				add("ID"+c, c)
				e.Res.Evaluations++
				e.count("raw_dec")
			}()
		}
		c := fmt.Sprintf("CPeek %s %d", zlist(b), verifhook.PeekType(b))
		add("PK"+c, c)
	}
	// PeekType over every first byte
	for m := 0; m < 256; m++ {
		c := fmt.Sprintf("CPeek [%d] %d", m, verifhook.PeekType([]byte{byte(m)}))
		add("PK"+c, c)
	}

	// ---- JSON scalars (implementation oracle only; the model does not cover JSON)
	jsonScalars(e, r)

	sort.SliceStable(cases, func(i, j int) bool { return false })
	e.writeCases("cases_C17", "CorrC17", "ccase", cases)
}

func allFF(b []byte) bool {
	for _, c := range b {
		if c != 0xff {
			return false
		}
	}
	return true
}

func jsonScalars(e *Env, r *Rng) {
	path := client.JSONPath{}.AppendProperty("a").AppendProperty("b\x00")
	mk := func(v any) client.NormalValue {
		j, err := client.NewJSONWithPath(v, path)
		if err != nil {
			panic(err)
		}
		return client.NewNormalJSON(j)
	}
	nums := []float64{0, math.Copysign(0, -1), 1, -1, 0.5, -0.5, 1e300, -1e300, math.SmallestNonzeroFloat64, -math.SmallestNonzeroFloat64, 3, 2.5}
	strs := []string{"", "a", "a\x00", "ab", "b", "\xff"}
	for _, desc := range []bool{false, true} {
		for i := range nums {
			for j := range nums {
				ea := verifhook.EncodeFieldValue(nil, mk(nums[i]), desc)
				eb := verifhook.EncodeFieldValue(nil, mk(nums[j]), desc)
				want := 0
				if nums[i] < nums[j] {
					want = -1
				} else if nums[i] > nums[j] {
					want = 1
				}
				if desc {
					want = -want
				}
				e.Res.Evaluations++
				e.count("json_pair")
				if sign(bytes.Compare(ea, eb)) != want {
					e.violate("json-order", fmt.Sprintf("json numbers %v %v desc=%v", nums[i], nums[j], desc), map[string]any{"a": nums[i], "b": nums[j], "desc": desc})
				}
			}
			enc := verifhook.EncodeFieldValue(nil, mk(nums[i]), desc)
			_, nv, err := verifhook.DecodeFieldValue(enc, desc, client.FieldKind_NILLABLE_JSON)
			if err != nil {
				e.violate("json-roundtrip", fmt.Sprintf("json number %v desc=%v: %v", nums[i], desc, err), map[string]any{"v": nums[i], "desc": desc})
			} else if j, ok := nv.JSON(); !ok {
				e.violate("json-roundtrip", "not a JSON", nil)
			} else if n, ok := j.Number(); !ok || n != nums[i] {
				e.violate("json-roundtrip", fmt.Sprintf("json number %v desc=%v read back %v", nums[i], desc, n), map[string]any{"v": nums[i], "desc": desc})
			}
		}
		for i := range strs {
			for j := range strs {
				ea := verifhook.EncodeFieldValue(nil, mk(strs[i]), desc)
				eb := verifhook.EncodeFieldValue(nil, mk(strs[j]), desc)
				want := sign(strings.Compare(strs[i], strs[j]))
				if desc {
					want = -want
				}
				e.Res.Evaluations++
				e.count("json_pair")
				if sign(bytes.Compare(ea, eb)) != want {
					e.violate("json-order", fmt.Sprintf("json strings %q %q desc=%v", strs[i], strs[j], desc), map[string]any{"a": strs[i], "b": strs[j], "desc": desc})
				}
			}
			enc := verifhook.EncodeFieldValue(nil, mk(strs[i]), desc)
			_, nv, err := verifhook.DecodeFieldValue(enc, desc, client.FieldKind_NILLABLE_JSON)
			if err != nil {
				e.violate("json-roundtrip", fmt.Sprintf("json string %q desc=%v: %v", strs[i], desc, err), map[string]any{"v": strs[i], "desc": desc})
			} else if j, ok := nv.JSON(); ok {
				if s, ok := j.String(); !ok || s != strs[i] {
					e.violate("json-roundtrip", fmt.Sprintf("json string %q desc=%v read back %q", strs[i], desc, s), map[string]any{"v": strs[i], "desc": desc})
				}
			}
		}
	}
	_ = r
}

func init() { engines["codec"] = engCodec }
