package main

import (
	"context"
	"crypto/ed25519"
	"fmt"
	"os"
	"sort"
	"strings"
	"time"
)

// Scripted scenarios with more than one replicator target and with targets that are unreachable when the replicator is
// configured or when the source restarts (C14: the peer configuration after a restart routes exactly as before; C15:
// every write made while a replicator is configured reaches it once it is reachable).

func dumpCol(ctx context.Context, x *Nd, col, fields string) string {
	d, errs := x.gql(ctx, fmt.Sprintf(`query { %s { %s } }`, col, fields))
	var rs []string
	for _, r := range rowsOf(d, col) {
		rs = append(rs, canonJSON(r))
	}
	sort.Strings(rs)
	return strings.Join(rs, "\n") + errs
}

func waitUntil(d time.Duration, f func() bool) bool {
	deadline := time.Now().Add(d)
	for time.Now().Before(deadline) {
		if f() {
			return true
		}
		time.Sleep(150 * time.Millisecond)
	}
	return f()
}

func replMultiScenarios(e *Env, basePort int) {
	ctx := context.Background()
	mk := func(name string, port int) *p2pNode {
		_, key, _ := ed25519.GenerateKey(nil)
		dir, err := os.MkdirTemp("/var/tmp", "vreplm")
		if err != nil {
			panic(err)
		}
		return &p2pNode{name: name, dir: dir, port: port, key: key}
	}
	sdl := `type User { name: String age: Int }
type Other { title: String }`
	// ---- 1: two replicators with different collection sets, then a restart of the source
	{
		a, b, c := mk("A", basePort), mk("B", basePort+1), mk("C", basePort+2)
		var desc []string
		replay := map[string]any{"events": &desc}
		ok := true
		for _, n := range []*p2pNode{a, b, c} {
			if err := n.open(ctx); err != nil {
				e.violate("harness-repl", "open "+n.name+": "+err.Error(), replay)
				ok = false
				break
			}
			n.x.addSchema(ctx, sdl)
		}
		if ok {
			binfo, cinfo := b.x.n.Peer.PeerInfo(), c.x.n.Peer.PeerInfo()
			// the replicators are stored under their peer ids: configure in both orders of collection sets over the
			// runs by letting the (random) peer ids decide which one is loaded first
			if err := a.x.n.Peer.SetReplicator(ctx, binfo, "User"); err != nil {
				e.violate("harness-repl", "SetReplicator B: "+err.Error(), replay)
			}
			if err := a.x.n.Peer.SetReplicator(ctx, cinfo, "Other"); err != nil {
				e.violate("harness-repl", "SetReplicator C: "+err.Error(), replay)
			}
			desc = append(desc, "A: SetReplicator(B, User)", "A: SetReplicator(C, Other)")
			write := func(i int) {
				a.x.gql(ctx, fmt.Sprintf(`mutation { create_User(input: {name: "u%d", age: %d}) { _docID } }`, i, i))
				a.x.gql(ctx, fmt.Sprintf(`mutation { create_Other(input: {title: "t%d"}) { _docID } }`, i))
				desc = append(desc, fmt.Sprintf("A: create User u%d and Other t%d", i, i))
			}
			check := func(when string) {
				wantU, wantO := dumpCol(ctx, a.x, "User", "name age"), dumpCol(ctx, a.x, "Other", "title")
				conv := waitUntil(20*time.Second, func() bool {
					return dumpCol(ctx, b.x, "User", "name age") == wantU && dumpCol(ctx, c.x, "Other", "title") == wantO
				})
				e.Res.Evaluations++
				if !conv {
					e.violate("replication-incomplete", fmt.Sprintf("%s: B has Users [%s] and C has Others [%s], A has [%s] / [%s]", when, dumpCol(ctx, b.x, "User", "name age"), dumpCol(ctx, c.x, "Other", "title"), wantU, wantO), replay)
				}
				// nothing travels to a peer it was not configured for (give a stray push the time to arrive)
				time.Sleep(1500 * time.Millisecond)
				if bo, cu := dumpCol(ctx, b.x, "Other", "title"), dumpCol(ctx, c.x, "User", "name age"); bo != "" || cu != "" {
					e.violate("peerconfig-routing", fmt.Sprintf("%s: B is a replicator for User only and holds Others [%s]; C is a replicator for Other only and holds Users [%s]", when, bo, cu), replay)
				}
			}
			write(1)
			check("before the restart of A")
			a.close(ctx)
			if err := a.open(ctx); err != nil {
				e.violate("restart-open-failed", "reopen A: "+err.Error(), replay)
			} else {
				desc = append(desc, "A: close and reopen")
				write(2)
				check("after the restart of A")
			}
		}
		for _, n := range []*p2pNode{a, b, c} {
			n.close(ctx)
			os.RemoveAll(n.dir)
		}
		e.count("multi_replicator_restart_scenario")
	}
	// ---- 2: the target is unreachable when the replicator is configured; 3: when the source restarts
	for variant := 0; variant < 2; variant++ {
		a, b := mk("A", basePort+3+2*variant), mk("B", basePort+4+2*variant)
		var desc []string
		replay := map[string]any{"events": &desc}
		if err := a.open(ctx); err != nil {
			e.violate("harness-repl", "open A: "+err.Error(), replay)
			continue
		}
		if err := b.open(ctx); err != nil {
			e.violate("harness-repl", "open B: "+err.Error(), replay)
			a.close(ctx)
			continue
		}
		a.x.addSchema(ctx, sdl)
		b.x.addSchema(ctx, sdl)
		binfo := b.x.n.Peer.PeerInfo()
		a.x.gql(ctx, `mutation { create_User(input: {name: "first", age: 1}) { _docID } }`)
		desc = append(desc, "A: create User first")
		if variant == 0 {
			b.close(ctx)
			desc = append(desc, "B: down")
			if err := a.x.n.Peer.SetReplicator(ctx, binfo); err != nil {
				desc = append(desc, "A: SetReplicator(B) refused: "+err.Error())
				// a refusal is an answer too: nothing was promised
				a.close(ctx)
				os.RemoveAll(a.dir)
				os.RemoveAll(b.dir)
				e.count("replicator_to_unreachable_refused")
				continue
			}
			desc = append(desc, "A: SetReplicator(B) while B is down")
		} else {
			if err := a.x.n.Peer.SetReplicator(ctx, binfo); err != nil {
				e.violate("harness-repl", "SetReplicator: "+err.Error(), replay)
			}
			desc = append(desc, "A: SetReplicator(B)")
			want := dumpCol(ctx, a.x, "User", "name age")
			waitUntil(15*time.Second, func() bool { return dumpCol(ctx, b.x, "User", "name age") == want })
			b.close(ctx)
			desc = append(desc, "B: down")
			a.close(ctx)
			if err := a.open(ctx); err != nil {
				e.violate("restart-open-failed", "reopen A: "+err.Error(), replay)
				os.RemoveAll(a.dir)
				os.RemoveAll(b.dir)
				continue
			}
			desc = append(desc, "A: close and reopen while B is down")
		}
		time.Sleep(500 * time.Millisecond)
		if err := b.open(ctx); err != nil {
			e.violate("harness-repl", "reopen B: "+err.Error(), replay)
		} else {
			desc = append(desc, "B: up")
			// let the retry of what was pending go through, then write again
			want := dumpCol(ctx, a.x, "User", "name age")
			waitUntil(20*time.Second, func() bool { return dumpCol(ctx, b.x, "User", "name age") == want })
			a.x.gql(ctx, `mutation { create_User(input: {name: "second", age: 2}) { _docID } }`)
			a.x.gql(ctx, `mutation { update_User(filter: {name: {_eq: "first"}}, input: {age: 11}) { _docID } }`)
			desc = append(desc, "A: create User second, update User first")
			want = dumpCol(ctx, a.x, "User", "name age")
			conv := waitUntil(25*time.Second, func() bool { return dumpCol(ctx, b.x, "User", "name age") == want })
			e.Res.Evaluations++
			if !conv {
				kind := "replication-incomplete"
				if variant == 1 {
					kind = "replication-incomplete-after-restart"
				}
				e.violate(kind, fmt.Sprintf("B is up and configured as a replicator of A; A has [%s], B has [%s]", want, dumpCol(ctx, b.x, "User", "name age")), replay)
			}
		}
		a.close(ctx)
		b.close(ctx)
		os.RemoveAll(a.dir)
		os.RemoveAll(b.dir)
		e.count(fmt.Sprintf("unreachable_target_scenario_%d", variant))
	}
	// ---- 4: the target moves to another address; the source is told (SetReplicator again) and later restarts
	{
		a, b := mk("A", basePort+8), mk("B", basePort+9)
		var desc []string
		replay := map[string]any{"events": &desc}
		okA, okB := a.open(ctx) == nil, b.open(ctx) == nil
		if okA && okB {
			a.x.addSchema(ctx, sdl)
			b.x.addSchema(ctx, sdl)
			if err := a.x.n.Peer.SetReplicator(ctx, b.x.n.Peer.PeerInfo()); err != nil {
				e.violate("harness-repl", "SetReplicator: "+err.Error(), replay)
			}
			a.x.gql(ctx, `mutation { create_User(input: {name: "first", age: 1}) { _docID } }`)
			desc = append(desc, "A: SetReplicator(B)", "A: create User first")
			want := dumpCol(ctx, a.x, "User", "name age")
			waitUntil(15*time.Second, func() bool { return dumpCol(ctx, b.x, "User", "name age") == want })
			b.close(ctx)
			b.port = basePort + 10
			if err := b.open(ctx); err != nil {
				e.violate("harness-repl", "reopen B on another port: "+err.Error(), replay)
			} else {
				desc = append(desc, "B: restarts on another port")
				if err := a.x.n.Peer.SetReplicator(ctx, b.x.n.Peer.PeerInfo()); err != nil {
					e.violate("harness-repl", "SetReplicator (new address): "+err.Error(), replay)
				}
				desc = append(desc, "A: SetReplicator(B at its new address)")
				a.x.gql(ctx, `mutation { create_User(input: {name: "second", age: 2}) { _docID } }`)
				desc = append(desc, "A: create User second")
				want = dumpCol(ctx, a.x, "User", "name age")
				conv := waitUntil(25*time.Second, func() bool { return dumpCol(ctx, b.x, "User", "name age") == want })
				e.Res.Evaluations++
				if !conv {
					e.violate("replication-incomplete", fmt.Sprintf("B moved to another address and A was told: A has [%s], B has [%s]", want, dumpCol(ctx, b.x, "User", "name age")), replay)
				}
				a.close(ctx)
				if err := a.open(ctx); err != nil {
					e.violate("restart-open-failed", "reopen A: "+err.Error(), replay)
				} else {
					desc = append(desc, "A: close and reopen")
					reps, _ := a.x.n.Peer.GetAllReplicators(ctx)
					newAddr := fmt.Sprintf("/tcp/%d", b.port)
					for _, rep := range reps {
						if !strings.Contains(fmt.Sprint(rep.Info.Addrs), newAddr) {
							e.violate("peerconfig-replicators", fmt.Sprintf("after the restart GetAllReplicators reports the address %v for B, the address given in the last SetReplicator call ends in %s", rep.Info.Addrs, newAddr), replay)
						}
					}
					a.x.gql(ctx, `mutation { create_User(input: {name: "third", age: 3}) { _docID } }`)
					desc = append(desc, "A: create User third")
					want = dumpCol(ctx, a.x, "User", "name age")
					conv := waitUntil(25*time.Second, func() bool { return dumpCol(ctx, b.x, "User", "name age") == want })
					e.Res.Evaluations++
					if !conv {
						e.violate("replication-incomplete-after-restart", fmt.Sprintf("B moved to another address, A was told and restarted later: A has [%s], B has [%s]", want, dumpCol(ctx, b.x, "User", "name age")), replay)
					}
				}
			}
		} else {
			e.violate("harness-repl", "open A / B failed", replay)
		}
		a.close(ctx)
		b.close(ctx)
		os.RemoveAll(a.dir)
		os.RemoveAll(b.dir)
		e.count("moved_target_scenario")
	}
}
