package main

// Engine "backup" (C18).
// A source node is filled with generated documents: a collection with every scalar / array kind (edge-case values),
// Author <- Book (one-to-many), a self-referencing Emp collection (boss chains of depth 1-3).  Random updates change
// documents after creation (their ids no longer match their content, so export must announce new ids and rewrite
// foreign keys), some documents are deleted.  The database is exported (pretty / compact; all collections or a
// subset), imported into a fresh node with the same schema, and compared:
//   - every source document has exactly one image (the document whose id is the announced _docIDNew) with the same
//     field values for every kind;
//   - every relation of the source holds between the images;
//   - nothing else exists in the target;
//   - exporting the target again gives a file equivalent to the first (ids already match content);
//   - an import file that fails in the middle leaves the target unchanged (atomicity).
// For runs in which the direct comparison succeeds, the id-changes announced by the file are compared with the Coq
// model (Backup/Backup.v: newid).

import (
	"context"
	"encoding/json"
	"fmt"
	"os"
	"path/filepath"
	"sort"
	"strings"

	"github.com/sourcenetwork/defradb/client"
)

const backupSDL = `
type Item { k: Int i: Int f: Float s: String b: Boolean d: DateTime bl: Blob j: JSON ai: [Int!] as: [String!] ab: [Boolean!] af: [Float!] nai: [Int] di: Int @default(int: 7) ds: String @default(string: "dflt") }
type Author { k: Int name: String rating: Int books: [Book] }
type Book { k: Int title: String pages: Int author: Author }
type Emp { k: Int name: String boss: Emp @primary @relation(name: "boss_minion") minion: Emp @relation(name: "boss_minion") }
type Staff { k: Int name: String boss: Staff @relation(name: "staff_boss") minions: [Staff] @relation(name: "staff_boss") }
`

type bdoc struct {
	col     string
	k       int
	id      string
	version int    // number of value updates since creation
	fkField string // "" or author / boss
	fk      *bdoc  // current target
	fk0     *bdoc  // target at creation
	deleted bool
	fields  map[string]string // gql literals of scalar fields (current)
}

func bkItemFields(r *Rng) map[string]string {
	f := map[string]string{}
	opt := func(name string, vals []string) {
		if r.Chance(75) {
			f[name] = Pick(r, vals)
		}
	}
	opt("i", []string{"0", "-1", "7", "2147483647", "-2147483648", "123456"})
	opt("f", []string{"0.5", "-0.25", "3.0", "1e10", "1.5e-7", "123456.789", "9007199254740993.0"})
	opt("s", []string{`""`, `"a"`, `"hello world"`, `"ünï ✓"`, `"with \"quote\" and \\ backslash"`, `"line\nbreak"`, `"<html>&amp;"`})
	opt("b", []string{"true", "false"})
	opt("d", []string{`"2020-01-02T03:04:05Z"`, `"1999-12-31T23:59:59.123456789Z"`, `"2024-02-29T12:00:00.5Z"`, `"1970-01-01T00:00:00Z"`, `"2017-07-23T03:46:56-05:00"`})
	opt("bl", []string{`"00ff"`, `"deadbeef"`, `"0123456789abcdef"`})
	opt("j", []string{`{a: 1, b: [true, null]}`, `"str"`, `[1, 2, 3]`, `{z: {y: "x"}, a: 0.5}`, `12`, `true`})
	opt("ai", []string{`[]`, `[1, -2, 3]`, `[2147483647]`})
	opt("as", []string{`[]`, `["a", ""]`, `["x y", "ü"]`})
	opt("ab", []string{`[]`, `[true, false]`})
	opt("af", []string{`[]`, `[0.5, -1.25]`, `[1e10]`})
	opt("nai", []string{`[]`, `[1, null, 3]`, `[null]`})
	// fields with a default value: left out (the default applies), set, or explicitly null
	opt("di", []string{"null", "null", "7", "0", "42"})
	opt("ds", []string{"null", "null", `"dflt"`, `""`, `"other"`})
	return f
}

// idChanges: will the document get a new id when re-created from its current content?
func idChanges(b *bdoc) bool {
	return b.version > 0 || (b.fk != nil && b.fk != b && idChanges(b.fk))
}

func gqlInput(fields map[string]string) string {
	var ks []string
	for k := range fields {
		ks = append(ks, k)
	}
	sort.Strings(ks)
	var parts []string
	for _, k := range ks {
		parts = append(parts, k+": "+fields[k])
	}
	return strings.Join(parts, ", ")
}

var bkSelect = map[string]string{
	"Item":   "_docID k i f s b d bl j ai as ab af nai di ds",
	"Author": "_docID k name rating",
	"Book":   "_docID k title pages author_id",
	"Emp":    "_docID k name boss_id",
	"Staff":  "_docID k name boss_id",
}

// dump returns per collection: docID -> canonical row (relation ids left in place)
func bkDump(ctx context.Context, x *Nd) (map[string]map[string]map[string]any, string) {
	out := map[string]map[string]map[string]any{}
	for col, sel := range bkSelect {
		d, errs := x.gql(ctx, fmt.Sprintf(`query { %s { %s } }`, col, sel))
		if errs != "" {
			return nil, errs
		}
		out[col] = map[string]map[string]any{}
		for _, row := range rowsOf(d, col) {
			out[col][fmt.Sprint(row["_docID"])] = row
		}
	}
	return out, ""
}

func engBackup(e *Env) {
	ctx := context.Background()
	r := NewRng(e.Seed)
	e.Res.Rule = "per round: 3-8 Items over 13 kinds, 1-3 Authors, 2-6 Books, 3-7 Emps in boss chains of depth <= 3 (self reference in 15%); 0-6 updates of scalar values or of relations, 0-2 deletions; export pretty/compact, all collections or a subset; distinct = distinct round shape (counts, updated set, chain shape, format); non-trivial = a document referenced by another one changed its id"
	rounds := 10
	if e.thorough() {
		rounds = 250
	}
	tmp, err := os.MkdirTemp("/var/tmp", "vbackup")
	if err != nil {
		panic(err)
	}
	defer os.RemoveAll(tmp)
	var cases []string
	for ri := 0; ri < rounds; ri++ {
		src := newNd(ctx, "S")
		src.noEvents()
		src.addSchema(ctx, backupSDL)
		var docs []*bdoc
		var desc []string
		replay := map[string]any{"operations": &desc}
		kc := 0
		create := func(col string, fields map[string]string, fkField string, fk *bdoc) *bdoc {
			kc++
			fields["k"] = fmt.Sprint(kc)
			in := gqlInput(fields)
			if fk != nil {
				in += fmt.Sprintf(`, %s: "%s"`, fkField, fk.id)
			}
			q := fmt.Sprintf(`mutation { create_%s(input: {%s}) { _docID } }`, col, in)
			d, errs := src.gql(ctx, q)
			desc = append(desc, q+" "+errs)
			if errs != "" {
				e.violate("harness-backup", "create rejected: "+errs, replay)
				return nil
			}
			b := &bdoc{col: col, k: kc, id: fmt.Sprint(rowsOf(d, "create_"+col)[0]["_docID"]), fkField: fkField, fk: fk, fk0: fk, fields: fields}
			docs = append(docs, b)
			return b
		}
		for n := 3 + r.Intn(6); n > 0; n-- {
			create("Item", bkItemFields(r), "", nil)
		}
		var authors, emps []*bdoc
		for n := 1 + r.Intn(3); n > 0; n-- {
			if a := create("Author", map[string]string{"name": fmt.Sprintf(`"au%d"`, r.Intn(1000)), "rating": fmt.Sprint(r.Intn(10))}, "", nil); a != nil {
				authors = append(authors, a)
			}
		}
		for n := 2 + r.Intn(5); n > 0 && len(authors) > 0; n-- {
			var au *bdoc
			if r.Chance(85) {
				au = Pick(r, authors)
			}
			create("Book", map[string]string{"title": fmt.Sprintf(`"t%d"`, r.Intn(1000)), "pages": fmt.Sprint(r.Intn(500))}, "author", au)
		}
		// boss chains: one-to-one, so every Emp is the boss of at most one other
		hasMinion := map[*bdoc]bool{}
		for n := 3 + r.Intn(5); n > 0; n-- {
			var boss *bdoc
			if len(emps) > 0 && r.Chance(70) {
				var free []*bdoc
				for _, em := range emps {
					if !hasMinion[em] {
						free = append(free, em)
					}
				}
				if len(free) > 0 {
					boss = Pick(r, free)
				}
			}
			if em := create("Emp", map[string]string{"name": fmt.Sprintf(`"e%d"`, r.Intn(1000))}, "boss", boss); em != nil {
				emps = append(emps, em)
				if boss != nil {
					hasMinion[boss] = true
				}
			}
		}
		// self reference: an Emp without boss becomes its own boss (35% of the rounds); later Emps may report to it
		selfRef := false
		if r.Chance(35) {
			for _, em := range emps {
				if em.fk == nil && !hasMinion[em] {
					q := fmt.Sprintf(`mutation { update_Emp(docID: "%s", input: {boss: "%s"}) { _docID } }`, em.id, em.id)
					_, errs := src.gql(ctx, q)
					desc = append(desc, q+" "+errs)
					if errs == "" {
						selfRef = true
						e.count("rounds_with_self_reference")
						if r.Chance(60) {
							q := fmt.Sprintf(`mutation { update_Emp(docID: "%s", input: {name: "selfupd%d"}) { _docID } }`, em.id, kc)
							_, errs := src.gql(ctx, q)
							desc = append(desc, q+" "+errs)
						}
					}
					break
				}
			}
		}
		// one-to-many self relation: trees of Staff; a root may be its own boss, be updated, and get further minions
		var staff []*bdoc
		allowStaffSelf := r.Chance(40)
		for n := 2 + r.Intn(5); n > 0; n-- {
			var boss *bdoc
			if len(staff) > 0 && r.Chance(70) {
				boss = Pick(r, staff)
			}
			if st := create("Staff", map[string]string{"name": fmt.Sprintf(`"s%d"`, r.Intn(1000))}, "boss", boss); st != nil {
				staff = append(staff, st)
			}
			if allowStaffSelf && r.Chance(30) {
				for _, st := range staff {
					if st.fk == nil {
						q := fmt.Sprintf(`mutation { update_Staff(docID: "%s", input: {boss: "%s", name: "own-boss-%d"}) { _docID } }`, st.id, st.id, kc)
						_, errs := src.gql(ctx, q)
						desc = append(desc, q+" "+errs)
						if errs == "" {
							selfRef = true
							st.fk = st
							st.version++
							e.count("staff_self_reference")
						}
						break
					}
				}
			}
		}
		// large integers cannot be written as GraphQL literals (32 bit): use the document API
		for _, big := range []string{"9007199254740993", "-9007199254740993", "4611686018427387907"} {
			if r.Chance(40) || ri == 0 {
				kc++
				js := fmt.Sprintf(`{"k": %d, "i": %s, "ai": [%s, 1]}`, kc, big, big)
				col := getCol(ctx, src, "Item")
				doc, err := client.NewDocFromJSON([]byte(js), col.Definition())
				if err == nil {
					err = col.Create(ctx, doc)
				}
				desc = append(desc, "Item.Create "+js)
				if err != nil {
					e.violate("harness-backup", "create rejected: "+err.Error(), replay)
				} else {
					docs = append(docs, &bdoc{col: "Item", k: kc, id: doc.ID().String(), fields: map[string]string{}})
				}
			}
		}
		// the first round always contains a chain c -> b -> a with a updated after creation
		if ri == 0 {
			ca := create("Emp", map[string]string{"name": `"chain-a"`}, "boss", nil)
			cb := create("Emp", map[string]string{"name": `"chain-b"`}, "boss", ca)
			create("Emp", map[string]string{"name": `"chain-c"`}, "boss", cb)
			if ca != nil {
				q := fmt.Sprintf(`mutation { update_Emp(docID: "%s", input: {name: "chain-a2"}) { _docID } }`, ca.id)
				_, errs := src.gql(ctx, q)
				desc = append(desc, q+" "+errs)
				ca.version++
			}
		}
		// updates
		nontrivial := false
		for n := r.Intn(7); n > 0; n-- {
			b := Pick(r, docs)
			if b.deleted {
				continue
			}
			var set string
			switch b.col {
			case "Item":
				set = fmt.Sprintf(`s: "upd%d"`, 1000+kc+n)
			case "Author":
				set = fmt.Sprintf(`name: "upd%d"`, 1000+kc+n)
			case "Book":
				set = fmt.Sprintf(`title: "upd%d"`, 1000+kc+n)
			default:
				set = fmt.Sprintf(`name: "upd%d"`, 1000+kc+n)
			}
			q := fmt.Sprintf(`mutation { update_%s(docID: "%s", input: {%s}) { _docID } }`, b.col, b.id, set)
			_, errs := src.gql(ctx, q)
			desc = append(desc, q+" "+errs)
			if errs == "" {
				b.version++
			}
		}
		for n := r.Intn(3); n > 0; n-- {
			b := Pick(r, docs)
			referenced := false
			for _, o := range docs {
				if o.fk == b && !o.deleted {
					referenced = true
				}
			}
			if b.deleted || referenced {
				continue
			}
			q := fmt.Sprintf(`mutation { delete_%s(docID: "%s") { _docID } }`, b.col, b.id)
			_, errs := src.gql(ctx, q)
			desc = append(desc, q+" "+errs)
			if errs == "" {
				b.deleted = true
			}
		}
		for _, b := range docs {
			if b.fk != nil && !b.deleted && b.fk.version > 0 {
				nontrivial = true
			}
		}

		byID := map[string]*bdoc{}
		for _, b := range docs {
			byID[b.id] = b
		}
		pretty := r.Bool()
		var subset []string
		if r.Chance(25) {
			subset = []string{"Item", "Author", "Book"}
		}
		file1 := filepath.Join(tmp, fmt.Sprintf("b%d_1.json", ri))
		if err := src.n.DB.BasicExport(ctx, &client.BackupConfig{Filepath: file1, Pretty: pretty, Collections: subset}); err != nil {
			e.violate("export-failed", err.Error(), replay)
			src.close(ctx)
			continue
		}
		raw1, _ := os.ReadFile(file1)
		replay["export_file"] = string(raw1)
		replay["pretty"], replay["collections"] = pretty, subset
		var file map[string][]map[string]any
		dec := json.NewDecoder(strings.NewReader(string(raw1)))
		dec.UseNumber()
		if err := dec.Decode(&file); err != nil {
			e.violate("export-file-invalid", err.Error(), replay)
			src.close(ctx)
			continue
		}
		newID := map[string]string{}
		for _, rows := range file {
			for _, row := range rows {
				newID[fmt.Sprint(row["_docID"])] = fmt.Sprint(row["_docIDNew"])
			}
		}
		srcDump, errs := bkDump(ctx, src)
		if errs != "" {
			e.violate("harness-backup", errs, replay)
		}
		tgt := newNd(ctx, "T")
		tgt.noEvents()
		tgt.addSchema(ctx, backupSDL)
		bad := false
		if err := tgt.n.DB.BasicImport(ctx, file1); err != nil {
			e.violate("import-failed", "import of the exported file failed: "+err.Error(), replay)
			bad = true
		}
		tgtDump, errs := bkDump(ctx, tgt)
		if errs != "" {
			e.violate("harness-backup", errs, replay)
			bad = true
		}
		inSubset := func(col string) bool {
			if len(subset) == 0 {
				return true
			}
			for _, c := range subset {
				if c == col {
					return true
				}
			}
			return false
		}
		if !bad {
			for col, rows := range srcDump {
				if !inSubset(col) {
					if len(tgtDump[col]) != 0 {
						e.violate("import-extra", fmt.Sprintf("collection %s was not exported but has %d documents after import", col, len(tgtDump[col])), replay)
						bad = true
					}
					continue
				}
				if len(tgtDump[col]) != len(rows) {
					e.violate("roundtrip-count", fmt.Sprintf("%s: %d documents exported, %d after import", col, len(rows), len(tgtDump[col])), replay)
					bad = true
				}
				for id, row := range rows {
					e.Res.Evaluations++
					nid, ok := newID[id]
					if !ok {
						e.violate("roundtrip-missing", fmt.Sprintf("%s %s is not in the export file", col, id), replay)
						bad = true
						continue
					}
					trow, ok := tgtDump[col][nid]
					if !ok {
						e.violate("roundtrip-missing", fmt.Sprintf("%s k=%v: no document with the announced id %s after import (old id %s)", col, row["k"], nid, id), replay)
						bad = true
						continue
					}
					for f, v := range row {
						if f == "_docID" {
							continue
						}
						want := canonJSON(v)
						if strings.HasSuffix(f, "_id") && v != nil {
							if m, ok := newID[fmt.Sprint(v)]; ok {
								want = canonJSON(m)
							}
						}
						if canonJSON(trow[f]) != want {
							kind := "roundtrip-value"
							note := ""
							if strings.HasSuffix(f, "_id") {
								kind = "roundtrip-relation"
								// is the referenced document one whose id changes only because its own foreign key is rewritten?
								if b := byID[id]; b != nil && b.fk != nil && b.fk.fk != nil && b.fk.fk != b.fk && idChanges(b.fk.fk) && tgtDump[col][fmt.Sprint(trow[f])] == nil {
									note = " [chain: the referenced document itself references a document whose id changes; the imported reference dangles]"
								}
							}
							e.violate(kind, fmt.Sprintf("%s k=%v field %s: source %s (expected %s after id mapping), imported %s%s", col, row["k"], f, canonJSON(v), want, canonJSON(trow[f]), note), replay)
							bad = true
						}
					}
				}
			}
		}
		// re-export of the target
		if !bad {
			file2 := filepath.Join(tmp, fmt.Sprintf("b%d_2.json", ri))
			if err := tgt.n.DB.BasicExport(ctx, &client.BackupConfig{Filepath: file2, Pretty: pretty, Collections: subset}); err != nil {
				e.violate("export-failed", "re-export: "+err.Error(), replay)
			} else {
				raw2, _ := os.ReadFile(file2)
				var f2 map[string][]map[string]any
				d2 := json.NewDecoder(strings.NewReader(string(raw2)))
				d2.UseNumber()
				_ = d2.Decode(&f2)
				canonFile := func(f map[string][]map[string]any, useNew bool) string {
					var out []string
					for col, rows := range f {
						for _, row := range rows {
							c := map[string]any{}
							for k, v := range row {
								c[k] = v
							}
							if useNew {
								c["_docID"] = c["_docIDNew"]
							}
							out = append(out, col+canonJSON(c))
						}
					}
					sort.Strings(out)
					return strings.Join(out, "\n")
				}
				e.Res.Evaluations++
				if canonFile(file, true) != canonFile(f2, false) {
					e.violate("reexport-differs", "exporting the imported database does not reproduce the first export (modulo _docID := _docIDNew)", map[string]any{"operations": desc, "first": string(raw1), "second": string(raw2)})
					bad = true
				}
			}
		}
		// atomicity: a file whose last entry is invalid must leave a fresh target empty
		{
			t2 := newNd(ctx, "T2")
			t2.noEvents()
			t2.addSchema(ctx, backupSDL)
			broken := map[string][]map[string]any{}
			for col, rows := range file {
				broken[col] = append([]map[string]any{}, rows...)
			}
			broken["Author"] = append(broken["Author"], map[string]any{"_docID": "x", "_docIDNew": "x", "rating": "not a number"})
			bb, _ := json.Marshal(broken)
			bf := filepath.Join(tmp, fmt.Sprintf("b%d_broken.json", ri))
			_ = os.WriteFile(bf, bb, 0o644)
			err := t2.n.DB.BasicImport(ctx, bf)
			d, _ := bkDump(ctx, t2)
			total := 0
			for _, rows := range d {
				total += len(rows)
			}
			e.Res.Evaluations++
			if err == nil {
				e.violate("harness-backup", "the broken import file was accepted", replay)
			} else if total != 0 {
				e.violate("import-not-atomic", fmt.Sprintf("the import failed (%v) but left %d documents behind", err, total), replay)
			}
			t2.close(ctx)
		}
		// Coq case: which documents changed their id
		if !bad && !selfRef {
			idx := map[*bdoc]int{}
			var live []*bdoc
			for _, b := range docs {
				if !b.deleted && inSubset(b.col) {
					idx[b] = len(live)
					live = append(live, b)
				}
			}
			colNo := map[string]int{"Item": 0, "Author": 1, "Book": 2, "Emp": 3, "Staff": 4}
			var term func(b *bdoc) string
			term = func(b *bdoc) string {
				fk := ""
				if b.fkField != "" {
					if b.fk0 != nil {
						fk = "Some (" + term(b.fk0) + ")"
					} else {
						fk = "None"
					}
				}
				return fmt.Sprintf("Hid %d [%d] [%s]", colNo[b.col], int64(b.k)*1000, fk)
			}
			var ds, obs []string
			okCase := true
			for _, b := range live {
				fk := ""
				if b.fkField != "" {
					if b.fk != nil {
						j, ok := idx[b.fk]
						if !ok {
							okCase = false
						}
						fk = fmt.Sprintf("Some %d%%nat", j)
					} else {
						fk = "None"
					}
				}
				ds = append(ds, fmt.Sprintf("{| d_col := %d; d_id := %s; d_vals := [%d]; d_fks := [%s] |}", colNo[b.col], term(b), int64(b.k)*1000+int64(b.version), fk))
				obs = append(obs, coqBool(newID[b.id] != b.id))
			}
			if okCase {
				cases = append(cases, fmt.Sprintf("BkCase [%s] [%s]", strings.Join(ds, "; "), strings.Join(obs, "; ")))
			}
		}
		shape := fmt.Sprintf("%d|%v|%v", len(docs), pretty, subset)
		for _, b := range docs {
			shape += fmt.Sprintf("|%s%d%v", b.col[:1], b.version, b.fk != nil)
		}
		if nontrivial {
			e.distinct(shape)
		}
		e.count(fmt.Sprintf("pretty_%v_subset_%v", pretty, len(subset) > 0))
		if ri == 0 {
			e.sample(map[string]any{"operations": desc})
		}
		src.close(ctx)
		tgt.close(ctx)
	}
	e.writeCasesSharded("cases_C18", "CorrC18", "bkcase", cases, 300)
}

func init() { engines["backup"] = engBackup }
