package main

// Engine "join" (C09): relations read the same from both sides. Twin schemas (with / without indexes on the foreign
// key and on the filtered fields, so that the planner may invert the join) over one-to-many, one-to-one and
// self-referencing relations, with link / unlink / delete histories. Oracles on the implementation:
//   membership - (parent, child) pairs listed from the parent side, from the child side, and by filtering the
//                child on <rel>_id all equal the links the harness wrote;
//   filters    - Parent(filter:{children:{f:c}}) = parents having a child with c; Child(filter:{parent:{f:c}}) =
//                children whose parent satisfies c; with compound conditions on own fields; on both twins;
//   one-to-one - a second link to the same target is rejected; no target is ever held by two documents.
// The link tables and the observed pair sets are written as Coq cases (Query/Join.v).

import (
	"context"
	"fmt"
	"sort"
	"strings"
)

type jdoc struct {
	id    string
	k     int
	a, b  int64 // two int fields (rating/pages ...)
	fk    int   // k of the parent, -1 none
	alive bool
}

// compositeUniqueAd: when set, the one-to-one primary side carries a composite unique index whose first field is the
// relation id (it constrains the pair, not the link)
var compositeUniqueAd bool

func joinSchemas(c int, indexed bool) string {
	if compositeUniqueAd {
		return fmt.Sprintf(`
type Au%[1]d { k: Int rating: Int name: String books: [Bk%[1]d] addr: Ad%[1]d }
type Bk%[1]d { k: Int pages: Int title: String author: Au%[1]d }
type Ad%[1]d @index(unique: true, includes: [{field: "owner_id"}, {field: "city"}]) { k: Int city: String owner: Au%[1]d @primary }
`, c)
	}
	ix := func(s string) string {
		if indexed {
			return s + " @index"
		}
		return s
	}
	fkidx := ""
	if indexed {
		fkidx = " @index"
	}
	_ = fkidx
	return fmt.Sprintf(`
type Au%[1]d { k: Int %[2]s %[3]s books: [Bk%[1]d] addr: Ad%[1]d }
type Bk%[1]d { k: Int %[4]s %[5]s author: Au%[1]d %[6]s }
type Ad%[1]d { k: Int city: String owner: Au%[1]d @primary %[6]s }
`, c, ix("rating: Int"), "name: String", ix("pages: Int"), "title: String", map[bool]string{true: "@index", false: ""}[indexed])
}

func engJoin(e *Env) {
	ctx := context.Background()
	r := NewRng(e.Seed)
	e.Res.Rule = "topologies: one-to-many Author-Book, one-to-one Author-Address (primary on Address), 4-8 parents, 6-16 children incl. unlinked ones; histories of link / relink / unlink / delete; each relation read from the parent side, from the child side and by foreign key; filters reaching through the relation in both directions combined with own-field conditions; twin without / with indexes (foreign key, filtered fields); distinct = distinct (schema, request)"
	nWorlds, nQ := 6, 40
	if e.thorough() {
		nWorlds, nQ = 80, 120
	}
	x := newNd(ctx, "J")
	x.noEvents()
	defer x.close(ctx)
	var cases []string
	for wi := 0; wi < nWorlds; wi++ {
		indexed := wi%2 == 1
		compositeUniqueAd = wi%3 == 2
		if compositeUniqueAd {
			indexed = false
			e.count("worlds_with_composite_unique_index_on_the_link")
		}
		x.addSchema(ctx, joinSchemas(wi, indexed))
		au, bk, ad := fmt.Sprintf("Au%d", wi), fmt.Sprintf("Bk%d", wi), fmt.Sprintf("Ad%d", wi)
		e.count(fmt.Sprintf("indexed_%v", indexed))
		var authors, books []*jdoc
		var mutLog []string
		gq := func(q string) (map[string]any, string) {
			mutLog = append(mutLog, q)
			return x.gql(ctx, q)
		}
		np := 4 + r.Intn(5)
		for i := 0; i < np; i++ {
			d := &jdoc{k: i, a: int64(r.Intn(5)), alive: true, fk: -1}
			data, errs := gq(fmt.Sprintf(`mutation { create_%s(input: {k: %d, rating: %d, name: "a%d"}) { _docID } }`, au, d.k, d.a, i))
			if errs != "" {
				e.violate("join-setup", errs, nil)
				continue
			}
			d.id = fmt.Sprint(rowsOf(data, "create_"+au)[0]["_docID"])
			authors = append(authors, d)
		}
		nc := 6 + r.Intn(11)
		for i := 0; i < nc; i++ {
			d := &jdoc{k: i, a: int64(r.Intn(7)), alive: true, fk: -1}
			link := ""
			if r.Chance(80) && len(authors) > 0 {
				p := Pick(r, authors)
				d.fk = p.k
				link = fmt.Sprintf(`, author_id: "%s"`, p.id)
			}
			data, errs := gq(fmt.Sprintf(`mutation { create_%s(input: {k: %d, pages: %d, title: "t%d"%s}) { _docID } }`, bk, d.k, d.a, i, link))
			if errs != "" {
				e.violate("join-setup", errs, nil)
				continue
			}
			d.id = fmt.Sprint(rowsOf(data, "create_"+bk)[0]["_docID"])
			books = append(books, d)
		}
		// history: relink / unlink / delete
		for m := 0; m < 3+r.Intn(5); m++ {
			b := Pick(r, books)
			if !b.alive {
				continue
			}
			switch r.Intn(4) {
			case 0:
				if _, errs := gq(fmt.Sprintf(`mutation { update_%s(docID: "%s", input: {author_id: null}) { _docID } }`, bk, b.id)); errs == "" {
					b.fk = -1
				}
			case 1:
				if _, errs := gq(fmt.Sprintf(`mutation { delete_%s(docID: "%s") { _docID } }`, bk, b.id)); errs == "" {
					b.alive = false
				}
			default:
				p := Pick(r, authors)
				if _, errs := gq(fmt.Sprintf(`mutation { update_%s(docID: "%s", input: {author_id: "%s"}) { _docID } }`, bk, b.id, p.id)); errs == "" {
					b.fk = p.k
				}
			}
		}
		replay := func(q string) map[string]any {
			return map[string]any{"schema": joinSchemas(wi, indexed), "mutations": mutLog, "request": q}
		}
		// ---- membership from three sides
		wantPairs := map[string]bool{}
		for _, b := range books {
			if b.alive && b.fk >= 0 {
				wantPairs[fmt.Sprintf("%d-%d", b.fk, b.k)] = true
			}
		}
		pairsFromParent := map[string]bool{}
		q1 := fmt.Sprintf(`query { %s { k books { k } } }`, au)
		d1, e1 := x.gql(ctx, q1)
		for _, row := range rowsOf(d1, au) {
			for _, ch := range rowsOf(row, "books") {
				pairsFromParent[fmt.Sprintf("%v-%v", row["k"], ch["k"])] = true
			}
		}
		pairsFromChild := map[string]bool{}
		q2 := fmt.Sprintf(`query { %s { k author { k } } }`, bk)
		d2, e2 := x.gql(ctx, q2)
		for _, row := range rowsOf(d2, bk) {
			if a, ok := row["author"].(map[string]any); ok && a != nil {
				pairsFromChild[fmt.Sprintf("%v-%v", a["k"], row["k"])] = true
			}
		}
		pairsByFK := map[string]bool{}
		for _, a := range authors {
			q3 := fmt.Sprintf(`query { %s(filter: {author_id: {_eq: "%s"}}) { k } }`, bk, a.id)
			d3, e3 := x.gql(ctx, q3)
			if e3 != "" {
				e.violate("join-error", e3, replay(q3))
			}
			for _, row := range rowsOf(d3, bk) {
				pairsByFK[fmt.Sprintf("%d-%v", a.k, row["k"])] = true
			}
		}
		e.Res.Evaluations += 3
		if e1 != "" || e2 != "" {
			e.violate("join-error", e1+e2, replay(q1))
		}
		ks := func(m map[string]bool) string { return strings.Join(sortedKeys(m), " ") }
		if ks(pairsFromParent) != ks(wantPairs) {
			e.violate("membership-parent-side", fmt.Sprintf("Author{books} lists pairs [%s], the links written are [%s]", ks(pairsFromParent), ks(wantPairs)), replay(q1))
		}
		if ks(pairsFromChild) != ks(wantPairs) {
			e.violate("membership-child-side", fmt.Sprintf("Book{author} lists pairs [%s], the links written are [%s]", ks(pairsFromChild), ks(wantPairs)), replay(q2))
		}
		if ks(pairsByFK) != ks(wantPairs) {
			e.violate("membership-by-foreign-key", fmt.Sprintf("Book(filter author_id) lists pairs [%s], the links written are [%s]", ks(pairsByFK), ks(wantPairs)), replay("author_id filter"))
		}
		// ---- filters through the relation
		parentOf := map[int]*jdoc{}
		for _, a := range authors {
			parentOf[a.k] = a
		}
		ops := []string{"_eq", "_ne", "_gt", "_ge", "_lt", "_le"}
		cmp := func(op string, v, c int64) bool {
			switch op {
			case "_eq":
				return v == c
			case "_ne":
				return v != c
			case "_gt":
				return v > c
			case "_ge":
				return v >= c
			case "_lt":
				return v < c
			}
			return v <= c
		}
		// an unlinked child has no parent: the parent's field reads null, which only _ne matches
		prating := func(b *jdoc, op string, c int64) bool {
			if b.fk < 0 {
				return op == "_ne"
			}
			return cmp(op, parentOf[b.fk].a, c)
		}
		for qi := 0; qi < nQ; qi++ {
			op, c := Pick(r, ops), int64(r.Intn(7))
			op2, c2 := Pick(r, ops), int64(r.Intn(7))
			var q, col string
			want := map[string]bool{}
			switch r.Intn(5) {
			case 4: // parents having ONE child that satisfies two conditions at once (one field indexed, one not)
				col = au
				if len(books) > 0 {
					c2 = int64(Pick(r, books).k)
				}
				q = fmt.Sprintf(`query { %s(filter: {books: {pages: {%s: %d}, k: {%s: %d}}}) { k } }`, au, op, c, op2, c2)
				for _, b := range books {
					if b.alive && b.fk >= 0 && cmp(op, b.a, c) && cmp(op2, int64(b.k), c2) {
						want[fmt.Sprint(b.fk)] = true
					}
				}
			case 0: // parents having a child with pages op c
				col = au
				q = fmt.Sprintf(`query { %s(filter: {books: {pages: {%s: %d}}}) { k } }`, au, op, c)
				for _, b := range books {
					if b.alive && b.fk >= 0 && cmp(op, b.a, c) {
						want[fmt.Sprint(b.fk)] = true
					}
				}
			case 1: // children whose parent rating op c
				col = bk
				q = fmt.Sprintf(`query { %s(filter: {author: {rating: {%s: %d}}}) { k } }`, bk, op, c)
				for _, b := range books {
					if b.alive && prating(b, op, c) {
						want[fmt.Sprint(b.k)] = true
					}
				}
			case 2: // child side with an own-field condition as well
				col = bk
				q = fmt.Sprintf(`query { %s(filter: {author: {rating: {%s: %d}}, pages: {%s: %d}}) { k } }`, bk, op, c, op2, c2)
				for _, b := range books {
					if b.alive && prating(b, op, c) && cmp(op2, b.a, c2) {
						want[fmt.Sprint(b.k)] = true
					}
				}
			default: // parent side with an own-field condition as well
				col = au
				q = fmt.Sprintf(`query { %s(filter: {books: {pages: {%s: %d}}, rating: {%s: %d}}) { k } }`, au, op, c, op2, c2)
				for _, b := range books {
					if b.alive && b.fk >= 0 && cmp(op, b.a, c) && cmp(op2, parentOf[b.fk].a, c2) {
						want[fmt.Sprint(b.fk)] = true
					}
				}
			}
			data, errs := x.gql(ctx, q)
			e.Res.Evaluations++
			e.distinct(q)
			if errs != "" {
				e.violate("join-error", errs, replay(q))
				continue
			}
			got := map[string]bool{}
			dup := false
			for _, row := range rowsOf(data, col) {
				k := fmt.Sprint(row["k"])
				if got[k] {
					dup = true
				}
				got[k] = true
			}
			if ks(got) != ks(want) || dup {
				kind := "join-filter"
				if indexed {
					kind = "join-filter-indexed"
				}
				e.violate(kind, fmt.Sprintf("%s returns k=[%s] (duplicates: %v), the data says [%s]", q, ks(got), dup, ks(want)), replay(q))
			}
			if wi < 2 && qi == 0 {
				e.sample(map[string]any{"request": q, "result_k": sortedKeys(got), "indexed": indexed})
			}
		}
		// ---- ordering through the relation: every live child is listed, in the order of its parent's field (a child
		// without parent has a null key: first ascending, last descending)
		obsSeq := map[string]string{"ASC": "None", "DESC": "None"}
		var obsAggs []string
		for _, dir := range []string{"ASC", "DESC"} {
			q := fmt.Sprintf(`query { %s(order: {author: {rating: %s}}) { k author { rating } } }`, bk, dir)
			data, errs := x.gql(ctx, q)
			e.Res.Evaluations++
			e.distinct(q)
			if errs != "" {
				e.violate("join-error", errs, replay(q))
				continue
			}
			want, got := map[string]bool{}, map[string]bool{}
			for _, b := range books {
				if b.alive {
					want[fmt.Sprint(b.k)] = true
				}
			}
			var seq []int64
			dupl := false
			for _, row := range rowsOf(data, bk) {
				k := fmt.Sprint(row["k"])
				dupl = dupl || got[k]
				got[k] = true
				key := int64(-1)
				if a, ok := row["author"].(map[string]any); ok && a != nil {
					if v, ok := a["rating"].(int64); ok {
						key = v
					}
				}
				seq = append(seq, key)
			}
			kind := "join-order"
			if indexed {
				kind = "join-order-indexed"
			}
			if ks(got) != ks(want) || dupl {
				// fingerprint of the recorded finding: exactly the live children without a parent are missing
				orphans := map[string]bool{}
				for _, b := range books {
					if b.alive && b.fk < 0 {
						orphans[fmt.Sprint(b.k)] = true
					}
				}
				missing := map[string]bool{}
				for k := range want {
					if !got[k] {
						missing[k] = true
					}
				}
				tag := ""
				if indexed && !dupl && len(got)+len(missing) == len(want) && ks(missing) == ks(orphans) {
					tag = " [exactly the children without a parent are missing]"
				}
				e.violate(kind, fmt.Sprintf("%s lists k=[%s] (duplicates: %v), the live documents are [%s]%s", q, ks(got), dupl, ks(want), tag), replay(q))
			}
			if ks(got) == ks(want) && !dupl {
				// complete listing: its key sequence goes to the model (order_children)
				var zs []string
				for _, v := range seq {
					if v < 0 {
						zs = append(zs, "None")
					} else {
						zs = append(zs, fmt.Sprintf("Some %d", v))
					}
				}
				obsSeq[dir] = "(Some [" + strings.Join(zs, "; ") + "])"
			}
			for i := 1; i < len(seq); i++ {
				if dir == "ASC" && seq[i-1] > seq[i] || dir == "DESC" && seq[i-1] < seq[i] {
					e.violate(kind, fmt.Sprintf("%s: the parents' ratings come in the sequence %v (-1 = no parent)", q, seq), replay(q))
					break
				}
			}
		}
		// ---- aggregates through the relation, from the parent side, against the links written; and the same totals
		// asked from the child side
		{
			c := int64(r.Intn(7))
			q := fmt.Sprintf(`query { %s { k n: _count(books: {}) s: _sum(books: {field: pages}) nf: _count(books: {filter: {pages: {_gt: %d}}}) mx: _max(books: {field: pages}) mn: _min(books: {field: pages}) } }`, au, c)
			data, errs := x.gql(ctx, q)
			e.Res.Evaluations++
			e.distinct(q)
			if errs != "" {
				e.violate("join-error", errs, replay(q))
			}
			for _, row := range rowsOf(data, au) {
				var n, sum, nf int64
				var mx, mn any
				for _, b := range books {
					if b.alive && b.fk >= 0 && fmt.Sprint(b.fk) == fmt.Sprint(row["k"]) {
						n++
						sum += b.a
						if b.a > c {
							nf++
						}
						if mx == nil || b.a > mx.(int64) {
							mx = b.a
						}
						if mn == nil || b.a < mn.(int64) {
							mn = b.a
						}
					}
				}
				{
					var nv, sv int64
					if _, e1 := fmt.Sscanf(fmt.Sprint(row["n"]), "%d", &nv); e1 == nil {
						if _, e2 := fmt.Sscanf(fmt.Sprint(row["s"]), "%d", &sv); e2 == nil {
							obsAggs = append(obsAggs, fmt.Sprintf("(%v%%nat, (%d, %d))", row["k"], nv, sv))
						}
					}
				}
				want := fmt.Sprintf("n=%d s=%d nf=%d mx=%v mn=%v", n, sum, nf, mx, mn)
				got := fmt.Sprintf("n=%v s=%v nf=%v mx=%v mn=%v", row["n"], row["s"], row["nf"], row["mx"], row["mn"])
				if want != got {
					kind := "join-aggregate"
					if indexed {
						kind = "join-aggregate-indexed"
					}
					e.violate(kind, fmt.Sprintf("%s: parent k=%v has %s, its children say %s", q, row["k"], got, want), replay(q))
				}
				// the same number from the child side
				for _, a := range authors {
					if fmt.Sprint(a.k) == fmt.Sprint(row["k"]) && a.k < 3 {
						q2 := fmt.Sprintf(`query { n: _count(%s: {filter: {author: {k: {_eq: %d}}}}) s: _sum(%s: {field: pages, filter: {author_id: {_eq: "%s"}}}) }`, bk, a.k, bk, a.id)
						d2, e2 := x.gql(ctx, q2)
						e.Res.Evaluations++
						if e2 != "" || fmt.Sprint(d2["n"]) != fmt.Sprint(n) || fmt.Sprint(d2["s"]) != fmt.Sprint(sum) {
							e.violate("join-aggregate", fmt.Sprintf("%s returns n=%v s=%v %s, the parent side says n=%d s=%d", q2, d2["n"], d2["s"], e2, n, sum), replay(q2))
						}
					}
				}
			}
		}
		// ---- one-to-one: a target is held by at most one document
		if len(authors) >= 2 {
			a0, a1 := authors[0], authors[1]
			_, e1 := gq(fmt.Sprintf(`mutation { create_%s(input: {k: 0, city: "x", owner_id: "%s"}) { _docID } }`, ad, a0.id))
			_, e2 := gq(fmt.Sprintf(`mutation { create_%s(input: {k: 1, city: "y", owner_id: "%s"}) { _docID } }`, ad, a0.id))
			d3, e3 := gq(fmt.Sprintf(`mutation { create_%s(input: {k: 2, city: "z", owner_id: "%s"}) { _docID } }`, ad, a1.id))
			if e1 != "" || e3 != "" {
				e.violate("one-to-one-setup", e1+e3, nil)
			}
			if e2 == "" {
				e.violate("one-to-one", "a second Address linked to an Author that already has one was accepted", replay("create Address"))
			}
			// relinking k=2 to a0 must be rejected as well
			if rows := rowsOf(d3, "create_"+ad); len(rows) == 1 {
				_, e4 := gq(fmt.Sprintf(`mutation { update_%s(docID: "%s", input: {owner_id: "%s"}) { _docID } }`, ad, rows[0]["_docID"], a0.id))
				if e4 == "" {
					e.violate("one-to-one", "relinking an Address to an Author that already has one was accepted", replay("update Address"))
				}
			}
			dd, _ := x.gql(ctx, fmt.Sprintf(`query { %s { k owner { k } } }`, ad))
			held := map[string]int{}
			for _, row := range rowsOf(dd, ad) {
				if o, ok := row["owner"].(map[string]any); ok && o != nil {
					held[fmt.Sprint(o["k"])]++
				}
			}
			for k, n := range held {
				if n > 1 {
					e.violate("one-to-one", fmt.Sprintf("author %s is held by %d addresses", k, n), replay("addresses"))
				}
			}
			da, _ := x.gql(ctx, fmt.Sprintf(`query { %s { k addr { k } } }`, au))
			fromAuthor := map[string]bool{}
			for _, row := range rowsOf(da, au) {
				if o, ok := row["addr"].(map[string]any); ok && o != nil {
					fromAuthor[fmt.Sprintf("%v-%v", row["k"], o["k"])] = true
				}
			}
			fromAddr := map[string]bool{}
			for _, row := range rowsOf(dd, ad) {
				if o, ok := row["owner"].(map[string]any); ok && o != nil {
					fromAddr[fmt.Sprintf("%v-%v", o["k"], row["k"])] = true
				}
			}
			if ks(fromAuthor) != ks(fromAddr) {
				e.violate("membership-one-to-one", fmt.Sprintf("Author{addr} lists [%s], Address{owner} lists [%s]", ks(fromAuthor), ks(fromAddr)), replay("one-to-one"))
			}
			e.Res.Evaluations += 4
			e.count("one_to_one_probe")
		}
		// ---- Coq case: link table and the pair sets observed from the three sides
		var links []string
		for _, b := range books {
			if b.alive {
				fk := "None"
				if b.fk >= 0 {
					fk = fmt.Sprintf("(Some %d%%nat)", b.fk)
				}
				links = append(links, fmt.Sprintf("(%d%%nat, %s)", b.k, fk))
			}
		}
		var ps []string
		for _, a := range authors {
			ps = append(ps, fmt.Sprint(a.k))
		}
		pairList := func(m map[string]bool) string {
			var out []string
			keys := sortedKeys(m)
			sort.Slice(keys, func(i, j int) bool {
				var a1, b1, a2, b2 int
				fmt.Sscanf(keys[i], "%d-%d", &a1, &b1)
				fmt.Sscanf(keys[j], "%d-%d", &a2, &b2)
				return a1 < a2 || a1 == a2 && b1 < b2
			})
			for _, k := range keys {
				var a, b int
				fmt.Sscanf(k, "%d-%d", &a, &b)
				out = append(out, fmt.Sprintf("(%d%%nat,%d%%nat)", a, b))
			}
			return "[" + strings.Join(out, ";") + "]"
		}
		var ratings, pages []string
		for _, a := range authors {
			ratings = append(ratings, fmt.Sprintf("(%d%%nat, %d)", a.k, a.a))
		}
		for _, b := range books {
			if b.alive {
				pages = append(pages, fmt.Sprintf("(%d%%nat, %d)", b.k, b.a))
			}
		}
		cases = append(cases, fmt.Sprintf("mkJ [%s]%%nat [%s] %s %s %s [%s] [%s] %s %s [%s]", strings.Join(ps, ";"), strings.Join(links, ";"), pairList(pairsFromParent), pairList(pairsFromChild), pairList(pairsByFK),
			strings.Join(ratings, "; "), strings.Join(pages, "; "), obsSeq["ASC"], obsSeq["DESC"], strings.Join(obsAggs, "; ")))
	}
	e.writeCasesSharded("cases_C09", "CorrC09", "jcase", cases, 500)
}

func init() { engines["join"] = engJoin }
