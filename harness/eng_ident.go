package main

// Engine "ident" (C13).
// Part A - document ids: generated documents over every scalar / array kind are built by several routes (JSON with
//   permuted field order, JSON with explicit nulls for absent fields, Go map, GraphQL create on node A, GraphQL
//   create with another input order on node B); all routes must yield the same id.  The key order found in the real
//   Document.Bytes() output is written as a Coq case for Ident/DocId.v (canonical key order of the model).
// Part B - schema ids: generated relation graphs (2-6 types, primary relations incl. self references, parallel
//   relations, relations to types outside the set).  (1) setSchemaIDs (hook) is called repeatedly on permuted copies
//   of the descriptions: VersionID / Root per name must not vary (map-iteration order differs from call to call);
//   the grouping into sets is written as a Coq case for Ident/SchemaSets.v.  (2) the SDL is added to fresh nodes in
//   permuted order and partitioned by connected components into several AddSchema calls: VersionID and CollectionID
//   per type must agree.

import (
	"bytes"
	"context"
	"encoding/json"
	"fmt"
	"sort"
	"strings"

	"github.com/sourcenetwork/defradb/client"
	"github.com/sourcenetwork/defradb/verifhook"
)

type identField struct {
	name string
	kind string
}

var identFields = []identField{
	{"i", "Int"}, {"f", "Float"}, {"s", "String"}, {"b", "Boolean"}, {"d", "DateTime"}, {"bl", "Blob"}, {"j", "JSON"},
	{"ai", "[Int!]"}, {"as", "[String!]"}, {"nb", "[Boolean!]"}, {"af", "[Float!]"}, {"n2", "Int"}, {"str2", "String"}, {"longer_name", "Int"},
}

// a generated value in its three spellings
type identVal struct {
	json string // JSON literal
	gql  string // GraphQL input literal
	goV  any    // for NewDocFromMap
}

func genIdentVal(r *Rng, kind string) identVal {
	switch kind {
	case "Int":
		v := Pick(r, []int64{0, 1, -1, 7, 1 << 31, -(1 << 31), 1<<53 + 1, -(1<<53 + 1), 1<<62 + 3, int64(r.Intn(100000))})
		g := fmt.Sprint(v)
		if v > 1<<31-1 || v < -(1<<31) {
			g = "" // the GraphQL library accepts 32-bit Int literals only: route not available
		}
		return identVal{fmt.Sprint(v), g, v}
	case "Float":
		v := Pick(r, []float64{0.5, -0.25, 3, 1e10, 1.5e-7, 123456.789, -2, float64(r.Intn(1000)) / 8})
		b, _ := json.Marshal(v)
		s := string(b)
		g := s
		if !strings.ContainsAny(g, ".e") {
			g += ".0"
		}
		return identVal{s, g, v}
	case "String":
		v := Pick(r, []string{"", "a", "hello world", "ünï", "with \"quote\"", "line\nbreak", fmt.Sprintf("s%d", r.Intn(1000))})
		b, _ := json.Marshal(v)
		return identVal{string(b), string(b), v}
	case "Boolean":
		v := r.Bool()
		return identVal{fmt.Sprint(v), fmt.Sprint(v), v}
	case "DateTime":
		v := Pick(r, []string{"2020-01-02T03:04:05Z", "1999-12-31T23:59:59.123456789Z", "2024-02-29T12:00:00.5Z", "1970-01-01T00:00:00Z", "2017-07-23T03:46:56-05:00", "2021-03-04T05:06:07.25+09:30"})
		return identVal{`"` + v + `"`, `"` + v + `"`, v}
	case "Blob":
		v := Pick(r, []string{"00ff", "deadbeef", "", "0123456789abcdef"})
		g := `"` + v + `"`
		if v == "" {
			g = "" // the GraphQL Blob scalar rejects the empty string that the document API accepts: route not available
		}
		return identVal{`"` + v + `"`, g, v}
	case "JSON":
		type jv struct {
			j string
			g string
			v any
		}
		c := Pick(r, []jv{
			{`{"a":1,"b":[true,null]}`, `{a: 1, b: [true, null]}`, map[string]any{"a": 1, "b": []any{true, nil}}},
			{`"str"`, `"str"`, "str"},
			{`[1,2,3]`, `[1, 2, 3]`, []any{1, 2, 3}},
			{`{"z":{"y":"x"},"a":0.5}`, `{z: {y: "x"}, a: 0.5}`, map[string]any{"z": map[string]any{"y": "x"}, "a": 0.5}},
		})
		return identVal{c.j, c.g, c.v}
	case "[Int!]":
		n := r.Intn(4)
		var js []string
		v := []int64{}
		for k := 0; k < n; k++ {
			x := int64(r.Intn(2000)) - 1000
			js = append(js, fmt.Sprint(x))
			v = append(v, x)
		}
		s := "[" + strings.Join(js, ",") + "]"
		return identVal{s, s, v}
	case "[Float!]":
		n := r.Intn(3)
		var js, gs []string
		v := []float64{}
		for k := 0; k < n; k++ {
			x := float64(r.Intn(64)) / 4
			b, _ := json.Marshal(x)
			js = append(js, string(b))
			g := string(b)
			if !strings.ContainsAny(g, ".e") {
				g += ".0"
			}
			gs = append(gs, g)
			v = append(v, x)
		}
		return identVal{"[" + strings.Join(js, ",") + "]", "[" + strings.Join(gs, ",") + "]", v}
	case "[String!]":
		n := r.Intn(3)
		var js []string
		v := []string{}
		for k := 0; k < n; k++ {
			x := fmt.Sprintf("e%d", r.Intn(50))
			js = append(js, `"`+x+`"`)
			v = append(v, x)
		}
		s := "[" + strings.Join(js, ",") + "]"
		return identVal{s, s, v}
	case "[Boolean!]":
		n := r.Intn(3)
		var js []string
		v := []bool{}
		for k := 0; k < n; k++ {
			x := r.Bool()
			js = append(js, fmt.Sprint(x))
			v = append(v, x)
		}
		s := "[" + strings.Join(js, ",") + "]"
		return identVal{s, s, v}
	}
	panic(kind)
}

func cborTextHeader(n int) []byte {
	if n < 24 {
		return []byte{0x60 | byte(n)}
	}
	return []byte{0x78, byte(n)}
}

func identDocs(e *Env, ctx context.Context, r *Rng, nDocs int) []string {
	var sdl []string
	for _, f := range identFields {
		sdl = append(sdl, fmt.Sprintf("%s: %s", f.name, f.kind))
	}
	schema := "type Idn { " + strings.Join(sdl, " ") + " }"
	a, b := newNd(ctx, "A"), newNd(ctx, "B")
	a.noEvents()
	b.noEvents()
	defer a.close(ctx)
	defer b.close(ctx)
	a.addSchema(ctx, schema)
	b.addSchema(ctx, schema)
	def := getCol(ctx, a, "Idn").Definition()
	defB := getCol(ctx, b, "Idn").Definition()
	var cases []string
	seenIDs := map[string]string{}
	for di := 0; di < nDocs; di++ {
		vals := map[string]identVal{}
		var present []string
		for _, f := range identFields {
			if r.Chance(55) {
				vals[f.name] = genIdentVal(r, f.kind)
				present = append(present, f.name)
			}
		}
		if len(present) == 0 {
			continue
		}
		render := func(order []string, withNulls bool) string {
			var parts []string
			for _, n := range order {
				if v, ok := vals[n]; ok {
					parts = append(parts, fmt.Sprintf("%q: %s", n, v.json))
				} else if withNulls {
					parts = append(parts, fmt.Sprintf("%q: null", n))
				}
			}
			return "{" + strings.Join(parts, ", ") + "}"
		}
		all := []string{}
		for _, f := range identFields {
			all = append(all, f.name)
		}
		ids := map[string]string{}
		replay := map[string]any{"schema": schema}
		// route 1: JSON, permuted order
		o1 := append([]string{}, all...)
		Shuffle(r, o1)
		j1 := render(o1, false)
		replay["json"] = j1
		d1, err := client.NewDocFromJSON([]byte(j1), def)
		if err != nil {
			e.violate("harness-ident", "NewDocFromJSON: "+err.Error(), replay)
			continue
		}
		ids["json"] = d1.ID().String()
		// route 2: JSON, other order, explicit nulls
		o2 := append([]string{}, all...)
		Shuffle(r, o2)
		j2 := render(o2, true)
		replay["json_nulls"] = j2
		if d2, err := client.NewDocFromJSON([]byte(j2), defB); err == nil {
			ids["json-nulls-nodeB-definition"] = d2.ID().String()
		} else {
			e.violate("docid-route", "JSON with explicit nulls rejected: "+err.Error(), replay)
		}
		// route 3: Go map
		m := map[string]any{}
		for n, v := range vals {
			m[n] = v.goV
		}
		if d3, err := client.NewDocFromMap(m, def); err == nil {
			ids["map"] = d3.ID().String()
		} else {
			e.violate("docid-route", "NewDocFromMap rejected what NewDocFromJSON accepted: "+err.Error(), replay)
		}
		// route 4/5: GraphQL create on A and (other order) on B
		gqlIn := func(order []string) string {
			var parts []string
			for _, n := range order {
				if v, ok := vals[n]; ok {
					parts = append(parts, fmt.Sprintf("%s: %s", n, v.gql))
				}
			}
			return fmt.Sprintf(`mutation { create_Idn(input: {%s}) { _docID } }`, strings.Join(parts, ", "))
		}
		q4 := gqlIn(o1)
		replay["gql"] = q4
		gqlOK := true
		for _, v := range vals {
			if v.gql == "" {
				gqlOK = false
			}
		}
		if !gqlOK {
			e.count("graphql_route_unavailable_int_beyond_32_bits_or_empty_blob")
		} else if prev, dup := seenIDs[ids["json"]]; dup {
			_ = prev // same content generated twice: the creates would be rejected as duplicates
		} else {
			if d, errs := a.gql(ctx, q4); errs == "" {
				ids["graphql-nodeA"] = fmt.Sprint(rowsOf(d, "create_Idn")[0]["_docID"])
			} else {
				e.violate("docid-route", "GraphQL create rejected: "+errs, replay)
			}
			if d, errs := b.gql(ctx, gqlIn(o2)); errs == "" {
				ids["graphql-nodeB"] = fmt.Sprint(rowsOf(d, "create_Idn")[0]["_docID"])
			} else {
				e.violate("docid-route", "GraphQL create on node B rejected: "+errs, replay)
			}
			// route 6: collection Create of the JSON-built document, then read back
			seenIDs[ids["json"]] = j1
		}
		e.Res.Evaluations++
		e.count(fmt.Sprintf("doc_fields_%d", len(present)))
		e.distinct("doc|" + render(all, false))
		for route, id := range ids {
			if id != ids["json"] {
				e.violate("docid-route", fmt.Sprintf("route %s gives %s, JSON route gives %s", route, id, ids["json"]), replay)
			}
		}
		// key order in the hashed bytes
		raw, err := d1.Bytes()
		if err == nil {
			type kp struct {
				k   string
				pos int
			}
			var kps []kp
			for _, n := range present {
				enc := append(cborTextHeader(len(n)), []byte(n)...)
				pos := bytes.Index(raw, enc)
				kps = append(kps, kp{n, pos})
			}
			sort.Slice(kps, func(x, y int) bool { return kps[x].pos < kps[y].pos })
			var obs, in []string
			for _, k := range kps {
				obs = append(obs, zlist([]byte(k.k)))
			}
			for _, n := range o1 {
				if _, ok := vals[n]; ok {
					in = append(in, zlist([]byte(n)))
				}
			}
			cases = append(cases, fmt.Sprintf("KeyCase [%s] [%s]", strings.Join(in, "; "), strings.Join(obs, "; ")))
		}
		if di == 0 {
			e.sample(replay)
		}
	}
	return cases
}

// ---- schema sets ----

type sgraph struct {
	names []string // sorted
	edges [][3]int // from, to (index into names, or len(names)+k for an outside type), kind 0 one-one 1 one-many
	field [][]int  // per type: edge numbers in field order (primary side)
}

func genGraph(r *Rng) sgraph {
	n := 2 + r.Intn(5)
	pool := []string{"Ab", "Ba", "Cx", "Dq", "Ek", "Fz", "Gm", "Hh", "Ij", "Ko", "Lp", "Mu", "aB", "AB", "ab", "bA", "cx", "CX", "A_b", "Ab1"}
	Shuffle(r, pool)
	names := append([]string{}, pool[:n]...)
	sort.Strings(names)
	g := sgraph{names: names, field: make([][]int, n)}
	m := r.Intn(2*n + 1)
	for k := 0; k < m; k++ {
		from := r.Intn(n)
		to := r.Intn(n)
		if r.Chance(8) {
			to = n + r.Intn(2) // a type that is not part of the set
		}
		g.edges = append(g.edges, [3]int{from, to, r.Intn(2)})
		g.field[from] = append(g.field[from], k)
	}
	// shuffle field order per type (the relation list order matters to the stripping loop)
	for i := range g.field {
		Shuffle(r, g.field[i])
	}
	return g
}

func (g sgraph) typeName(i int) string {
	if i < len(g.names) {
		return g.names[i]
	}
	return fmt.Sprintf("Zz%d", i-len(g.names))
}

func (g sgraph) descriptions() []client.SchemaDescription {
	var out []client.SchemaDescription
	for i, n := range g.names {
		sd := client.SchemaDescription{Name: n}
		sd.Fields = append(sd.Fields, client.SchemaFieldDescription{Name: "_docID", Kind: client.FieldKind_DocID})
		// scalar fields are interleaved with relation fields
		sd.Fields = append(sd.Fields, client.SchemaFieldDescription{Name: "name", Kind: client.FieldKind_NILLABLE_STRING, Typ: client.LWW_REGISTER})
		for _, k := range g.field[i] {
			sd.Fields = append(sd.Fields, client.SchemaFieldDescription{Name: fmt.Sprintf("f%d", k), Kind: client.NewNamedKind(g.typeName(g.edges[k][1]), false), Typ: client.LWW_REGISTER})
			sd.Fields = append(sd.Fields, client.SchemaFieldDescription{Name: fmt.Sprintf("f%d_id", k), Kind: client.FieldKind_DocID, Typ: client.LWW_REGISTER})
		}
		out = append(out, sd)
	}
	return out
}

func (g sgraph) coq() string {
	var parts []string
	for i := range g.names {
		var rs []string
		for _, k := range g.field[i] {
			rs = append(rs, fmt.Sprint(g.edges[k][1]))
		}
		parts = append(parts, fmt.Sprintf("(%d, [%s])", i, strings.Join(rs, ";")))
	}
	return "[" + strings.Join(parts, "; ") + "]%nat"
}

// sdl for the real AddSchema path; outside types are not expressible there
func (g sgraph) sdlTypes() (map[string]string, bool) {
	fields := make([][]string, len(g.names))
	for i := range g.names {
		fields[i] = append(fields[i], "name: String")
	}
	for i := range g.names {
		for _, k := range g.field[i] {
			ed := g.edges[k]
			if ed[1] >= len(g.names) {
				return nil, false
			}
			to := g.names[ed[1]]
			if ed[2] == 0 {
				fields[i] = append(fields[i], fmt.Sprintf(`f%d: %s @primary @relation(name: "r%d")`, k, to, k))
				fields[ed[1]] = append(fields[ed[1]], fmt.Sprintf(`g%d: %s @relation(name: "r%d")`, k, g.names[i], k))
			} else {
				fields[i] = append(fields[i], fmt.Sprintf(`f%d: %s @relation(name: "r%d")`, k, to, k))
				fields[ed[1]] = append(fields[ed[1]], fmt.Sprintf(`g%d: [%s] @relation(name: "r%d")`, k, g.names[i], k))
			}
		}
	}
	out := map[string]string{}
	for i, n := range g.names {
		out[n] = fmt.Sprintf("type %s { %s }", n, strings.Join(fields[i], " "))
	}
	return out, true
}

func (g sgraph) components() [][]string {
	parent := make([]int, len(g.names))
	for i := range parent {
		parent[i] = i
	}
	var find func(int) int
	find = func(x int) int {
		if parent[x] != x {
			parent[x] = find(parent[x])
		}
		return parent[x]
	}
	for _, ed := range g.edges {
		if ed[1] < len(g.names) {
			parent[find(ed[0])] = find(ed[1])
		}
	}
	byRoot := map[int][]string{}
	for i, n := range g.names {
		byRoot[find(i)] = append(byRoot[find(i)], n)
	}
	var out [][]string
	for _, c := range byRoot {
		out = append(out, c)
	}
	sort.Slice(out, func(a, b int) bool { return out[a][0] < out[b][0] })
	return out
}

func idsOnNode(ctx context.Context, calls []string) (map[string][2]string, string) {
	x := newNd(ctx, "S")
	x.noEvents()
	defer x.close(ctx)
	for _, s := range calls {
		if _, err := x.n.DB.AddSchema(ctx, s); err != nil {
			return nil, err.Error()
		}
	}
	cols, err := x.n.DB.GetCollections(ctx, client.CollectionFetchOptions{})
	if err != nil {
		return nil, err.Error()
	}
	out := map[string][2]string{}
	for _, c := range cols {
		out[c.Name()] = [2]string{c.Version().VersionID, c.Version().CollectionID}
	}
	return out, ""
}

func identSchemas(e *Env, ctx context.Context, r *Rng, nGraphs, reps, nodeEvery int) []string {
	var cases []string
	for gi := 0; gi < nGraphs; gi++ {
		g := genGraph(r)
		if gi < len(schemaWitnesses) {
			g = schemaWitnesses[gi]
		}
		replay := map[string]any{"types": g.names, "edges_from_to_kind": g.edges, "field_order": g.field}
		var first map[string]string
		ok := true
		for rep := 0; rep < reps && ok; rep++ {
			ds := g.descriptions()
			Shuffle(r, ds)
			if err := verifhook.SetSchemaIDs(ds); err != nil {
				e.violate("harness-ident", "setSchemaIDs: "+err.Error(), replay)
				ok = false
				break
			}
			cur := map[string]string{}
			for _, d := range ds {
				cur[d.Name] = d.VersionID + "|" + d.Root
			}
			if first == nil {
				first = cur
			} else {
				for n, v := range cur {
					if first[n] != v {
						e.violate("schema-id-nondeterministic", fmt.Sprintf("type %s: setSchemaIDs gave %s in one call and %s in another call on the same definitions (input order / map iteration differ)", n, first[n], v), replay)
						ok = false
						break
					}
				}
			}
			e.Res.Evaluations++
		}
		if first == nil {
			continue
		}
		// grouping observed: same base id
		base := map[string]string{}
		for n, v := range first {
			vid := strings.SplitN(v, "|", 2)[0]
			base[n] = strings.SplitN(vid, "-", 2)[0]
		}
		var obs []string
		nontrivial := false
		for i, n := range g.names {
			var members []string
			for j, m := range g.names {
				if base[m] == base[n] {
					members = append(members, fmt.Sprint(j))
				}
			}
			if len(members) > 1 {
				nontrivial = true
			}
			obs = append(obs, fmt.Sprintf("(%d, [%s])", i, strings.Join(members, ";")))
		}
		cases = append(cases, fmt.Sprintf("SetCase %s [%s]%%nat", g.coq(), strings.Join(obs, "; ")))
		e.count(fmt.Sprintf("graph_types_%d", len(g.names)))
		if nontrivial {
			e.count("graph_with_circular_set")
			e.distinct("graph|" + g.coq())
		}
		if gi == 0 {
			e.sample(replay)
		}
		// real path
		if gi%nodeEvery != 0 {
			continue
		}
		types, expressible := g.sdlTypes()
		if !expressible {
			continue
		}
		order := append([]string{}, g.names...)
		join := func(ns []string) string {
			var ss []string
			for _, n := range ns {
				ss = append(ss, types[n])
			}
			return strings.Join(ss, "\n")
		}
		ref, errText := idsOnNode(ctx, []string{join(order)})
		replay["sdl"] = join(order)
		e.count("graphs_on_real_nodes")
		variants := map[string][]string{}
		o2 := append([]string{}, order...)
		Shuffle(r, o2)
		variants["permuted SDL"] = []string{join(o2)}
		comps := g.components()
		Shuffle(r, comps)
		var calls []string
		for _, c := range comps {
			Shuffle(r, c)
			calls = append(calls, join(c))
		}
		if len(comps) > 1 {
			variants[fmt.Sprintf("%d AddSchema calls (one per connected component)", len(comps))] = calls
			e.count("graphs_partitioned")
		}
		for label, v := range variants {
			got, er2 := idsOnNode(ctx, v)
			e.Res.Evaluations++
			if (errText == "") != (er2 == "") {
				e.violate("schema-id-order", fmt.Sprintf("%s: outcome differs: one call in sorted order: %q; variant: %q", label, errText, er2), replay)
				continue
			}
			for n, idp := range ref {
				if got[n] != idp {
					e.violate("schema-id-order", fmt.Sprintf("%s: type %s has version/collection id %v, one call in sorted order gives %v", label, n, got[n], idp), replay)
					break
				}
			}
		}
		if errText != "" {
			e.count("sdl_rejected")
		}
	}
	return cases
}

// hand-picked graphs: the shapes the stripping loop and the circle detection are sensitive to
var schemaWitnesses = []sgraph{
	// two circles joined by a one-directional relation, removal at index > 0 (the copy(old[:i-1]) path)
	{names: []string{"Ab", "Ba", "Cx", "Dq"}, edges: [][3]int{{0, 1, 0}, {1, 0, 0}, {1, 2, 0}, {2, 3, 0}, {3, 2, 0}, {0, 5, 0}}, field: [][]int{{0, 5}, {1, 2}, {3}, {4}}},
	{names: []string{"Ab", "Ba", "Cx", "Dq"}, edges: [][3]int{{0, 1, 0}, {1, 0, 0}, {1, 2, 0}, {2, 3, 0}, {3, 2, 0}, {0, 5, 0}}, field: [][]int{{5, 0}, {2, 1}, {3}, {4}}},
	// a circle entered from a non-circular type that sorts after it
	{names: []string{"Ab", "Ba", "Zq"}, edges: [][3]int{{0, 1, 0}, {1, 0, 0}, {2, 0, 0}}, field: [][]int{{0}, {1}, {2}}},
	// self reference plus chain
	{names: []string{"Ab", "Ba", "Cx"}, edges: [][3]int{{0, 0, 1}, {1, 0, 0}, {2, 1, 0}, {0, 2, 0}}, field: [][]int{{0, 3}, {1}, {2}}},
	// three relations per type
	{names: []string{"Ab", "Ba", "Cx"}, edges: [][3]int{{0, 1, 0}, {0, 2, 0}, {0, 1, 1}, {1, 2, 0}, {1, 0, 0}, {1, 2, 1}, {2, 0, 0}, {2, 1, 0}, {2, 4, 0}}, field: [][]int{{0, 1, 2}, {3, 4, 5}, {6, 8, 7}}},
}

func engIdent(e *Env) {
	ctx := context.Background()
	r := NewRng(e.Seed)
	e.Res.Rule = "A: documents over 14 fields of every scalar/array kind, each present with probability 0.55, built by 5-6 routes; distinct = distinct document content. B: relation graphs of 2-6 types with 0-2n primary relations (self references, parallel relations, 8% to a type outside the set), field order shuffled; setSchemaIDs repeated on shuffled copies; every k-th graph also through AddSchema on fresh nodes in permuted order and one call per connected component; non-trivial = the graph has a circular set"
	nDocs, nGraphs, reps, nodeEvery := 120, 150, 8, 6
	if e.thorough() {
		nDocs, nGraphs, reps, nodeEvery = 4000, 6000, 24, 4
	}
	kc := identDocs(e, ctx, r, nDocs)
	sc := identSchemas(e, ctx, r, nGraphs, reps, nodeEvery)
	e.writeCasesSharded("cases_C13", "CorrC13", "icase", append(kc, sc...), 400)
}

func init() { engines["ident"] = engIdent }
