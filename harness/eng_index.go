package main

// Engine "index" (C07): twin collections on one real node - identical documents and identical mutation histories,
// one collection without secondary indexes, one with a generated index set (single field asc/desc, composite,
// unique; created before or after the data). Every generated query runs on both:
//   - same multiset of documents; with an order clause the same sequence of sort keys; with a limit but no order
//     the same cardinality and a sub-multiset of the unlimited result (the scan order is then unspecified);
//   - a unique index rejects exactly the writes that would leave two live documents sharing a non-null value.
// The observed results of the indexed collection are also written as Coq cases and evaluated with the scan
// semantics of Query/Sem.v (CorrC08), so the index path is compared with the model as well as with its twin.

import (
	"context"
	"fmt"
	"sort"
	"strings"

	"github.com/sourcenetwork/defradb/client"
)

type idxConfig struct {
	fieldDirs map[string]string // field -> "" | "ASC" | "DESC"
	composite string            // type-level directive or ""
	after     bool              // indexes created after the data
}

func twinSchemas(c int, cfg idxConfig) (string, string) {
	plain := fmt.Sprintf("type P%d { k: Int name: String cat: String qty: Int price: Float ok: Boolean uid: String }", c)
	var fs []string
	for _, f := range []string{"name: String", "cat: String", "qty: Int", "price: Float", "ok: Boolean"} {
		n := strings.SplitN(f, ":", 2)[0]
		if d, ok := cfg.fieldDirs[n]; ok && !cfg.after {
			if d == "" {
				f += " @index"
			} else {
				f += fmt.Sprintf(" @index(direction: %s)", d)
			}
		}
		fs = append(fs, f)
	}
	uid := "uid: String @index(unique: true)"
	if cfg.after {
		uid = "uid: String"
	}
	comp := cfg.composite
	if cfg.after {
		comp = ""
	}
	indexed := fmt.Sprintf("type X%d %s { k: Int %s %s }", c, comp, strings.Join(fs, " "), uid)
	return plain, indexed
}

func engIndex(e *Env) {
	ctx := context.Background()
	r := NewRng(e.Seed)
	e.Res.Rule = "twin collections (plain / indexed) with 8-20 documents, index sets drawn from {name, cat, qty, price, ok} x {ASC, DESC}, a composite (cat, qty) index and a unique index, created before or after the data; queries from the C08 generator; 3 rounds of updates / deletes / creates applied to both twins; distinct = distinct (collection, request); non-trivial = the filter mentions an indexed field"
	nColl, nQ := 5, 70
	if e.thorough() {
		nColl, nQ = 60, 300
	}
	if e.N > 0 {
		nQ = e.N
	}
	x := newNd(ctx, "I")
	x.noEvents()
	defer x.close(ctx)
	var qcases []string
	for c := 0; c < nColl; c++ {
		cfg := idxConfig{fieldDirs: map[string]string{}, after: r.Chance(35)}
		for _, f := range []string{"name", "cat", "qty", "price", "ok"} {
			if r.Chance(55) {
				cfg.fieldDirs[f] = Pick(r, []string{"", "ASC", "DESC"})
			}
		}
		if len(cfg.fieldDirs) == 0 {
			cfg.fieldDirs["qty"] = ""
		}
		if r.Chance(40) {
			cfg.composite = `@index(includes: [{field: "cat"}, {field: "qty"}])`
		}
		ps, xs := twinSchemas(c, cfg)
		x.addSchema(ctx, ps)
		x.addSchema(ctx, xs)
		pcol, xcol := fmt.Sprintf("P%d", c), fmt.Sprintf("X%d", c)
		e.count(fmt.Sprintf("indexed_fields_%d", len(cfg.fieldDirs)))
		if cfg.after {
			e.count("indexes_created_after_data")
		}
		nextK := 0
		var mutLog []string
		both := func(mut string) (string, string) {
			mutLog = append(mutLog, mut)
			_, e1 := x.gql(ctx, strings.ReplaceAll(mut, "COL", pcol))
			_, e2 := x.gql(ctx, strings.ReplaceAll(mut, "COL", xcol))
			return e1, e2
		}
		create := func() {
			var fs []string
			for _, f := range qFields {
				v := genQval(r, f.kind, 18)
				if v.null && r.Bool() {
					continue
				}
				fs = append(fs, f.name+": "+v.gql())
			}
			fs = append(fs, fmt.Sprintf("k: %d", nextK), fmt.Sprintf(`uid: "u%d"`, nextK))
			nextK++
			e1, e2 := both(fmt.Sprintf(`mutation { create_COL(input: {%s}) { _docID } }`, strings.Join(fs, ", ")))
			if e1 != "" || e2 != "" {
				e.violate("twin-create", fmt.Sprintf("create: plain %q indexed %q", e1, e2), nil)
			}
		}
		n := 8 + r.Intn(13)
		for i := 0; i < n; i++ {
			create()
		}
		if cfg.after {
			col := getCol(ctx, x, xcol)
			for f, d := range cfg.fieldDirs {
				q := fmt.Sprintf(`%s_%s`, xcol, f)
				_ = q
				if _, err := col.CreateIndex(ctx, idxReq(f, d == "DESC", false)); err != nil {
					e.violate("index-create-error", err.Error(), nil)
				}
			}
			if _, err := col.CreateIndex(ctx, idxReq("uid", false, true)); err != nil {
				e.violate("index-create-error", err.Error(), nil)
			}
		}
		sel := `k name cat qty price ok`
		type row struct {
			k    int64
			vals []qval
		}
		runOn := func(col, args string) ([]row, string) {
			data, errs := x.gql(ctx, fmt.Sprintf(`query { %s%s { %s } }`, col, args, sel))
			if errs != "" {
				return nil, errs
			}
			var out []row
			for _, rw := range rowsOf(data, col) {
				k, _ := rw["k"].(int64)
				out = append(out, row{k, rowToVals(rw)})
			}
			return out, ""
		}
		ksOf := func(rs []row) []int {
			var o []int
			for _, r := range rs {
				o = append(o, int(r.k))
			}
			return o
		}
		for round := 0; round < 4; round++ {
			if round > 0 {
				// the same mutations on both twins (documents identified by k)
				for m := 0; m < 4+r.Intn(4); m++ {
					switch r.Intn(4) {
					case 0:
						create()
					case 1:
						e1, e2 := both(fmt.Sprintf(`mutation { delete_COL(filter: {k: {_eq: %d}}) { _docID } }`, r.Intn(nextK)))
						if e1 != e2 {
							e.violate("twin-mutation", fmt.Sprintf("delete: plain %q indexed %q", e1, e2), nil)
						}
					default:
						f := qFields[r.Intn(len(qFields))]
						v := genQval(r, f.kind, 20)
						e1, e2 := both(fmt.Sprintf(`mutation { update_COL(filter: {k: {_eq: %d}}, input: {%s: %s}) { _docID } }`, r.Intn(nextK), f.name, v.gql()))
						if e1 != e2 {
							e.violate("twin-mutation", fmt.Sprintf("update: plain %q indexed %q", e1, e2), nil)
						}
					}
				}
			}
			// current documents in scan order of the plain twin: the model's input
			allP, errs := runOn(pcol, "")
			if errs != "" {
				e.violate("query-error", errs, nil)
				continue
			}
			var docs []qdoc
			for _, rw := range allP {
				docs = append(docs, qdoc{idx: int(rw.k), vals: rw.vals})
			}
			docName := fmt.Sprintf("D%d_%d", c, round)
			qcases = append(qcases, fmt.Sprintf("DOCS %s %s", docName, coqDocs(docs)))
			for qi := 0; qi < nQ/4; qi++ {
				f := genFilter(r, 2)
				var order []qorder
				if r.Chance(45) {
					order = append(order, qorder{r.Intn(len(qFields)), r.Bool()})
				}
				limit := 0
				if r.Chance(25) {
					limit = 1 + r.Intn(4)
				}
				args := argsOf(f, order, limit, 0)
				gp, e1 := runOn(pcol, args)
				gx, e2 := runOn(xcol, args)
				e.Res.Evaluations++
				replay := map[string]any{"indexed_schema": xs, "indexes_created_after_data": cfg.after, "request_args": args, "documents": len(docs)}
				if e1 != "" || e2 != "" {
					if e1 != e2 {
						e.violate("twin-error", fmt.Sprintf("%s: plain %q indexed %q", args, e1, e2), replay)
					}
					continue
				}
				mentions := false
				for fn := range cfg.fieldDirs {
					if strings.Contains(f.gql(), fn+":") {
						mentions = true
					}
				}
				if mentions {
					e.distinct(xcol + args)
				}
				e.count(fmt.Sprintf("order_%d_limit_%v", len(order), limit > 0))
				kp, kx := ksOf(gp), ksOf(gx)
				switch {
				case len(order) == 0 && limit > 0:
					// under-determined: same cardinality, and a sub-multiset of the unlimited result
					fullX, _ := runOn(xcol, argsOf(f, nil, 0, 0))
					fs := setOf(ksOf(fullX))
					ok := len(kp) == len(kx)
					for _, k := range kx {
						ok = ok && fs[k]
					}
					if !ok {
						e.violate("index-limit", fmt.Sprintf("%s: plain returns %d rows %v, indexed %v", args, len(kp), kp, kx), replay)
					}
				case len(order) == 0:
					if fmt.Sprint(sortedInts(kp)) != fmt.Sprint(sortedInts(kx)) {
						e.violate("index-multiset", fmt.Sprintf("%s: plain returns documents %v, indexed returns %v", args, sortedInts(kp), sortedInts(kx)), replay)
					}
				default:
					// ordered: same multiset (when unlimited) and the same sequence of sort keys
					if limit == 0 && fmt.Sprint(sortedInts(kp)) != fmt.Sprint(sortedInts(kx)) {
						e.violate("index-multiset", fmt.Sprintf("%s: plain returns documents %v, indexed returns %v", args, sortedInts(kp), sortedInts(kx)), replay)
					}
					sk := func(rs []row) string {
						var s []string
						for _, rw := range rs {
							s = append(s, rw.vals[order[0].field].gql())
						}
						return strings.Join(s, ",")
					}
					if sk(gp) != sk(gx) {
						e.violate("index-order", fmt.Sprintf("%s: sort keys plain [%s] indexed [%s]", args, sk(gp), sk(gx)), replay)
					}
				}
				// model case: the indexed twin against the scan semantics (unordered and unlimited requests: as a set)
				if len(order) == 0 && limit == 0 && qi%2 == 0 {
					var gs []string
					for _, k := range sortedInts(kx) {
						gs = append(gs, fmt.Sprint(k))
					}
					qcases = append(qcases, fmt.Sprintf("SCase %s (mkQy %s [] 0 0) [%s]%%nat", docName, f.coq(), strings.Join(gs, ";")))
				}
				if c == 0 && round == 0 && qi < 2 {
					e.sample(map[string]any{"indexed_schema": xs, "request_args": args, "plain_k": kp, "indexed_k": kx})
				}
			}
		}
		// unique index: exactly the clashing writes are rejected
		d0, _ := x.gql(ctx, fmt.Sprintf(`query { %s(filter: {uid: {_eq: "u0"}}) { k } }`, pcol))
		live0 := len(rowsOf(d0, pcol)) // is there a live document with uid u0 (asked on the twin without indexes)
		_, eDup := x.gql(ctx, fmt.Sprintf(`mutation { create_%s(input: {k: 9000, uid: "u0"}) { _docID } }`, xcol))
		if live0 > 0 && eDup == "" {
			e.violate("unique-not-enforced", "a second live document with uid u0 was accepted", map[string]any{"indexed_schema": xs, "indexes_created_after_data": cfg.after, "mutations": mutLog})
		}
		if live0 == 0 && eDup != "" {
			e.violate("unique-over-enforced", "create with a uid no live document holds was rejected: "+eDup, nil)
		}
		_, eNull1 := x.gql(ctx, fmt.Sprintf(`mutation { create_%s(input: {k: 9001}) { _docID } }`, xcol))
		_, eNull2 := x.gql(ctx, fmt.Sprintf(`mutation { create_%s(input: {k: 9002}) { _docID } }`, xcol))
		if eNull1 != "" || eNull2 != "" {
			e.violate("unique-over-enforced", "documents without a value for the unique field were rejected: "+eNull1+eNull2, nil)
		}
		dd, _ := x.gql(ctx, fmt.Sprintf(`query { %s { uid } }`, xcol))
		seen := map[string]int{}
		for _, rw := range rowsOf(dd, xcol) {
			if s, ok := rw["uid"].(string); ok {
				seen[s]++
			}
		}
		for u, n := range seen {
			if n > 1 {
				e.violate("unique-not-enforced", fmt.Sprintf("%d live documents share uid %s", n, u), nil)
			}
		}
		e.count("unique_probe")
		// a value is free again after the document holding it was deleted - by docID, by filter, or through the
		// filter based collection API
		for vi, how := range []string{"docID", "filter", "collection-api"} {
			uidv := fmt.Sprintf("free%d", vi)
			cd, e1 := x.gql(ctx, fmt.Sprintf(`mutation { create_%s(input: {k: %d, uid: "%s"}) { _docID } }`, xcol, 9100+vi, uidv))
			rows := rowsOf(cd, "create_"+xcol)
			if e1 != "" || len(rows) != 1 {
				continue
			}
			switch how {
			case "docID":
				x.gql(ctx, fmt.Sprintf(`mutation { delete_%s(docID: "%v") { _docID } }`, xcol, rows[0]["_docID"]))
			case "filter":
				x.gql(ctx, fmt.Sprintf(`mutation { delete_%s(filter: {uid: {_eq: "%s"}}) { _docID } }`, xcol, uidv))
			default:
				if col, err := x.n.DB.GetCollectionByName(ctx, xcol); err == nil {
					_, _ = col.DeleteWithFilter(ctx, fmt.Sprintf(`{uid: {_eq: "%s"}}`, uidv))
				}
			}
			_, e2 := x.gql(ctx, fmt.Sprintf(`mutation { create_%s(input: {k: %d, uid: "%s"}) { _docID } }`, xcol, 9200+vi, uidv))
			e.Res.Evaluations++
			if e2 != "" {
				e.violate("unique-over-enforced", fmt.Sprintf("after the document holding uid %s was deleted (by %s) a new document with that uid is rejected: %s", uidv, how, e2), map[string]any{"deleted_by": how})
			}
			qd, _ := x.gql(ctx, fmt.Sprintf(`query { %s(filter: {uid: {_eq: "%s"}}) { k } }`, xcol, uidv))
			if n := len(rowsOf(qd, xcol)); e2 == "" && n != 1 {
				e.violate("index-mismatch", fmt.Sprintf("after delete (by %s) and re-create, the indexed lookup of uid %s returns %d documents", how, uidv, n), map[string]any{"deleted_by": how})
			}
		}
	}
	// SCase = QCase compared as a set of document numbers
	compositeSweep(e, ctx, x, r)
	singleFieldSweep(e, ctx, x)
	acpIndexWitness(e, ctx, r)
	maintHistories(e, ctx, r)
	writeQueryCases(e, qcases, nil)
	sort.Strings(e.Res.Notes)
}

// compositeSweep: for every field kind as SECOND field of a composite index (the first field is served by the key
// range, the later ones by per-key matchers), every comparison operator with a bound taken from the stored values
// (ties included): the indexed twin must return the documents the plain twin returns.
func compositeSweep(e *Env, ctx context.Context, x *Nd, r *Rng) {
	type kind struct {
		name, gql string
		pool      []string
	}
	kinds := []kind{
		{"dt", "DateTime", []string{`"2020-01-01T00:00:00Z"`, `"2020-01-02T00:00:00Z"`, `"2020-01-02T00:00:00.5Z"`, `"2021-06-30T12:00:00Z"`}},
		{"in", "Int", []string{"-3", "0", "1", "7"}},
		{"fl", "Float", []string{"-1.5", "0.0", "0.25", "9.75"}},
		{"st", "String", []string{`"a"`, `"ab"`, `"b"`, `""`}},
		{"bo", "Boolean", []string{"true", "false"}},
	}
	for ki, kd := range kinds {
		for _, dir := range []string{"ASC", "DESC"} {
			p, xn := fmt.Sprintf("CP%d%s", ki, dir), fmt.Sprintf("CX%d%s", ki, dir)
			x.addSchema(ctx, fmt.Sprintf(`type %s { k: Int cat: String v: %s }`, p, kd.gql))
			x.addSchema(ctx, fmt.Sprintf(`type %s @index(includes: [{field: "cat"}, {field: "v", direction: %s}]) { k: Int cat: String v: %s }`, xn, dir, kd.gql))
			k := 0
			for _, cat := range []string{`"x"`, `"y"`} {
				for _, v := range append(append([]string{}, kd.pool...), "null", kd.pool[0]) {
					k++
					for _, col := range []string{p, xn} {
						if _, errs := x.gql(ctx, fmt.Sprintf(`mutation { create_%s(input: {k: %d, cat: %s, v: %s}) { _docID } }`, col, k, cat, v)); errs != "" {
							e.violate("harness-index", errs, nil)
						}
					}
				}
			}
			for _, op := range []string{"_eq", "_ne", "_gt", "_ge", "_lt", "_le"} {
				for _, bound := range append(append([]string{}, kd.pool...), "null") {
					if bound == "null" && op != "_eq" && op != "_ne" {
						continue
					}
					if kd.gql == "Boolean" && op != "_eq" && op != "_ne" {
						continue
					}
					get := func(col string) (string, string) {
						d, errs := x.gql(ctx, fmt.Sprintf(`query { %s(filter: {cat: {_eq: "x"}, v: {%s: %s}}) { k } }`, col, op, bound))
						var ks []int
						for _, row := range rowsOf(d, col) {
							n, _ := numOf(row["k"])
							ks = append(ks, int(n))
						}
						sort.Ints(ks)
						return fmt.Sprint(ks), errs
					}
					a, ea := get(p)
					b, eb := get(xn)
					e.Res.Evaluations++
					e.count("composite_second_field_" + kd.gql)
					e.distinct(fmt.Sprintf("composite|%s|%s|%s|%s", kd.gql, dir, op, bound))
					if a != b || ea != eb {
						e.violate("index-composite-second-field", fmt.Sprintf("composite index (cat, v:%s %s), filter cat = x and v %s %s: indexed collection returns k=%s %s, plain collection k=%s %s", kd.gql, dir, op, bound, b, eb, a, ea), map[string]any{"kind": kd.gql, "direction": dir, "op": op, "bound": bound})
					}
				}
			}
		}
	}
}

// singleFieldSweep: for every field kind under a single-field ASC / DESC index: every comparison operator with bounds
// taken from the stored values (ties, values that differ only in the last digits / fraction), and both orders: the
// indexed twin must return the documents of the plain twin, and in the same sort-key sequence.
func singleFieldSweep(e *Env, ctx context.Context, x *Nd) {
	type kind struct {
		gql  string
		pool []string
	}
	kinds := []kind{
		{"DateTime", []string{`"2020-01-02T00:00:00Z"`, `"2020-01-02T00:00:00.3Z"`, `"2020-01-02T00:00:00.5Z"`, `"2020-01-02T00:00:01Z"`, `"2019-12-31T23:59:59.999Z"`}},
		{"Int", []string{"-3", "0", "1", "255", "256", "-256"}},
		{"Float", []string{"-1.5", "0.0", "0.25", "0.2500001", "9.75"}},
		{"String", []string{`"a"`, `"ab"`, `"b"`, `""`, `"a\u0000"`}},
	}
	for ki, kd := range kinds {
		for _, dir := range []string{"ASC", "DESC"} {
			p, xn := fmt.Sprintf("SP%d%s", ki, dir), fmt.Sprintf("SX%d%s", ki, dir)
			x.addSchema(ctx, fmt.Sprintf(`type %s { k: Int v: %s }`, p, kd.gql))
			x.addSchema(ctx, fmt.Sprintf(`type %s { k: Int v: %s @index(direction: %s) }`, xn, kd.gql, dir))
			for k, v := range append(append([]string{}, kd.pool...), "null", kd.pool[1]) {
				for _, col := range []string{p, xn} {
					if _, errs := x.gql(ctx, fmt.Sprintf(`mutation { create_%s(input: {k: %d, v: %s}) { _docID } }`, col, k, v)); errs != "" {
						e.violate("harness-index", errs, nil)
					}
				}
			}
			get := func(col, args string) (string, string, string) {
				d, errs := x.gql(ctx, fmt.Sprintf(`query { %s%s { k v } }`, col, args))
				var ks []int
				var seq []string
				for _, row := range rowsOf(d, col) {
					n, _ := numOf(row["k"])
					ks = append(ks, int(n))
					seq = append(seq, fmt.Sprint(row["v"]))
				}
				sort.Ints(ks)
				return fmt.Sprint(ks), strings.Join(seq, ","), errs
			}
			for _, op := range []string{"_eq", "_ne", "_gt", "_ge", "_lt", "_le"} {
				for _, bound := range kd.pool {
					for _, ord := range []string{"", "ASC", "DESC"} {
						args := fmt.Sprintf(`(filter: {v: {%s: %s}}`, op, bound)
						if ord != "" {
							args += fmt.Sprintf(`, order: {v: %s}`, ord)
						}
						args += ")"
						ka, sa, ea := get(p, args)
						kb, sb, eb := get(xn, args)
						e.Res.Evaluations++
						e.count("single_field_" + kd.gql)
						e.distinct(fmt.Sprintf("single|%s|%s|%s|%s|%s", kd.gql, dir, op, bound, ord))
						if ka != kb || ea != eb {
							e.violate("index-single-field", fmt.Sprintf("index on v:%s %s, %s: indexed collection returns k=%s %s, plain collection k=%s %s", kd.gql, dir, args, kb, eb, ka, ea), map[string]any{"kind": kd.gql, "direction": dir, "args": args})
						} else if ord != "" && sa != sb {
							e.violate("index-order", fmt.Sprintf("index on v:%s %s, %s: indexed collection yields the values in the order [%s], plain collection [%s]", kd.gql, dir, args, sb, sa), map[string]any{"kind": kd.gql, "direction": dir, "args": args})
						}
					}
				}
			}
		}
	}
}

func init() { engines["index"] = engIndex }

func idxReq(field string, desc, unique bool) client.IndexCreateRequest {
	return client.IndexCreateRequest{Fields: []client.IndexedFieldDescription{{Name: field, Descending: desc}}, Unique: unique}
}
