// vharness: drives the real defradb code (built from /repo's working tree with -tags verif)
// through generated inputs and writes (a) the observed outputs as Coq case files for the
// model-vs-code correspondence and (b) the verdict of the property's direct oracle.
package main

import (
	"encoding/json"
	"flag"
	"fmt"
	"os"
	"path/filepath"
	"regexp"
	"sort"
	"strings"
	"time"
)

type Violation struct {
	Kind   string `json:"kind"`   // short class, used for known-finding fingerprints
	Detail string `json:"detail"` // human readable
	Replay any    `json:"replay"` // minimal input / history
}

type Result struct {
	Engine       string         `json:"engine"`
	Seed         int64          `json:"seed"`
	Evaluations  int            `json:"evaluations"`
	Distinct     int            `json:"distinct_nontrivial"`
	Rule         string         `json:"rule"`
	Distribution map[string]int `json:"distribution"`
	Samples      []any          `json:"samples"`
	Violations   []Violation    `json:"violations"`
	CaseFiles    []string       `json:"case_files"`
	NCases       int            `json:"n_cases"`
	WallS        float64        `json:"wall_s"`
	Notes        []string       `json:"notes,omitempty"`
}

type Env struct {
	perKind map[string]int
	Out     string
	Seed    int64
	Tier    string
	N       int
	Args    map[string]string
	Res     *Result
	start   time.Time
	seen    map[string]bool
}

func (e *Env) count(k string) { e.Res.Distribution[k]++ }
func (e *Env) distinct(key string) {
	if !e.seen[key] {
		e.seen[key] = true
		e.Res.Distinct++
	}
}
func (e *Env) sample(s any) {
	if len(e.Res.Samples) < 5 {
		e.Res.Samples = append(e.Res.Samples, s)
	}
}

// violate records a violation. At most 8 violations per "shape" (kind + detail with numbers, identifiers and quoted
// strings blanked) and 250 per kind are kept: a flood of one shape - e.g. a recorded finding - must not crowd out a
// violation of another kind or of another shape of the same kind.
func (e *Env) violate(kind, detail string, replay any) {
	if e.perKind == nil {
		e.perKind = map[string]int{}
	}
	shape := kind + "|" + shapeRe.ReplaceAllString(detail, "#")
	if len(shape) > 200 {
		shape = shape[:200]
	}
	e.perKind[kind]++
	e.perKind[shape]++
	if e.perKind[shape] <= 8 && e.perKind[kind] <= 250 && len(e.Res.Violations) < 4000 {
		e.Res.Violations = append(e.Res.Violations, Violation{kind, detail, replay})
	}
}

var shapeRe = regexp.MustCompile(`"[^"]*"|bae-[0-9a-f-]+|baf[a-z0-9]+|[0-9]+(\.[0-9]+)?`)

func (e *Env) thorough() bool { return e.Tier == "thorough" }

// writeCases writes a Coq case file: header imports module `mod`, `cases` has type `ty`.
func (e *Env) writeCases(name, mod, ty string, items []string) {
	e.writeCasesSharded(name, mod, ty, items, 1500)
}

func (e *Env) writeCasesSharded(name, mod, ty string, items []string, shard int) {
	for i := 0; i*shard < len(items) || i == 0; i++ {
		lo, hi := i*shard, (i+1)*shard
		if hi > len(items) {
			hi = len(items)
		}
		var sb strings.Builder
		sb.WriteString("From Coq Require Import List ZArith Bool.\nFrom Verif Require Import " + mod + ".\nImport ListNotations.\nOpen Scope Z_scope.\n")
		sb.WriteString("Definition cases : list " + ty + " := [\n")
		sb.WriteString(strings.Join(items[lo:hi], ";\n"))
		sb.WriteString("\n].\nDefinition M := Eval vm_compute in (mismatches cases).\nPrint M.\n")
		fn := filepath.Join(e.Out, fmt.Sprintf("%s_%d.v", name, i))
		if err := os.WriteFile(fn, []byte(sb.String()), 0o644); err != nil {
			panic(err)
		}
		e.Res.CaseFiles = append(e.Res.CaseFiles, fn)
		// keep the rendered items for replay lookup
		idx := filepath.Join(e.Out, fmt.Sprintf("%s_%d.items", name, i))
		_ = os.WriteFile(idx, []byte(strings.Join(items[lo:hi], "\n")), 0o644)
		if hi >= len(items) {
			break
		}
	}
	e.Res.NCases += len(items)
}

var engines = map[string]func(*Env){}

func init() {
	// keep the database quiet: only errors, on stderr
	if os.Getenv("LOG_LEVEL") == "" {
		os.Setenv("LOG_LEVEL", "error")
	}
}

func main() {
	if len(os.Args) < 2 {
		names := []string{}
		for k := range engines {
			names = append(names, k)
		}
		sort.Strings(names)
		fmt.Println("usage: vharness <engine> -out DIR -seed N -tier quick|thorough; engines:", names)
		os.Exit(2)
	}
	name := os.Args[1]
	fs := flag.NewFlagSet(name, flag.ExitOnError)
	out := fs.String("out", "", "output directory")
	seed := fs.Int64("seed", 1, "seed")
	tier := fs.String("tier", "quick", "tier")
	n := fs.Int("n", 0, "volume override")
	extra := fs.String("args", "", "k=v,k=v engine arguments")
	_ = fs.Parse(os.Args[2:])
	eng, ok := engines[name]
	if !ok {
		fmt.Println("unknown engine", name)
		os.Exit(2)
	}
	if *out == "" {
		fmt.Println("-out required")
		os.Exit(2)
	}
	_ = os.MkdirAll(*out, 0o755)
	env := &Env{Out: *out, Seed: *seed, Tier: *tier, N: *n, Args: map[string]string{}, start: time.Now(), seen: map[string]bool{}}
	for _, kv := range strings.Split(*extra, ",") {
		if i := strings.Index(kv, "="); i > 0 {
			env.Args[kv[:i]] = kv[i+1:]
		}
	}
	env.Res = &Result{Engine: name, Seed: *seed, Distribution: map[string]int{}, Samples: []any{}, Violations: []Violation{}, CaseFiles: []string{}}
	eng(env)
	env.Res.WallS = time.Since(env.start).Seconds()
	b, _ := json.MarshalIndent(env.Res, "", " ")
	if err := os.WriteFile(filepath.Join(*out, "result.json"), b, 0o644); err != nil {
		panic(err)
	}
	fmt.Printf("engine=%s evaluations=%d cases=%d violations=%d wall=%.1fs\n", name, env.Res.Evaluations, env.Res.NCases, len(env.Res.Violations), env.Res.WallS)
}
