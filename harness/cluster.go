package main

// In-process nodes on Badger-in-memory, delivery of commits between them under harness control.

import (
	"context"
	"crypto/sha256"
	"encoding/json"
	"fmt"
	"sort"
	"strings"
	"time"

	"github.com/ipfs/go-cid"
	"github.com/sourcenetwork/corekv"

	"github.com/sourcenetwork/defradb/client"
	"github.com/sourcenetwork/defradb/event"
	"github.com/sourcenetwork/defradb/node"
	"github.com/sourcenetwork/defradb/verifhook"
)

type Nd struct {
	name string
	n    *node.Node
	upd  event.Subscription
}

func newNd(ctx context.Context, name string, opts ...node.Option) *Nd {
	base := []node.Option{node.WithDisableAPI(true), node.WithDisableP2P(true), node.WithBadgerInMemory(true)}
	n, err := node.New(ctx, append(base, opts...)...)
	if err != nil {
		panic(err)
	}
	if err := n.Start(ctx); err != nil {
		panic(err)
	}
	upd, err := n.DB.Events().Subscribe(event.UpdateName)
	if err != nil {
		panic(err)
	}
	return &Nd{name: name, n: n, upd: upd}
}

func (x *Nd) close(ctx context.Context) { _ = x.n.Close(ctx) }

// noEvents drops the update subscription: an engine that never reads it would stall the bus after 100 events.
func (x *Nd) noEvents() { x.n.DB.Events().Unsubscribe(x.upd) }

func (x *Nd) addSchema(ctx context.Context, sdl string) {
	if _, err := x.n.DB.AddSchema(ctx, sdl); err != nil {
		panic(fmt.Sprintf("AddSchema %s: %v", sdl, err))
	}
}

// gql runs a request; returns data and the joined error text ("" if none).
func (x *Nd) gql(ctx context.Context, q string) (map[string]any, string) {
	res := x.n.DB.ExecRequest(ctx, q)
	if len(res.GQL.Errors) > 0 {
		var es []string
		for _, e := range res.GQL.Errors {
			es = append(es, e.Error())
		}
		return nil, strings.Join(es, "; ")
	}
	m, _ := res.GQL.Data.(map[string]any)
	return m, ""
}

func rowsOf(m map[string]any, key string) []map[string]any {
	switch v := m[key].(type) {
	case []map[string]any:
		return v
	case []any:
		out := make([]map[string]any, 0, len(v))
		for _, e := range v {
			if mm, ok := e.(map[string]any); ok {
				out = append(out, mm)
			}
		}
		return out
	}
	return nil
}

// drainUpdates collects update events; waits until `want` have arrived or the deadline passes.
func (x *Nd) drainUpdates(want int, wait time.Duration) []event.Update {
	var out []event.Update
	deadline := time.After(wait)
	for {
		if len(out) >= want {
			// take whatever else is immediately available
			select {
			case m := <-x.upd.Message():
				if u, ok := m.Data.(event.Update); ok {
					out = append(out, u)
				}
				continue
			case <-time.After(3 * time.Millisecond):
				return out
			}
		}
		select {
		case m := <-x.upd.Message():
			if u, ok := m.Data.(event.Update); ok {
				out = append(out, u)
			}
		case <-deadline:
			return out
		}
	}
}

// ---- raw store access

func (x *Nd) scan(ctx context.Context, prefix string) map[string][]byte {
	out := map[string][]byte{}
	it, err := x.n.DB.Rootstore().Iterator(ctx, corekv.IterOptions{Prefix: []byte(prefix)})
	if err != nil {
		panic(err)
	}
	for {
		ok, err := it.Next()
		if err != nil {
			panic(err)
		}
		if !ok {
			break
		}
		v, _ := it.Value()
		out[string(it.Key())] = append([]byte{}, v...)
	}
	_ = it.Close()
	return out
}

func blockKey(c cid.Cid) []byte { return []byte("/db/blocks" + verifhook.BlockKeySuffix(c)) }

func (x *Nd) rawBlock(ctx context.Context, c cid.Cid) ([]byte, bool) {
	v, err := x.n.DB.Rootstore().Get(ctx, blockKey(c))
	if err != nil {
		return nil, false
	}
	return append([]byte{}, v...), true
}

func (x *Nd) putRawBlock(ctx context.Context, c cid.Cid, raw []byte) {
	if err := x.n.DB.Rootstore().Set(ctx, blockKey(c), raw); err != nil {
		panic(err)
	}
}

// copyClosure copies the block c and everything reachable through heads and links
// (and signature links) from `from` to `to`; returns the number of blocks copied.
func copyClosure(ctx context.Context, from, to *Nd, c cid.Cid) int {
	n := 0
	seen := map[string]bool{}
	var walk func(c cid.Cid)
	walk = func(c cid.Cid) {
		if seen[c.String()] {
			return
		}
		seen[c.String()] = true
		raw, ok := from.rawBlock(ctx, c)
		if !ok {
			return
		}
		if _, has := to.rawBlock(ctx, c); !has {
			to.putRawBlock(ctx, c, raw)
			n++
		}
		bi, err := verifhook.DecodeBlock(raw)
		if err != nil {
			return // signature blocks and the like: leaf
		}
		for _, h := range bi.Heads {
			walk(mustCid(h))
		}
		for _, l := range bi.Links {
			walk(mustCid(l[1]))
		}
		if bi.Signature != "" {
			walk(mustCid(bi.Signature))
		}
	}
	walk(c)
	return n
}

func mustCid(s string) cid.Cid {
	c, err := cid.Decode(s)
	if err != nil {
		panic(err)
	}
	return c
}

type merger interface {
	VerifMerge(ctx context.Context, evt event.Merge) error
}

// merge runs the synchronous merge hook; returns the error text ("" on success).
func (x *Nd) merge(ctx context.Context, docID string, c cid.Cid, collectionID string) string {
	m, ok := x.n.DB.(merger)
	if !ok {
		panic("VerifMerge hook missing: build with -tags verif")
	}
	var errText string
	func() {
		defer func() {
			if p := recover(); p != nil {
				errText = fmt.Sprintf("PANIC: %v", p)
			}
		}()
		if err := m.VerifMerge(ctx, event.Merge{DocID: docID, Cid: c, CollectionID: collectionID}); err != nil {
			errText = err.Error()
		}
	}()
	return errText
}

// heads returns the composite head cids of a document from the raw head store: key -> height.
func (x *Nd) heads(ctx context.Context, docID string) map[string]uint64 {
	out := map[string]uint64{}
	for k, v := range x.scan(ctx, "/db/heads/d/"+docID+"/C/") {
		parts := strings.Split(k, "/")
		h := uint64(0)
		// value is a uvarint height
		var shift uint
		for _, b := range v {
			h |= uint64(b&0x7f) << shift
			if b < 0x80 {
				break
			}
			shift += 7
		}
		out[parts[len(parts)-1]] = h
	}
	return out
}

func sortedKeys[V any](m map[string]V) []string {
	ks := make([]string, 0, len(m))
	for k := range m {
		ks = append(ks, k)
	}
	sort.Strings(ks)
	return ks
}

func sha256hex(b []byte) string { h := sha256.Sum256(b); return fmt.Sprintf("%x", h[:]) }

func canonJSON(v any) string {
	b, err := json.Marshal(v)
	if err != nil {
		return fmt.Sprintf("%v", v)
	}
	return string(b)
}

func getCol(ctx context.Context, x *Nd, name string) client.Collection {
	c, err := x.n.DB.GetCollectionByName(ctx, name)
	if err != nil {
		panic(err)
	}
	return c
}
