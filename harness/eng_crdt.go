package main

// Engine "crdt" (C01, C02, C04): histories of concurrent creates / updates / deletes on 2-4 real
// nodes with commits delivered in any order, duplicated and redelivered (closure copied into the
// receiver's block store, then the synchronous merge hook).
//
// Direct oracles evaluated on the implementation (no model needed):
//   C01  at quiescence all nodes return identical rows and identical head sets; no merge fails;
//   C02  after every step, on the node that stepped: counters = sum of the merged increments,
//        registers hold a causally latest merged write, deleted iff a merged commit deleted;
//   C04  every new block is filed under the hash of its bytes, height = 1 + max(parent heights),
//        links resolve, heads = maximal merged commits (document and field level).
// The same histories, with the observed rows / heads / merge results, are written as Coq cases;
// the operational model of Crdt/Replica.v is stepped on them (CorrCRDT.check_case).

import (
	"bytes"
	"context"
	"crypto/sha256"
	"fmt"
	"math"
	"os"
	"sort"
	"strings"
	"time"

	"github.com/fxamacker/cbor/v2"
	"github.com/ipfs/go-cid"

	"github.com/sourcenetwork/defradb/client"
	"github.com/sourcenetwork/defradb/verifhook"
)

type fieldSpec struct {
	name string
	gql  string
	kind string // lww-str lww-int lww-bool pn p pnf
}

var crdtFields = []fieldSpec{
	{"name", "String", "lww-str"},
	{"age", "Int", "lww-int"},
	{"flag", "Boolean", "lww-bool"},
	{"points", "Int @crdt(type: pncounter)", "pn"},
	{"score", "Int @crdt(type: pcounter)", "p"},
	{"rate", "Float @crdt(type: pncounter)", "pnf"},
}

func crdtSchema(cfg string) string {
	var sb strings.Builder
	if cfg == "branchable" {
		sb.WriteString("type User @branchable {\n")
	} else {
		sb.WriteString("type User {\n")
	}
	sb.WriteString("  tag: String\n")
	for _, f := range crdtFields {
		line := "  " + f.name + ": " + f.gql
		if cfg == "indexed" && (f.name == "name" || f.name == "age") {
			line += " @index"
		}
		sb.WriteString(line + "\n")
	}
	if cfg == "indexed" {
		sb.WriteString("  uid: String @index(unique: true)\n")
	}
	sb.WriteString("}\n")
	return sb.String()
}

type cblock struct {
	id   int
	cid  string
	info verifhook.BlockInfo
}

type stepObs struct {
	kind    string // local | deliver
	node    int
	cid     int // composite block id written / delivered
	errText string
	exists  bool
	deleted bool
	vals    map[string]any // field -> value
	heads   []int
}

type history struct {
	e       *Env
	ctx     context.Context
	nodes   []*Nd
	cfg     string
	tag     string
	docID   string
	colID   string
	blocks  map[string]*cblock
	byID    []*cblock
	comps   []string          // composite cids in creation order
	colCids []string          // collection-level commits (branchable)
	merged  []map[string]bool // per node: merged composite cids
	steps   []stepObs
	desc    []string // human-readable op log (replay)
	bad     bool
}

var cborEnc = func() cbor.EncMode {
	m, err := client.CborEncodingOptions().EncMode()
	if err != nil {
		panic(err)
	}
	return m
}()

func (h *history) register(x *Nd, c cid.Cid) *cblock {
	if b, ok := h.blocks[c.String()]; ok {
		return b
	}
	raw, ok := x.rawBlock(h.ctx, c)
	if !ok {
		h.e.violate("dag-closure", fmt.Sprintf("block %s announced or linked but not in the block store of %s", c, x.name), h.replay())
		h.bad = true
		return nil
	}
	// C04 (a): filed under the hash of its own bytes
	sum := sha256.Sum256(raw)
	mh := c.Hash()
	if len(mh) < 34 || !bytes.Equal(mh[len(mh)-32:], sum[:]) {
		h.e.violate("dag-hash", fmt.Sprintf("block %s is not filed under the sha256 of its bytes", c), h.replay())
	}
	bi, err := verifhook.DecodeBlock(raw)
	if err != nil {
		h.e.violate("dag-decode", fmt.Sprintf("block %s does not decode: %v", c, err), h.replay())
		h.bad = true
		return nil
	}
	b := &cblock{id: len(h.byID), cid: c.String(), info: bi}
	h.blocks[b.cid] = b
	h.byID = append(h.byID, b)
	// parents and links first (they get ids too); C04 (b) closure, (c) heights
	maxp := uint64(0)
	for _, p := range bi.Heads {
		pb := h.register(x, mustCid(p))
		if pb != nil && pb.info.Priority > maxp {
			maxp = pb.info.Priority
		}
	}
	for _, l := range bi.Links {
		h.register(x, mustCid(l[1]))
	}
	if bi.Priority != maxp+1 {
		h.e.violate("dag-height", fmt.Sprintf("block %s height %d, greatest parent height %d", c, bi.Priority, maxp), h.replay())
	}
	return b
}

func (h *history) ancestors(c string, into map[string]bool) {
	if into[c] {
		return
	}
	into[c] = true
	for _, p := range h.blocks[c].info.Heads {
		h.ancestors(p, into)
	}
}

func (h *history) replay() any {
	return map[string]any{"config": h.cfg, "nodes": len(h.nodes), "ops": append([]string{}, h.desc...)}
}

// reference state F(merged) computed by the harness from the blocks it has seen
type refState struct {
	exists   bool
	deleted  bool
	counters map[string]float64         // field -> sum (ints are exact in float64 for our ranges)
	latest   map[string]map[string]bool // field -> set of admissible CBOR values (hex) of causally latest writes
	heads    map[string]bool
	fheads   map[string]map[string]bool // field -> field-level heads
}

func (h *history) reference(n int) refState {
	rs := refState{counters: map[string]float64{}, latest: map[string]map[string]bool{}, heads: map[string]bool{}, fheads: map[string]map[string]bool{}}
	m := h.merged[n]
	if len(m) == 0 {
		return rs
	}
	rs.exists = true
	hasChild := map[string]bool{}
	fieldBlocks := map[string][]*cblock{}
	for c := range m {
		b := h.blocks[c]
		if b.info.Status == 2 {
			rs.deleted = true
		}
		for _, p := range b.info.Heads {
			hasChild[p] = true
		}
		for _, l := range b.info.Links {
			fb := h.blocks[l[1]]
			if fb != nil && fb.info.Kind != "composite" {
				fieldBlocks[fb.info.FieldName] = append(fieldBlocks[fb.info.FieldName], fb)
			}
		}
	}
	for c := range m {
		if !hasChild[c] {
			rs.heads[c] = true
		}
	}
	for f, bs := range fieldBlocks {
		child := map[string]bool{}
		for _, b := range bs {
			for _, p := range b.info.Heads {
				child[p] = true
			}
		}
		rs.fheads[f] = map[string]bool{}
		rs.latest[f] = map[string]bool{}
		for _, b := range bs {
			if !child[b.cid] {
				rs.fheads[f][b.cid] = true
				rs.latest[f][fmt.Sprintf("%x", b.info.Data)] = true
			}
			if b.info.Kind == "counter" {
				var v float64
				if err := cbor.Unmarshal(b.info.Data, &v); err == nil {
					rs.counters[f] += v
				}
			}
		}
	}
	return rs
}

const crdtRowQuery = `query { User(showDeleted: true, filter: {tag: {_eq: "%s"}}) { _docID _deleted name age flag points score rate } }`

func (h *history) observe(n int) (bool, bool, map[string]any, string) {
	x := h.nodes[n]
	data, errs := x.gql(h.ctx, fmt.Sprintf(crdtRowQuery, h.tag))
	if errs != "" {
		return false, false, nil, errs
	}
	rows := rowsOf(data, "User")
	if len(rows) == 0 {
		return false, false, nil, ""
	}
	if len(rows) > 1 {
		return true, false, nil, fmt.Sprintf("%d rows for one document", len(rows))
	}
	r := rows[0]
	del, _ := r["_deleted"].(bool)
	vals := map[string]any{}
	for _, f := range crdtFields {
		vals[f.name] = r[f.name]
	}
	return true, del, vals, ""
}

func numOf(v any) (float64, bool) {
	switch x := v.(type) {
	case int64:
		return float64(x), true
	case int:
		return float64(x), true
	case uint64:
		return float64(x), true
	case float64:
		return x, true
	case nil:
		return 0, true // a counter never written reads null
	}
	return 0, false
}

// afterStep records the observation and evaluates the C02 / C04 oracles on node n.
func (h *history) afterStep(kind string, n int, cblk *cblock, errText string) {
	x := h.nodes[n]
	exists, deleted, vals, qerr := h.observe(n)
	if qerr != "" {
		h.e.violate("query-error", "row query failed on "+x.name+": "+qerr, h.replay())
		h.bad = true
		return
	}
	ref := h.reference(n)
	// C02: exactly-once effects
	if exists != ref.exists {
		h.e.violate("doc-presence", fmt.Sprintf("%s: document present=%v, merged commits=%d", x.name, exists, len(h.merged[n])), h.replay())
	}
	if exists && ref.exists {
		if deleted != ref.deleted {
			h.e.violate("delete-status", fmt.Sprintf("%s: _deleted=%v but a delete commit merged=%v", x.name, deleted, ref.deleted), h.replay())
		}
		for _, f := range crdtFields {
			v := vals[f.name]
			switch f.kind {
			case "pn", "p", "pnf":
				got, ok := numOf(v)
				if !ok || got != ref.counters[f.name] {
					kind := "counter-sum"
					if f.kind == "pnf" {
						kind = "float-counter-sum"
					}
					h.e.violate(kind, fmt.Sprintf("%s: counter %s reads %v, sum of merged increments %v", x.name, f.name, v, ref.counters[f.name]), h.replay())
				}
			default:
				enc, _ := cborEnc.Marshal(v)
				adm := ref.latest[f.name]
				if len(adm) == 0 {
					if v != nil {
						h.e.violate("register-phantom", fmt.Sprintf("%s: field %s reads %v but no merged commit wrote it", x.name, f.name, v), h.replay())
					}
				} else if !adm[fmt.Sprintf("%x", enc)] {
					h.e.violate("register-not-latest", fmt.Sprintf("%s: field %s reads %v (cbor %x), not the value of a causally latest merged write %v", x.name, f.name, v, enc, sortedKeys(adm)), h.replay())
				}
			}
		}
	}
	// C04 (d): heads = maximal merged commits, document level and field level
	hk := x.scan(h.ctx, "/db/heads/d/"+h.docID+"/")
	gotHeads := map[string]bool{}
	gotF := map[string]map[string]bool{}
	for k := range hk {
		parts := strings.Split(k, "/")
		c := parts[len(parts)-1]
		b := h.blocks[c]
		if b == nil {
			h.e.violate("dag-unknown-head", fmt.Sprintf("%s: head %s is not a block of this history", x.name, c), h.replay())
			continue
		}
		if b.info.Kind == "composite" {
			gotHeads[c] = true
		} else {
			if gotF[b.info.FieldName] == nil {
				gotF[b.info.FieldName] = map[string]bool{}
			}
			gotF[b.info.FieldName][c] = true
		}
	}
	if fmt.Sprint(sortedKeys(gotHeads)) != fmt.Sprint(sortedKeys(ref.heads)) {
		h.e.violate("dag-heads", fmt.Sprintf("%s: heads %v, maximal merged commits %v", x.name, h.ids(sortedKeys(gotHeads)), h.ids(sortedKeys(ref.heads))), h.replay())
	}
	for f, want := range ref.fheads {
		if fmt.Sprint(sortedKeys(gotF[f])) != fmt.Sprint(sortedKeys(want)) {
			// F26: a register block written identically on two nodes (same value, same parent: same cid) is
			// linked from two commits; merging the second commit processes it again and re-adds it as a head.
			kind := "dag-field-heads-shared-block"
			for c := range want {
				if !gotF[f][c] {
					kind = "dag-field-heads"
				}
			}
			for c := range gotF[f] {
				if !want[c] && h.linkCount(c) < 2 {
					kind = "dag-field-heads"
				}
			}
			h.e.violate(kind, fmt.Sprintf("%s: field %s heads %v, maximal merged %v", x.name, f, h.ids(sortedKeys(gotF[f])), h.ids(sortedKeys(want))), h.replay())
		}
	}
	var hs []int
	for c := range gotHeads {
		hs = append(hs, h.blocks[c].id)
	}
	sort.Ints(hs)
	id := -1
	if cblk != nil {
		id = cblk.id
	}
	h.steps = append(h.steps, stepObs{kind: kind, node: n, cid: id, errText: errText, exists: exists, deleted: deleted, vals: vals, heads: hs})
}

// linkCount is the number of distinct commits of this history that link to the given field block.
func (h *history) linkCount(c string) int {
	n := 0
	for _, b := range h.byID {
		for _, l := range b.info.Links {
			if l[1] == c {
				n++
			}
		}
	}
	return n
}

func (h *history) ids(cs []string) []int {
	var out []int
	for _, c := range cs {
		if b := h.blocks[c]; b != nil {
			out = append(out, b.id)
		}
	}
	return out
}

// ---- operations

func gqlFields(vals map[string]any) string {
	var parts []string
	for _, k := range sortedKeys(vals) {
		switch v := vals[k].(type) {
		case nil:
			parts = append(parts, k+": null")
		case string:
			parts = append(parts, fmt.Sprintf("%s: %q", k, v))
		default:
			parts = append(parts, fmt.Sprintf("%s: %v", k, v))
		}
	}
	return strings.Join(parts, ", ")
}

func (h *history) local(n int, what, mutation string) bool {
	x := h.nodes[n]
	x.drainUpdates(0, 0)
	_, errs := x.gql(h.ctx, mutation)
	h.desc = append(h.desc, fmt.Sprintf("%s@%s %s", what, x.name, mutation))
	if errs != "" {
		h.desc[len(h.desc)-1] += " -> ERROR " + errs
		h.e.count("local_error")
		// a rejected local write must not change anything: re-observe against the unchanged reference
		h.afterStep("local-rejected", n, nil, errs)
		return false
	}
	want := 1
	if h.cfg == "branchable" {
		want = 2
	}
	evs := x.drainUpdates(want, 2*time.Second)
	if len(evs) != want {
		h.e.violate("event-count", fmt.Sprintf("%s: %d update events for one committed %s (expected %d)", x.name, len(evs), what, want), h.replay())
	}
	var comp *cblock
	for _, ev := range evs {
		b := h.register(x, ev.Cid)
		if b == nil {
			return false
		}
		h.colID = ev.CollectionID
		if b.info.Kind == "composite" {
			if h.docID == "" {
				h.docID = ev.DocID
			}
			comp = b
			h.comps = appendUniq(h.comps, b.cid)
			h.merged[n][b.cid] = true
			// the writer's parents are merged on the writer by construction
			for _, p := range b.info.Heads {
				h.ancestors(p, h.merged[n])
			}
		} else if b.info.Kind == "collection" {
			h.colCids = appendUniq(h.colCids, b.cid)
		}
	}
	h.e.count("op_" + what)
	h.afterStep("local", n, comp, "")
	return true
}

func appendUniq(l []string, s string) []string {
	for _, x := range l {
		if x == s {
			return l
		}
	}
	return append(l, s)
}

func (h *history) deliver(n int, c string, why string) {
	x := h.nodes[n]
	b := h.blocks[c]
	// the closure is taken from whichever node has the block
	for _, src := range h.nodes {
		if _, ok := src.rawBlock(h.ctx, mustCid(c)); ok && src != x {
			copyClosure(h.ctx, src, x, mustCid(c))
			break
		}
	}
	docID := h.docID
	if b.info.Kind == "collection" {
		docID = ""
	}
	errText := x.merge(h.ctx, docID, mustCid(c), h.colID)
	h.desc = append(h.desc, fmt.Sprintf("deliver(%s) #%d h=%d -> %s %s", why, b.id, b.info.Priority, x.name, errText))
	h.e.count("deliver_" + why)
	if errText != "" {
		h.e.violate("merge-failed", fmt.Sprintf("%s: merge of well-formed commit #%d failed: %s", x.name, b.id, errText), h.replay())
	} else if b.info.Kind == "composite" {
		h.ancestors(c, h.merged[n])
	} else {
		// collection-level commit: brings the linked document commits
		for _, l := range b.info.Links {
			if lb := h.blocks[l[1]]; lb != nil && lb.info.Kind == "composite" && lb.info.DocID == h.docID {
				h.ancestors(l[1], h.merged[n])
			}
		}
	}
	h.afterStep("deliver", n, b, errText)
}

var crdtNames = []string{"a", "b", "", "ab", "B", "zz", "a"}

func (h *history) randVals(r *Rng, create bool, onlyPositiveScore bool) map[string]any {
	vals := map[string]any{}
	for _, f := range crdtFields {
		if !r.Chance(45) {
			continue
		}
		switch f.kind {
		case "lww-str":
			if r.Chance(20) {
				vals[f.name] = nil
			} else {
				vals[f.name] = Pick(r, crdtNames)
			}
		case "lww-int":
			if r.Chance(15) {
				vals[f.name] = nil
			} else {
				vals[f.name] = r.Intn(5) - 2
			}
		case "lww-bool":
			if r.Chance(15) {
				vals[f.name] = nil
			} else {
				vals[f.name] = r.Bool()
			}
		case "pn":
			vals[f.name] = r.Intn(41) - 20
		case "p":
			vals[f.name] = r.Intn(10)
		case "pnf":
			// dyadic values only: their sums are exact, so order of addition cannot matter (F3 is separate)
			vals[f.name] = float64(r.Intn(65)-32) / 8
		}
	}
	_ = create
	return vals
}

func runCrdtHistory(e *Env, ctx context.Context, r *Rng, nodes []*Nd, cfg string, serial int) *history {
	h := &history{e: e, ctx: ctx, nodes: nodes, cfg: cfg, tag: fmt.Sprintf("t%d_%d", e.Seed, serial), blocks: map[string]*cblock{}}
	for range nodes {
		h.merged = append(h.merged, map[string]bool{})
	}
	k := len(nodes)
	// creation: on one node, or identically on two (same genesis commit)
	cv := h.randVals(r, true, true)
	cv["tag"] = h.tag
	if cfg == "indexed" {
		cv["uid"] = h.tag
	}
	create := fmt.Sprintf(`mutation { create_User(input: {%s}) { _docID } }`, gqlFields(cv))
	first := r.Intn(k)
	if !h.local(first, "create", create) {
		return h
	}
	if r.Chance(25) {
		second := (first + 1 + r.Intn(k-1)) % k
		h.local(second, "create", create)
	}
	nOps := 4 + r.Intn(12)
	if e.thorough() {
		nOps = 4 + r.Intn(30)
	}
	for i := 0; i < nOps && !h.bad; i++ {
		switch {
		case r.Chance(55):
			// local write on a node that has the document and has not deleted it
			var cands []int
			for n := range nodes {
				if len(h.merged[n]) > 0 && !h.reference(n).deleted {
					cands = append(cands, n)
				}
			}
			if len(cands) == 0 {
				continue
			}
			n := Pick(r, cands)
			if r.Chance(8) {
				h.local(n, "delete", fmt.Sprintf(`mutation { delete_User(docID: "%s") { _docID } }`, h.docID))
			} else {
				uv := h.randVals(r, false, true)
				if len(uv) == 0 {
					uv["age"] = r.Intn(5) - 2
				}
				h.local(n, "update", fmt.Sprintf(`mutation { update_User(docID: "%s", input: {%s}) { _docID } }`, h.docID, gqlFields(uv)))
			}
		default:
			n := r.Intn(k)
			switch r.Intn(4) {
			case 0: // a head of some other node
				src := r.Intn(k)
				hs := sortedKeys(h.reference(src).heads)
				if len(hs) > 0 {
					h.deliver(n, Pick(r, hs), "head")
				}
			case 1: // any commit: interior blocks, already merged ancestors
				h.deliver(n, Pick(r, h.comps), "any")
			case 2: // redelivery of something this node has merged
				ms := sortedKeys(h.merged[n])
				if len(ms) > 0 {
					h.deliver(n, Pick(r, ms), "redeliver")
				}
			default:
				if cfg == "branchable" && len(h.colCids) > 0 {
					h.deliver(n, Pick(r, h.colCids), "collection")
				} else {
					h.deliver(n, Pick(r, h.comps), "any")
				}
			}
		}
	}
	if h.bad {
		return h
	}
	// quiescence: every commit to every node, in a random order, then compare (C01)
	type dl struct {
		n int
		c string
	}
	var all []dl
	for n := range nodes {
		for _, c := range h.comps {
			if !h.merged[n][c] || r.Chance(20) {
				all = append(all, dl{n, c})
			}
		}
	}
	Shuffle(r, all)
	for _, d := range all {
		if h.bad {
			return h
		}
		h.deliver(d.n, d.c, "final")
	}
	h.versionedSweep(r.Intn(k), nil)
	var ref string
	for n := range nodes {
		ex, del, vals, _ := h.observe(n)
		hd := sortedKeys(nodes[n].heads(ctx, h.docID))
		s := fmt.Sprintf("exists=%v deleted=%v vals=%s heads=%v", ex, del, canonJSON(vals), h.ids(hd))
		if n == 0 {
			ref = s
		} else if s != ref {
			kind := "divergence"
			e.violate(kind, fmt.Sprintf("after every node merged every commit: %s shows %s but %s shows %s", nodes[0].name, ref, nodes[n].name, s), h.replay())
			break
		}
	}
	return h
}

// ---- Coq rendering of a history

func (h *history) fieldIndex(name string) int {
	for i, f := range crdtFields {
		if f.name == name {
			return i
		}
	}
	return -1
}

func (h *history) coq() (string, bool) {
	if h.bad || len(h.steps) == 0 {
		return "", false
	}
	var bl []string
	for _, b := range h.byID {
		var parents, links []string
		for _, p := range b.info.Heads {
			parents = append(parents, fmt.Sprint(h.blocks[p].id))
		}
		for _, l := range b.info.Links {
			if lb := h.blocks[l[1]]; lb != nil {
				links = append(links, fmt.Sprint(lb.id))
			}
		}
		var delta string
		fi := -1
		switch b.info.Kind {
		case "composite":
			delta = "(DStatus " + coqBool(b.info.Status == 2) + ")"
		case "lww":
			delta = "(DReg " + zlist(b.info.Data) + ")"
			fi = h.fieldIndex(b.info.FieldName)
		case "counter":
			fi = h.fieldIndex(b.info.FieldName)
			if crdtFields[fi].kind == "pnf" {
				var f float64
				_ = cbor.Unmarshal(b.info.Data, &f)
				// dyadic by construction: scaled by 8 it is an integer
				delta = "(DCtr " + zint(int64(math.Round(f*8))) + ")"
			} else {
				var v int64
				_ = cbor.Unmarshal(b.info.Data, &v)
				delta = "(DCtr " + zint(v) + ")"
			}
		case "collection":
			delta = "DColl"
		}
		bl = append(bl, fmt.Sprintf("mkB %s %d [%s]%%nat [%s]%%nat %s", zint(int64(fi)), b.info.Priority, strings.Join(parents, ";"), strings.Join(links, ";"), delta))
	}
	var st []string
	for _, s := range h.steps {
		var row string
		if !s.exists {
			row = "None"
		} else {
			var fs []string
			for _, f := range crdtFields {
				v := s.vals[f.name]
				switch f.kind {
				case "pn", "p":
					n, _ := numOf(v)
					fs = append(fs, "OCtr "+zint(int64(n)))
				case "pnf":
					n, _ := numOf(v)
					fs = append(fs, "OCtr "+zint(int64(math.Round(n*8))))
				default:
					enc, _ := cborEnc.Marshal(v)
					fs = append(fs, "OReg "+zlist(enc))
				}
			}
			row = fmt.Sprintf("(Some (%s, [%s]))", coqBool(s.deleted), strings.Join(fs, ";"))
		}
		var hs []string
		for _, x := range s.heads {
			hs = append(hs, fmt.Sprint(x))
		}
		kind := "SLocal"
		switch s.kind {
		case "deliver":
			kind = "SDeliver"
		case "local-rejected":
			kind = "SNoop"
		case "versioned":
			kind = "SVersioned"
		case "local-quiet":
			kind = "SLocalQ"
		}
		st = append(st, fmt.Sprintf("mkS %s %d %s %s %s [%s]%%nat", kind, s.node, zint(int64(s.cid)), coqBool(s.errText != ""), row, strings.Join(hs, ";")))
	}
	return fmt.Sprintf("mkH %d [%s]\n   [%s]", len(h.nodes), strings.Join(bl, "; "), strings.Join(st, ";\n    ")), true
}

func engCrdt(e *Env) {
	ctx := context.Background()
	r := NewRng(e.Seed)
	e.Res.Rule = "histories: 2-4 real nodes, one document, 4-16 (thorough: -34) steps mixing local create/update/delete (register kinds incl. null, int and dyadic float counters) with deliveries of heads, arbitrary commits and already merged commits, then delivery of everything in random order; configs plain / branchable / indexed; distinct = distinct op log; non-trivial = at least one delivery that is not of a current head"
	nHist := 120
	if e.thorough() {
		nHist = 3000
	}
	if e.N > 0 {
		nHist = e.N
	}
	cfgs := []string{"plain", "plain", "indexed", "branchable"}
	if only := e.Args["cfg"]; only != "" {
		cfgs = []string{only}
	}
	var cases []string
	serial := 0
	perCluster := 30
	for done := 0; done < nHist; {
		cfg := cfgs[(done/perCluster)%len(cfgs)]
		k := 2 + r.Intn(3)
		var nodes []*Nd
		for i := 0; i < k; i++ {
			x := newNd(ctx, fmt.Sprintf("N%d", i))
			x.addSchema(ctx, crdtSchema(cfg))
			nodes = append(nodes, x)
		}
		for j := 0; j < perCluster && done < nHist; j++ {
			serial++
			hr := r.Fork()
			var h *history
			if cfg != "branchable" && j%5 == 4 {
				h = runLinearHistory(e, ctx, hr, nodes, serial)
				e.count("linear_history")
			} else {
				h = runCrdtHistory(e, ctx, hr, nodes, cfg, serial)
			}
			done++
			e.Res.Evaluations++
			e.count("cfg_" + cfg)
			e.count(fmt.Sprintf("nodes_%d", k))
			nontrivial := false
			for _, d := range h.desc {
				if strings.HasPrefix(d, "deliver(any)") || strings.HasPrefix(d, "deliver(redeliver)") {
					nontrivial = true
				}
			}
			if nontrivial {
				e.distinct(strings.Join(h.desc, "|"))
			}
			if serial <= 2 {
				e.sample(h.replay())
			}
			if cfg != "branchable" {
				if c, ok := h.coq(); ok {
					cases = append(cases, c)
				}
			}
		}
		for _, x := range nodes {
			x.close(ctx)
		}
	}
	f3Witness(e, ctx)
	e.writeCasesSharded("cases_CRDT", "CorrCRDT", "hcase", cases, 40)
}

// f3Witness replays the recorded finding F3 (float counters, non-associative addition): it is reported
// under its own kind so that the known-findings file can match exactly this shape.
func f3Witness(e *Env, ctx context.Context) {
	var nodes []*Nd
	for i := 0; i < 3; i++ {
		x := newNd(ctx, fmt.Sprintf("W%d", i))
		x.addSchema(ctx, crdtSchema("plain"))
		nodes = append(nodes, x)
	}
	defer func() {
		for _, x := range nodes {
			x.close(ctx)
		}
	}()
	h := &history{e: e, ctx: ctx, nodes: nodes, cfg: "plain", tag: fmt.Sprintf("f3_%d", e.Seed), blocks: map[string]*cblock{}}
	for range nodes {
		h.merged = append(h.merged, map[string]bool{})
	}
	saved := len(e.Res.Violations)
	h.local(0, "create", fmt.Sprintf(`mutation { create_User(input: {tag: "%s", rate: 0.2}) { _docID } }`, h.tag))
	g := h.comps[0]
	h.deliver(1, g, "head")
	h.deliver(2, g, "head")
	h.local(1, "update", fmt.Sprintf(`mutation { update_User(docID: "%s", input: {rate: 0.1}) { _docID } }`, h.docID))
	h.local(2, "update", fmt.Sprintf(`mutation { update_User(docID: "%s", input: {rate: 0.3}) { _docID } }`, h.docID))
	a, b := h.comps[1], h.comps[2]
	h.deliver(1, b, "head")
	h.deliver(2, a, "head")
	// inexact sums: the per-step reference (float64 sum in block order) is not meaningful here
	e.Res.Violations = e.Res.Violations[:saved]
	_, _, v1, _ := h.observe(1)
	_, _, v2, _ := h.observe(2)
	if os.Getenv("VERIF_DEBUG") != "" {
		fmt.Println("F3 witness:", v1["rate"], v2["rate"], h.desc)
	}
	if fmt.Sprint(v1["rate"]) != fmt.Sprint(v2["rate"]) {
		e.violate("float-counter-order", fmt.Sprintf("both nodes merged the same commits (0.2, +0.1, +0.3): one reads rate=%v, the other %v", v1["rate"], v2["rate"]), h.replay())
	}
	e.count("f3_witness")
	wideCollectionWitness(e)
}

func init() { engines["crdt"] = engCrdt }
