package main

import (
	"context"
	"fmt"
	"sort"
	"strings"
)

// wideCollectionWitness (C04): a collection with 24 fields, whose field ids have one and two digits. Every commit of a
// field must have parents in the same field's history only (links named _head), height 1 + the greatest parent
// height, and after an update of one field the other fields keep their single genesis commit.
func wideCollectionWitness(e *Env) {
	ctx := context.Background()
	x := newNd(ctx, "W")
	x.noEvents()
	defer x.close(ctx)
	var fs, in []string
	for i := 1; i <= 24; i++ {
		fs = append(fs, fmt.Sprintf("f%02d: Int", i))
		in = append(in, fmt.Sprintf("f%02d: %d", i, i))
	}
	x.addSchema(ctx, "type Wide { "+strings.Join(fs, " ")+" }")
	d, errs := x.gql(ctx, "mutation { create_Wide(input: {"+strings.Join(in, ", ")+"}) { _docID } }")
	if errs != "" {
		e.violate("harness-crdt", "wide create: "+errs, nil)
		return
	}
	id := rowsOf(d, "create_Wide")[0]["_docID"]
	steps := []string{"create with 24 fields"}
	check := func() {
		c, errs := x.gql(ctx, fmt.Sprintf(`query { commits(docID: "%v") { cid fieldName height links { name cid } } }`, id))
		if errs != "" {
			e.violate("query-error", errs, nil)
			return
		}
		fieldOf, heightOf := map[string]string{}, map[string]int64{}
		for _, row := range rowsOf(c, "commits") {
			fieldOf[fmt.Sprint(row["cid"])] = fmt.Sprint(row["fieldName"])
			h, _ := row["height"].(int64)
			heightOf[fmt.Sprint(row["cid"])] = h
		}
		for _, row := range rowsOf(c, "commits") {
			f := fmt.Sprint(row["fieldName"])
			var maxp int64
			for _, l := range rowsOf(row, "links") {
				if fmt.Sprint(l["name"]) != "_head" {
					continue
				}
				p := fmt.Sprint(l["cid"])
				if fieldOf[p] != f {
					e.violate("dag-field-heads", fmt.Sprintf("collection with 24 fields: a commit of field %s (height %v) has a parent that is a commit of field %s", f, row["height"], fieldOf[p]), map[string]any{"operations": steps})
				}
				if heightOf[p] > maxp {
					maxp = heightOf[p]
				}
			}
			e.Res.Evaluations++
			if h, _ := row["height"].(int64); h != maxp+1 && fieldOf[fmt.Sprint(row["cid"])] != "" {
				ownParents := true
				for _, l := range rowsOf(row, "links") {
					if fmt.Sprint(l["name"]) == "_head" && fieldOf[fmt.Sprint(l["cid"])] != f {
						ownParents = false
					}
				}
				if ownParents {
					e.violate("dag-height", fmt.Sprintf("collection with 24 fields: commit of field %s has height %d, greatest parent height %d", f, h, maxp), map[string]any{"operations": steps})
				}
			}
		}
	}
	check()
	for _, f := range []string{"f01", "f02", "f11", "f24"} {
		x.gql(ctx, fmt.Sprintf(`mutation { update_Wide(docID: "%v", input: {%s: 100}) { _docID } }`, id, f))
		steps = append(steps, "update "+f)
		check()
	}
	e.count("wide_collection_witness")
	// the raw head keys of the document and, per field, the number of heads the node reports: the model lists the
	// keys by the prefix <field id>/ (Crdt/HeadKeys.v)
	prefix := fmt.Sprintf("/db/heads/d/%v/", id)
	var keys []string
	fieldOfCid := map[string]string{} // cid -> field id (from the key)
	for k := range x.scan(ctx, prefix) {
		rest := k[len(prefix):]
		keys = append(keys, rest)
		if i := strings.Index(rest, "/"); i > 0 {
			fieldOfCid[rest[i+1:]] = rest[:i]
		}
	}
	sort.Strings(keys)
	bytesOf := func(t string) string {
		var bs []string
		for _, c := range []byte(t) {
			bs = append(bs, fmt.Sprint(int(c)))
		}
		return "[" + strings.Join(bs, "; ") + "]"
	}
	var ks, fcs []string
	for _, k := range keys {
		ks = append(ks, bytesOf(k))
	}
	for i := 1; i <= 24; i++ {
		name := fmt.Sprintf("f%02d", i)
		d, errs := x.gql(ctx, fmt.Sprintf(`query { latestCommits(docID: "%v", fieldName: "%s") { cid } }`, id, name))
		if errs != "" {
			e.violate("query-error", errs, nil)
			continue
		}
		rows := rowsOf(d, "latestCommits")
		fid := ""
		for _, row := range rows {
			if f, ok := fieldOfCid[fmt.Sprint(row["cid"])]; ok {
				// the field's own head is the one written last for it: the group most of its heads fall into
				if fid == "" || len(f) < len(fid) {
					fid = f
				}
			}
		}
		if fid == "" {
			continue
		}
		e.Res.Evaluations++
		fcs = append(fcs, fmt.Sprintf("(%s, %d)", bytesOf(fid), len(rows)))
	}
	e.writeCasesSharded("cases_C04k", "CorrC04k", "kcase", []string{fmt.Sprintf("KCase [%s] [%s]", strings.Join(ks, "; "), strings.Join(fcs, "; "))}, 100)
}
