"""Per-property configuration of bin/check."""

COMMON_TRUSTED = [
    'Coq 8.16.1 kernel and vm_compute (no native_compute)',
    'tools/gosyn translator (Go constants and first-order function bodies -> Gallina), validated on every run by running generated Gallina and Go on the same inputs',
    'correspondence harness /verif/harness (generators, canonicalisation) and the //go:build verif hook files in /repo',
    'no Axiom/Parameter/Admitted in the development; Print Assumptions output per property file is appended below',
]

CRDT_COQ = ['Crdt/Model.v', 'Crdt/Sweep.v', 'Crdt/Order.v', 'Crdt/Conv.v', 'Crdt/Exact.v', 'Corr/CorrCRDT.v']
CRDT_TRUSTED = ['block ids are assigned by the harness; the hash function (cid) is not modelled, content addressing is checked on the implementation by recomputing SHA-256',
                'hand-written operational model of merge walk / ProcessBlock / updateHeads (Crdt/Model.v), tied by the per-step correspondence (row, heads, merge result after every step)',
                'field-level head sets, encrypted deltas, lens migrations and collection-level (branchable) blocks are not in the model; branchable histories are checked by the implementation oracle only']

PROPS = {
    'C01': {
        'level': 'proof',
        'coq': CRDT_COQ + ['Props/C01.v'],
        'props_files': ['Props/C01.v'],
        'engines': [{'name': 'crdt', 'kinds': ['divergence', 'merge-failed', 'float-counter-order', 'query-error', 'harness-.*']}],
        'corr_relation': 'CorrCRDT.check_case (operational replica model = real nodes, step by step)',
        'trusted': CRDT_TRUSTED,
        'assumptions': ['no-merge-failure clause: the model has no failing branch; it is established by the correspondence (every delivery on the real nodes must succeed) and the direct oracle'],
    },
    'C02': {
        'level': 'proof',
        'coq': CRDT_COQ + ['Props/C02.v'],
        'props_files': ['Props/C02.v'],
        'engines': [{'name': 'crdt', 'kinds': ['counter-sum', 'float-counter-sum', 'register-.*', 'delete-status', 'doc-presence', 'query-error', 'harness-.*']}],
        'corr_relation': 'CorrCRDT.check_case (operational replica model = real nodes, step by step)',
        'trusted': CRDT_TRUSTED,
        'assumptions': ['P-counter rejection of negative increments happens at write time and is not modelled'],
    },
    'C03': {
        'level': 'proof',
        'coq': CRDT_COQ + ['Crdt/Versioned.v', 'Props/C03.v'],
        'props_files': ['Props/C03.v'],
        'engines': [{'name': 'crdt', 'kinds': ['versioned-.*', 'subscription-.*', 'query-error', 'harness-.*']}],
        'corr_relation': 'CorrCRDT.check_case, SVersioned steps (versioned u c = row returned by <Collection>(cid: c, docID: d))',
        'trusted': CRDT_TRUSTED + ['the time-travel read is modelled as a delivery of the commit to an empty replica (VersionedFetcher.seekTo/merge after the F4 repair)'],
        'assumptions': ['subscription results are compared with the ordinary query recorded right after each commit (implementation oracle); the model covers the selection state, not the subscription plumbing (C20)'],
    },
    'C04': {
        'level': 'proof',
        'coq': CRDT_COQ + ['Props/C04.v'],
        'props_files': ['Props/C04.v'],
        'engines': [{'name': 'crdt', 'kinds': ['dag-.*', 'event-count', 'query-error', 'harness-.*']}],
        'corr_relation': 'CorrCRDT.check_case (predicted head set and local-write parents/height = observed)',
        'trusted': CRDT_TRUSTED,
        'assumptions': ['hash / height / closure of every block and genesis determinism are evaluated on the implementation (SHA-256 recomputed by the harness), not proved'],
    },
    'C05': {
        'level': 'proof',
        'coq': ['Kv/Txn.v', 'Corr/CorrC05.v', 'Props/C05.v'],
        'props_files': ['Props/C05.v'],
        'engines': [{'name': 'fault', 'timeout': 1500, 'timeout_thorough': 7200}],
        'corr_relation': 'CorrC05.check_case (the logged store operations of each real API call are a run of the model transaction: reads = snapshot + own writes, committed writes = observed final store)',
        'trusted': ['faults are injected at the corekv boundary by the kvtrace wrapper; Badger commits atomically (below the model)',
                    'the hypothesis "the program propagates storage errors" is what the code must supply; it is established per API call by enumerating the fault points on the real code (fault_enumeration), not by proof'],
        'assumptions': ['explicit transactions: commit and discard are no-ops for the call, a failed call leaves its partial writes in the caller\'s transaction (finding F17); the theorem is about implicit transactions'],
    },
    'C17': {
        'level': 'proof',
        'coq': ['Props/C17.v', 'Corr/CorrC17.v'],
        'props_files': ['Props/C17.v'],
        'engines': [{'name': 'codec'}],
        'corr_relation': 'CorrC17.check_case (generated encoders / model decoders = Go functions, byte for byte)',
        'trusted': ['floats are IEEE bit patterns; order is stated against the sign-magnitude key f64_okey (NaN lowest, -0 = +0); Go float comparison assumed IEEE',
                    'JSON scalar keys and float32 decode: implementation oracle only (not modelled)'],
        'assumptions': ['decoders, byte-string escaping and EncodeIndexDataStoreKey are hand transcriptions tied by the correspondence run; integer, float, bool, null, time encoders and PeekType are generated from the source'],
    },
}

MANIFEST_TEXT = {
    'C05': {'text': 'All-or-nothing for every error-propagating program, store and fault schedule is a Coq theorem over a transactional program model; that the real API calls are such programs is established by exhaustive fault enumeration at the corekv boundary: every store operation of every call kind is failed in turn on real nodes, with the raw store diff, logical dump and published events as oracle; the fault-free operation logs are replayed on the model transaction',
            'note': 'proof about the transaction discipline + fault enumeration on the real code for the hypothesis; Badger-internal faults and torn writes are below the injection point',
            'technique': 'Coq proof + exhaustive fault-point enumeration + trace replay'},
    'C17': {'text': 'Order preservation and round-trip of the integer and float64 key codecs are Coq theorems about Gallina functions regenerated from internal/encoding on every run; decoders, strings, time, composite keys are modelled by hand and tied by a byte-for-byte correspondence run plus the direct oracle on the Go functions',
            'note': 'trusted: Coq kernel, vm_compute, the gosyn translator, IEEE semantics of Go floats; JSON keys and float32 decode are covered by the implementation oracle only',
            'technique': 'Coq proof over translated code + differential correspondence'},
    'C01': {'text': 'Convergence is a Coq theorem over an operational replica model (level-sweep merge walk, LWW, counters, delete marker, heads) for every history, delivery order and duplication; the model is stepped on histories executed on 2-4 real nodes and must agree after every step; equality of all nodes at quiescence is also evaluated directly',
            'note': 'hand-written model tied by correspondence; hash function, field-level heads, branchable collection blocks and encryption not modelled; float counters are a recorded finding (F3)',
            'technique': 'Coq proof (invariant + permutation argument) + step-wise correspondence with real nodes'},
    'C02': {'text': 'Counter = sum of merged increments, register = lexicographic maximum of merged writes, delete sticky, ancestors visible: Coq theorems for every reachable replica state; checked on real nodes after every single delivery against a harness-side reference and against the model',
            'note': 'same model and trusted base as C01',
            'technique': 'Coq proof + step-wise correspondence with real nodes'},
    'C03': {'text': 'The time-travel state at commit c is the replay of exactly c and its ancestors, each once (Coq theorem); corollaries: equals any replica that merged exactly those commits (the writer right after c on a linear history), equals the current state at a single head, counters read prefix sums. Every commit of every generated history is queried by cid on real nodes and compared with the model, with a harness-side reference, with the recorded past query results and with subscription results',
            'note': 'same model and trusted base as C01; subscription plumbing is covered by the implementation oracle',
            'technique': 'Coq proof + correspondence on time-travel queries of every commit'},
    'C04': {'text': 'Heads = maximal merged commits, merged set closed under ancestry, merge walk exact (each unmerged ancestor once, parents first): Coq theorems; content addressing, heights, closure and field-level heads are evaluated on the raw stores of real nodes after every step',
            'note': 'hash function abstract in the model; SHA-256 recomputed by the harness; field-level heads: implementation oracle only; F26 recorded',
            'technique': 'Coq proof + raw store inspection'},
}
