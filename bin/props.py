"""Per-property configuration of bin/check."""

COMMON_TRUSTED = [
    'Coq 8.16.1 kernel and vm_compute (no native_compute)',
    'tools/gosyn translator (Go constants and first-order function bodies -> Gallina), validated on every run by running generated Gallina and Go on the same inputs',
    'correspondence harness /verif/harness (generators, canonicalisation) and the //go:build verif hook files in /repo',
    'no Axiom/Parameter/Admitted in the development; Print Assumptions output per property file is appended below',
]

PROPS = {
    'C17': {
        'level': 'proof',
        'coq': ['Props/C17.v', 'Corr/CorrC17.v'],
        'props_files': ['Props/C17.v'],
        'engines': [{'name': 'codec'}],
        'corr_relation': 'CorrC17.check_case (generated encoders / model decoders = Go functions, byte for byte)',
        'trusted': ['floats are IEEE bit patterns; order is stated against the sign-magnitude key f64_okey (NaN lowest, -0 = +0); Go float comparison assumed IEEE',
                    'JSON scalar keys and float32 decode: implementation oracle only (not modelled)'],
        'assumptions': ['decoders, byte-string escaping and EncodeIndexDataStoreKey are hand transcriptions tied by the correspondence run; integer, float, bool, null, time encoders and PeekType are generated from the source'],
    },
}
