// gosyn: a small Go -> Gallina translator for a first-order, loop-free subset of Go.
//
// It regenerates /verif/coq/gen/*.v from /repo's current sources on every run:
//   - every integer / string / byte constant of the listed packages (with iota), symbolically
//     where the Go source is symbolic (IntMin+8 stays "G_IntMin + 8");
//   - a Gallina transcription of the listed functions (integer arithmetic with explicit
//     wrap-around, byte(v>>k), append, tag-less switch, if/else, simple assignment).
//
// Anything outside the subset makes the function untranslatable: nothing is emitted for it,
// a line "TRANSLATOR-UNSUPPORTED <func> <pos> <what>" is printed, and the exit code is 3.
// The Coq development then fails to build at the bridge lemma that names the function, which
// the check driver reports as a broken proof obligation.
package main

import (
	"bytes"
	"flag"
	"fmt"
	"go/ast"
	"go/constant"
	"go/importer"
	"go/parser"
	"go/token"
	"go/types"
	"os"
	"path/filepath"
	"sort"
	"strings"
)

type fakeImporter struct{ src types.Importer }

func (f fakeImporter) Import(path string) (*types.Package, error) {
	if first := strings.Split(path, "/")[0]; !strings.Contains(first, ".") && f.src != nil {
		if p, err := f.src.Import(path); err == nil {
			return p, nil
		}
	}
	name := path[strings.LastIndex(path, "/")+1:]
	if name == "v2" || name == "v4" {
		p := strings.Split(path, "/")
		name = p[len(p)-2]
	}
	pkg := types.NewPackage(path, name)
	pkg.MarkComplete()
	return pkg, nil
}

type unit struct {
	fset  *token.FileSet
	files []*ast.File
	info  *types.Info
	pkg   *types.Package
	funcs map[string]*ast.FuncDecl
}

func load(dir string, names []string) (*unit, error) {
	u := &unit{fset: token.NewFileSet(), funcs: map[string]*ast.FuncDecl{}}
	for _, n := range names {
		f, err := parser.ParseFile(u.fset, filepath.Join(dir, n), nil, parser.ParseComments)
		if err != nil {
			return nil, err
		}
		u.files = append(u.files, f)
		for _, d := range f.Decls {
			if fd, ok := d.(*ast.FuncDecl); ok && fd.Recv == nil {
				u.funcs[fd.Name.Name] = fd
			}
		}
	}
	u.info = &types.Info{
		Types: map[ast.Expr]types.TypeAndValue{},
		Defs:  map[*ast.Ident]types.Object{},
		Uses:  map[*ast.Ident]types.Object{},
	}
	conf := types.Config{Importer: fakeImporter{importer.ForCompiler(u.fset, "source", nil)}, Error: func(error) {}}
	u.pkg, _ = conf.Check("p", u.fset, u.files, u.info)
	return u, nil
}

// ---------------------------------------------------------------- constants

type constOut struct {
	name string
	body string
	pos  token.Pos
}

func (u *unit) constants(prefix string) []constOut {
	var out []constOut
	for _, f := range u.files {
		for _, d := range f.Decls {
			gd, ok := d.(*ast.GenDecl)
			if !ok || gd.Tok != token.CONST {
				continue
			}
			var lastExprs []ast.Expr
			for iota, s := range gd.Specs {
				vs := s.(*ast.ValueSpec)
				exprs := vs.Values
				if len(exprs) == 0 {
					exprs = lastExprs
				} else {
					lastExprs = exprs
				}
				for i, id := range vs.Names {
					if id.Name == "_" {
						continue
					}
					obj, _ := u.info.Defs[id].(*types.Const)
					if obj == nil {
						continue
					}
					val := obj.Val()
					var body string
					switch val.Kind() {
					case constant.Int:
						// symbolic when the initialiser is an expression over other constants of
						// this package and it is explicit on this line; literal value otherwise.
						body = val.ExactString()
						if len(vs.Values) > i {
							if s, ok := u.symConst(vs.Values[i], prefix); ok {
								body = s
							}
						}
						_ = iota
						if strings.HasPrefix(body, "-") {
							body = "(" + body + ")"
						}
						out = append(out, constOut{prefix + id.Name, body + "%Z", id.Pos()})
					case constant.String:
						out = append(out, constOut{prefix + id.Name, bytesLit([]byte(constant.StringVal(val))), id.Pos()})
					}
				}
			}
		}
	}
	return out
}

func bytesLit(b []byte) string {
	parts := make([]string, len(b))
	for i, c := range b {
		parts[i] = fmt.Sprint(c)
	}
	return "[" + strings.Join(parts, "; ") + "]%Z"
}

// symConst renders a constant expression symbolically if it only uses package constants,
// literals, + - and unary ^ on bytes. Returns ok=false to fall back to the literal value.
func (u *unit) symConst(e ast.Expr, prefix string) (string, bool) {
	switch x := e.(type) {
	case *ast.BasicLit:
		tv := u.info.Types[e]
		if tv.Value != nil && tv.Value.Kind() == constant.Int {
			return tv.Value.ExactString(), true
		}
		return "", false
	case *ast.Ident:
		if x.Name == "iota" {
			return "", false
		}
		if c, ok := u.info.Uses[x].(*types.Const); ok && c.Pkg() == u.pkg {
			return prefix + x.Name, true
		}
		return "", false
	case *ast.ParenExpr:
		s, ok := u.symConst(x.X, prefix)
		return "(" + s + ")", ok
	case *ast.BinaryExpr:
		if x.Op != token.ADD && x.Op != token.SUB {
			return "", false
		}
		a, ok1 := u.symConst(x.X, prefix)
		b, ok2 := u.symConst(x.Y, prefix)
		if !ok1 || !ok2 {
			return "", false
		}
		return "(" + a + " " + x.Op.String() + " " + b + ")", true
	case *ast.UnaryExpr:
		if x.Op == token.XOR {
			// ^c on a byte constant
			tv := u.info.Types[e]
			if b, ok := tv.Type.Underlying().(*types.Basic); ok && (b.Kind() == types.Uint8) {
				a, ok := u.symConst(x.X, prefix)
				return "(255 - " + a + ")", ok
			}
		}
		return "", false
	}
	return "", false
}

// ---------------------------------------------------------------- functions

type unsupported struct {
	pos  token.Pos
	what string
}

type tr struct {
	u      *unit
	prefix string
	known  map[string]bool // translated function names (Go names)
	floats map[string]int  // float-typed locals/params -> bits
}

func (t *tr) fail(p token.Pos, f string, a ...any) {
	panic(unsupported{p, fmt.Sprintf(f, a...)})
}

func basicOf(ty types.Type) *types.Basic {
	if ty == nil {
		return nil
	}
	b, _ := ty.Underlying().(*types.Basic)
	return b
}

func (t *tr) wrapFor(ty types.Type, p token.Pos) string {
	b := basicOf(ty)
	if b == nil {
		t.fail(p, "non-basic arithmetic type %v", ty)
	}
	switch b.Kind() {
	case types.Uint8:
		return "u8"
	case types.Uint16:
		return "u16"
	case types.Uint32:
		return "u32"
	case types.Uint64, types.Uint:
		return "u64"
	case types.Int64, types.Int:
		return "i64"
	case types.Int32:
		return "i32"
	case types.UntypedInt:
		return ""
	}
	t.fail(p, "unsupported arithmetic type %v", ty)
	return ""
}

func (t *tr) isFloat(ty types.Type) int {
	b := basicOf(ty)
	if b == nil {
		return 0
	}
	switch b.Kind() {
	case types.Float64:
		return 64
	case types.Float32:
		return 32
	}
	return 0
}

func (t *tr) coqType(ty types.Type, p token.Pos) string {
	if s, ok := ty.Underlying().(*types.Slice); ok {
		if b := basicOf(s.Elem()); b != nil && b.Kind() == types.Uint8 {
			return "list Z"
		}
	}
	if b := basicOf(ty); b != nil {
		if b.Kind() == types.Bool {
			return "bool"
		}
		if b.Info()&types.IsInteger != 0 || b.Info()&types.IsFloat != 0 {
			return "Z"
		}
	}
	t.fail(p, "unsupported type %v", ty)
	return ""
}

func (t *tr) expr(e ast.Expr) string {
	tv := t.u.info.Types[e]
	// constant expressions: symbolic if possible, else value
	if tv.Value != nil && tv.Value.Kind() == constant.Int {
		if s, ok := t.u.symConst(e, t.prefix); ok {
			if strings.HasPrefix(s, "-") {
				return "(" + s + ")"
			}
			return s
		}
		s := tv.Value.ExactString()
		if strings.HasPrefix(s, "-") {
			return "(" + s + ")"
		}
		return s
	}
	if tv.Value != nil && tv.Value.Kind() == constant.Float {
		if constant.Sign(tv.Value) == 0 {
			return "0"
		}
		t.fail(e.Pos(), "non-zero float constant")
	}
	if tv.Value != nil && tv.Value.Kind() == constant.Bool {
		if constant.BoolVal(tv.Value) {
			return "true"
		}
		return "false"
	}
	switch x := e.(type) {
	case *ast.ParenExpr:
		return t.expr(x.X)
	case *ast.Ident:
		return "v_" + x.Name
	case *ast.BinaryExpr:
		return t.binary(x)
	case *ast.UnaryExpr:
		a := t.expr(x.X)
		switch x.Op {
		case token.NOT:
			return "(negb " + a + ")"
		case token.XOR:
			w := t.wrapFor(tv.Type, x.Pos())
			return "(not_" + w + " " + a + ")"
		case token.SUB:
			if fb := t.isFloat(tv.Type); fb != 0 {
				return fmt.Sprintf("(f%d_neg %s)", fb, a)
			}
			w := t.wrapFor(tv.Type, x.Pos())
			return "(" + w + " (- " + a + "))"
		}
		t.fail(x.Pos(), "unary %v", x.Op)
	case *ast.IndexExpr:
		return "(nth (Z.to_nat " + t.expr(x.Index) + ") " + t.expr(x.X) + " 0)"
	case *ast.CallExpr:
		return t.call(x)
	}
	t.fail(e.Pos(), "expression %T", e)
	return ""
}

func (t *tr) binary(x *ast.BinaryExpr) string {
	tv := t.u.info.Types[x]
	lt := t.u.info.Types[x.X].Type
	a, b := t.expr(x.X), t.expr(x.Y)
	cmp := map[token.Token]string{token.LSS: "<?", token.LEQ: "<=?", token.GTR: ">?", token.GEQ: ">=?", token.EQL: "=?"}
	switch x.Op {
	case token.LAND:
		return "(" + a + " && " + b + ")"
	case token.LOR:
		return "(" + a + " || " + b + ")"
	case token.LSS, token.LEQ, token.GTR, token.GEQ, token.EQL, token.NEQ:
		if fb := t.isFloat(lt); fb != 0 {
			// only f == 0, f != f are in the subset
			if x.Op == token.EQL && b == "0" {
				return fmt.Sprintf("(f%d_is_zero %s)", fb, a)
			}
			if x.Op == token.NEQ && a == b {
				return fmt.Sprintf("(f%d_is_nan %s)", fb, a)
			}
			t.fail(x.Pos(), "float comparison")
		}
		if bb := basicOf(lt); bb != nil && bb.Kind() == types.Bool {
			t.fail(x.Pos(), "bool comparison")
		}
		if x.Op == token.NEQ {
			return "(negb (" + a + " =? " + b + "))"
		}
		return "(" + a + " " + cmp[x.Op] + " " + b + ")"
	}
	w := t.wrapFor(tv.Type, x.Pos())
	wrap := func(s string) string {
		if w == "" {
			return s
		}
		return "(" + w + " " + s + ")"
	}
	switch x.Op {
	case token.ADD:
		return wrap("(" + a + " + " + b + ")")
	case token.SUB:
		return wrap("(" + a + " - " + b + ")")
	case token.MUL:
		return wrap("(" + a + " * " + b + ")")
	case token.SHR:
		return "(shr " + a + " " + b + ")"
	case token.SHL:
		return wrap("(shl " + a + " " + b + ")")
	case token.AND:
		return "(Z.land " + a + " " + b + ")"
	case token.OR:
		return "(Z.lor " + a + " " + b + ")"
	}
	t.fail(x.Pos(), "binary %v", x.Op)
	return ""
}

func (t *tr) call(x *ast.CallExpr) string {
	// conversions
	if tvf, ok := t.u.info.Types[x.Fun]; ok && tvf.IsType() {
		if len(x.Args) != 1 {
			t.fail(x.Pos(), "conversion arity")
		}
		if t.isFloat(t.u.info.Types[x.Args[0]].Type) != 0 {
			t.fail(x.Pos(), "float conversion")
		}
		w := t.wrapFor(tvf.Type, x.Pos())
		return "(" + w + " " + t.expr(x.Args[0]) + ")"
	}
	switch f := x.Fun.(type) {
	case *ast.Ident:
		switch f.Name {
		case "append":
			base := t.expr(x.Args[0])
			if x.Ellipsis != token.NoPos {
				if len(x.Args) != 2 {
					t.fail(x.Pos(), "append spread arity")
				}
				return "(" + base + " ++ " + t.expr(x.Args[1]) + ")"
			}
			var items []string
			for _, a := range x.Args[1:] {
				s := t.expr(a)
				// constants placed in a byte slot are range-checked by the Go compiler
				items = append(items, s)
			}
			return "(" + base + " ++ [" + strings.Join(items, "; ") + "])"
		case "len":
			return "(Z.of_nat (length " + t.expr(x.Args[0]) + "))"
		}
		if t.known[f.Name] {
			var args []string
			for _, a := range x.Args {
				args = append(args, t.expr(a))
			}
			return "(" + t.prefix + f.Name + " " + strings.Join(args, " ") + ")"
		}
		t.fail(x.Pos(), "call of untranslated function %s", f.Name)
	case *ast.SelectorExpr:
		if id, ok := f.X.(*ast.Ident); ok && id.Name == "math" {
			switch f.Sel.Name {
			case "IsNaN":
				return "(f64_is_nan " + t.expr(x.Args[0]) + ")"
			case "Float64bits", "Float32bits":
				return t.expr(x.Args[0])
			}
		}
		t.fail(x.Pos(), "call of %v.%s", f.X, f.Sel.Name)
	}
	t.fail(x.Pos(), "call")
	return ""
}

// stmts translates a statement list followed by the continuation `rest` (more statements).
func (t *tr) stmts(list []ast.Stmt) string {
	if len(list) == 0 {
		t.fail(token.NoPos, "control reaches end of function without return")
	}
	s, rest := list[0], list[1:]
	switch x := s.(type) {
	case *ast.ReturnStmt:
		if len(x.Results) != 1 {
			t.fail(x.Pos(), "multi-value return")
		}
		return t.expr(x.Results[0])
	case *ast.AssignStmt:
		if len(x.Lhs) != 1 || len(x.Rhs) != 1 {
			t.fail(x.Pos(), "multi-assignment")
		}
		id, ok := x.Lhs[0].(*ast.Ident)
		if !ok {
			t.fail(x.Pos(), "assignment to non-identifier")
		}
		if x.Tok != token.ASSIGN && x.Tok != token.DEFINE {
			t.fail(x.Pos(), "assignment operator %v", x.Tok)
		}
		return "(let v_" + id.Name + " := " + t.expr(x.Rhs[0]) + " in\n  " + t.stmts(rest) + ")"
	case *ast.IfStmt:
		if x.Init != nil {
			t.fail(x.Pos(), "if with init")
		}
		thenS := t.stmts(append(append([]ast.Stmt{}, x.Body.List...), rest...))
		var elseL []ast.Stmt
		switch e := x.Else.(type) {
		case nil:
		case *ast.BlockStmt:
			elseL = e.List
		case *ast.IfStmt:
			elseL = []ast.Stmt{e}
		}
		elseS := t.stmts(append(append([]ast.Stmt{}, elseL...), rest...))
		return "(if " + t.expr(x.Cond) + "\n  then " + thenS + "\n  else " + elseS + ")"
	case *ast.SwitchStmt:
		if x.Init != nil || x.Tag != nil {
			t.fail(x.Pos(), "switch with tag/init")
		}
		var clauses []*ast.CaseClause
		var def *ast.CaseClause
		for _, c := range x.Body.List {
			cc := c.(*ast.CaseClause)
			if cc.List == nil {
				def = cc
			} else {
				clauses = append(clauses, cc)
			}
		}
		var out string
		if def != nil {
			out = t.stmts(append(append([]ast.Stmt{}, def.Body...), rest...))
		} else {
			out = t.stmts(rest)
		}
		for i := len(clauses) - 1; i >= 0; i-- {
			cc := clauses[i]
			var conds []string
			for _, c := range cc.List {
				conds = append(conds, t.expr(c))
			}
			cond := strings.Join(conds, " || ")
			if len(conds) > 1 {
				cond = "(" + cond + ")"
			}
			for _, st := range cc.Body {
				if _, ok := st.(*ast.BranchStmt); ok {
					t.fail(st.Pos(), "break/fallthrough in switch")
				}
			}
			body := t.stmts(append(append([]ast.Stmt{}, cc.Body...), rest...))
			out = "(if " + cond + "\n  then " + body + "\n  else " + out + ")"
		}
		return out
	case *ast.BlockStmt:
		return t.stmts(append(append([]ast.Stmt{}, x.List...), rest...))
	}
	t.fail(s.Pos(), "statement %T", s)
	return ""
}

func (t *tr) function(name string) (out string, err *unsupported) {
	fd := t.u.funcs[name]
	if fd == nil {
		return "", &unsupported{token.NoPos, "function not found"}
	}
	defer func() {
		if r := recover(); r != nil {
			if un, ok := r.(unsupported); ok {
				err = &un
				return
			}
			panic(r)
		}
	}()
	var params []string
	for _, fl := range fd.Type.Params.List {
		ty := t.u.info.Types[fl.Type].Type
		ct := t.coqType(ty, fl.Pos())
		for _, n := range fl.Names {
			params = append(params, "(v_"+n.Name+" : "+ct+")")
		}
	}
	if fd.Type.Results == nil || len(fd.Type.Results.List) != 1 || len(fd.Type.Results.List[0].Names) > 1 {
		t.fail(fd.Pos(), "result arity")
	}
	rt := t.coqType(t.u.info.Types[fd.Type.Results.List[0].Type].Type, fd.Pos())
	body := t.stmts(fd.Body.List)
	return fmt.Sprintf("Definition %s%s %s : %s :=\n  %s.\n", t.prefix, name, strings.Join(params, " "), rt, body), nil
}

// ---------------------------------------------------------------- driver

type job struct {
	dir    string   // relative to repo
	files  []string // files parsed together
	funcs  []string // functions to translate, in dependency order
	out    string   // output .v
	prefix string
}

func main() {
	repo := flag.String("repo", "/repo", "repository root")
	outDir := flag.String("out", "/verif/coq/gen", "output directory")
	flag.Parse()
	jobs := []job{
		{
			dir:   "internal/encoding",
			files: []string{"encoding.go", "int.go", "bool.go", "null.go", "type.go", "float.go", "bytes.go", "time.go", "json.go"},
			funcs: []string{
				"EncodeUint32Ascending", "EncodeUint32Descending", "EncodeUint64Ascending", "EncodeUint64Descending",
				"EncodeUvarintAscending", "EncodeUvarintDescending", "EncodeVarintAscending", "EncodeVarintDescending",
				"EncodeBoolAscending", "EncodeBoolDescending", "EncodeNullAscending", "EncodeNullDescending",
				"EncodeFloat64Ascending", "EncodeFloat64Descending", "EncodeFloat32Ascending", "EncodeFloat32Descending",
				"Float32IsNaN", "encodeTime", "PeekType",
			},
			out: "GenEnc.v", prefix: "G_",
		},
	}
	rc := 0
	for _, j := range jobs {
		u, err := load(filepath.Join(*repo, j.dir), j.files)
		if err != nil {
			fmt.Println("TRANSLATOR-ERROR", err)
			os.Exit(3)
		}
		var buf bytes.Buffer
		fmt.Fprintf(&buf, "(* GENERATED by tools/gosyn from %s/{%s} - do not edit. *)\n", j.dir, strings.Join(j.files, ","))
		buf.WriteString("From Coq Require Import List ZArith Bool.\nFrom Verif Require Import GoSem.\nImport ListNotations.\nOpen Scope Z_scope.\nOpen Scope bool_scope.\n\n")
		cs := u.constants(j.prefix)
		sort.SliceStable(cs, func(a, b int) bool { return false })
		// constants may refer to later ones (intSmall uses IntMax): order by dependency
		emitted := map[string]bool{}
		for len(emitted) < len(cs) {
			progress := false
			for _, c := range cs {
				if emitted[c.name] {
					continue
				}
				ok := true
				for _, d := range cs {
					if d.name != c.name && !emitted[d.name] && containsIdent(c.body, d.name) {
						ok = false
					}
				}
				if ok {
					fmt.Fprintf(&buf, "Definition %s := %s.\n", c.name, c.body)
					emitted[c.name] = true
					progress = true
				}
			}
			if !progress {
				fmt.Println("TRANSLATOR-ERROR cyclic constants")
				os.Exit(3)
			}
		}
		buf.WriteString("\n")
		t := &tr{u: u, prefix: j.prefix, known: map[string]bool{}}
		// Float32IsNaN must precede its users
		order := append([]string{}, j.funcs...)
		sort.SliceStable(order, func(a, b int) bool { return order[a] == "Float32IsNaN" && order[b] != "Float32IsNaN" })
		for _, fn := range order {
			s, un := t.function(fn)
			if un != nil {
				pos := ""
				if un.pos != token.NoPos {
					pos = u.fset.Position(un.pos).String()
				}
				fmt.Printf("TRANSLATOR-UNSUPPORTED %s %s %s\n", fn, pos, un.what)
				fmt.Fprintf(&buf, "(* %s: not translatable: %s *)\n\n", fn, un.what)
				rc = 3
				continue
			}
			t.known[fn] = true
			buf.WriteString(s)
			buf.WriteString("\n")
		}
		writeIfChanged(filepath.Join(*outDir, j.out), buf.Bytes())
	}
	if err := genConsts(*repo, *outDir); err != nil {
		fmt.Println("TRANSLATOR-ERROR", err)
		rc = 3
	}
	os.Exit(rc)
}

func containsIdent(body, name string) bool {
	idx := 0
	for {
		i := strings.Index(body[idx:], name)
		if i < 0 {
			return false
		}
		i += idx
		end := i + len(name)
		before := i == 0 || !isIdentChar(body[i-1])
		after := end == len(body) || !isIdentChar(body[end])
		if before && after {
			return true
		}
		idx = end
	}
}

func isIdentChar(c byte) bool {
	return c == '_' || c >= '0' && c <= '9' || c >= 'a' && c <= 'z' || c >= 'A' && c <= 'Z'
}

func writeIfChanged(path string, data []byte) {
	old, err := os.ReadFile(path)
	if err == nil && bytes.Equal(old, data) {
		return
	}
	_ = os.MkdirAll(filepath.Dir(path), 0o755)
	if err := os.WriteFile(path, data, 0o644); err != nil {
		fmt.Println("TRANSLATOR-ERROR", err)
		os.Exit(3)
	}
}

// genConsts emits constants of a few further packages (CRDT markers, key instance letters,
// document status codes) into GenConsts.v.
func genConsts(repo, outDir string) error {
	type cj struct {
		dir    string
		files  []string
		prefix string
		only   []string
	}
	list := []cj{
		{"internal/db/base", []string{"descriptions.go"}, "GB_", nil},
		{"internal/core", []string{"type.go"}, "GC_", nil},
		{"internal/keys", []string{"datastore_doc.go"}, "GK_", []string{"ValueKey", "PriorityKey", "DeletedKey"}},
		{"client", []string{"document.go"}, "GD_", []string{"Active", "Deleted"}},
	}
	var buf bytes.Buffer
	buf.WriteString("(* GENERATED by tools/gosyn - do not edit. *)\nFrom Coq Require Import List ZArith.\nImport ListNotations.\nOpen Scope Z_scope.\n\n")
	for _, j := range list {
		u, err := load(filepath.Join(repo, j.dir), j.files)
		if err != nil {
			return err
		}
		for _, c := range u.constants(j.prefix) {
			if j.only != nil {
				keep := false
				for _, o := range j.only {
					if c.name == j.prefix+o {
						keep = true
					}
				}
				if !keep {
					continue
				}
			}
			fmt.Fprintf(&buf, "Definition %s := %s.\n", c.name, c.body)
		}
	}
	writeIfChanged(filepath.Join(outDir, "GenConsts.v"), buf.Bytes())
	return nil
}
