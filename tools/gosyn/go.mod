module gosyn

go 1.23
